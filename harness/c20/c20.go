// Package c20: free-running race-detector pass over every (background activity, concurrent API
// call) pair.  The gates are only used to *position* the background job at its entry; it is then
// released without waiting and the API call is issued at once, so the two really overlap and the
// Go race detector (a -race build of this binary, run as a child process per pair) judges every
// conflicting access that is not ordered by synchronisation in that execution.
package c20

import (
	"context"
	"encoding/binary"
	"fmt"
	"net"
	"os"
	"os/exec"
	"path/filepath"
	"regexp"
	"sort"
	"strings"
	"sync"
	"time"

	"github.com/spq/pkappa2/internal/index/manager"
	"github.com/spq/pkappa2/internal/query"
	"github.com/spq/pkappa2/verifx/csvc"
	"github.com/spq/pkappa2/verifx/mc"
	"github.com/spq/pkappa2/verifx/svc"
)

type activity struct {
	name   string
	prefix []string // events that leave the job parked at its begin gate
	kind   string
	conv   bool
	// endpoint: a PCAP-over-IP endpoint served by the harness sends packets while the calls run
	endpoint bool
	// free: an activity of the environment (file-system events the service watches) that runs with
	// the gates off while the calls run
	free func(w *svc.World)
	// env: environment of the child process (read by the harness converter)
	env map[string]string
}

// dropIntoWatchDir copies captures into the watched directory; the service's watcher copies each
// into the capture directory after its 500 ms debounce timer (on a timer goroutine) and imports it.
func dropIntoWatchDir(w *svc.World) {
	for i, n := range []string{"P4.pcap", "P2.pcap"} {
		b, err := os.ReadFile(filepath.Join(w.Staging, n))
		if err != nil {
			mc.Fatal("%v", err)
		}
		dst := filepath.Join(w.Dir, "watch", fmt.Sprintf("w%d.pcap", i))
		// written in two pieces: Create and Write events reset the same debounce timer
		if err := os.WriteFile(dst, b[:len(b)/2], 0o644); err != nil {
			mc.Fatal("%v", err)
		}
		time.Sleep(50 * time.Millisecond)
		if err := os.WriteFile(dst, b, 0o644); err != nil {
			mc.Fatal("%v", err)
		}
		time.Sleep(250 * time.Millisecond)
	}
	time.Sleep(900 * time.Millisecond)
}

// churnConverterDir adds a further converter executable, touches it (the watcher restarts its
// processes) and removes it again, each step behind the watcher's 500 ms debounce.
func churnConverterDir(w *svc.World) {
	second := filepath.Join(w.ConvDir, "conv3")
	if err := os.Symlink(w.ConverterBin, second); err != nil {
		mc.Fatal("%v", err)
	}
	time.Sleep(700 * time.Millisecond)
	now := time.Now()
	os.Chtimes(filepath.Join(w.ConvDir, "conv"), now, now)
	os.Chtimes(second, now, now)
	time.Sleep(700 * time.Millisecond)
	os.Remove(second)
	time.Sleep(300 * time.Millisecond)
}

// servePcapOverIP listens on a local port and streams the given capture file (global header,
// then one record every few milliseconds, repeated) to every connection until stop is closed.
func servePcapOverIP(file string, stop chan struct{}) (string, error) {
	data, err := os.ReadFile(file)
	if err != nil {
		return "", err
	}
	if len(data) < 24 {
		return "", fmt.Errorf("capture %s too short", file)
	}
	ln, err := net.Listen("tcp", "127.0.0.1:0")
	if err != nil {
		return "", err
	}
	go func() {
		<-stop
		ln.Close()
	}()
	go func() {
		for {
			c, err := ln.Accept()
			if err != nil {
				return
			}
			go func(c net.Conn) {
				defer c.Close()
				if _, err := c.Write(data[:24]); err != nil {
					return
				}
				for round := 0; round < 200; round++ {
					for off := 24; off+16 <= len(data); {
						n := int(binary.LittleEndian.Uint32(data[off+8:]))
						if off+16+n > len(data) {
							break
						}
						if _, err := c.Write(data[off : off+16+n]); err != nil {
							return
						}
						off += 16 + n
						select {
						case <-stop:
							return
						case <-time.After(3 * time.Millisecond):
						}
					}
				}
			}(c)
		}
	}()
	return ln.Addr().String(), nil
}

var activities = []activity{
	{"import body", []string{"api:import:P1"}, "import", false, false, nil, nil},
	{"second import body with indexes present", []string{"api:import:P1", "drain", "api:addtag:tag/d=cdata:foo", "drain", "api:import:P3"}, "import", false, false, nil, nil},
	{"tagging job body", []string{"api:import:P1", "drain", "api:addtag:tag/d=cdata:foo"}, "tag", false, false, nil, nil},
	{"tagging job body of an id-only tag", []string{"api:import:P1", "drain", "api:addtag:tag/d=id:0,1"}, "tag", false, false, nil, nil},
	{"tagging job body of a tag referring to a mark", []string{"api:import:P1", "drain", "api:addtag:mark/m=id:0", "drain", "api:addtag:tag/d=mark:m"}, "tag", false, false, nil, nil},
	{"tagging job body of a data tag next to a finished port tag", []string{"api:import:P1", "drain", "api:addtag:tag/p=cport:1", "drain", "api:addtag:tag/d=cdata:foo"}, "tag", false, false, nil, nil},
	{"merge job body", []string{"api:import:P1", "drain", "api:import:P2", "step:import", "step:import"}, "merge", false, false, nil, nil},
	{"conversion job body", []string{"api:import:P1", "drain", "api:addtag:tag/p=cport:1", "drain", "api:converters:tag/p=conv"}, "convert", true, false, nil, nil},
	{"PCAP-over-IP endpoint receiving packets", []string{"api:import:P1", "drain", "api:addtag:tag/d=cdata:foo", "drain"}, "", false, true, nil, nil},
	{"tag-update ticker with pending signals", []string{"api:import:P1", "drain", "api:addtag:tag/d=cdata:foo", "drain", "api:color:tag/d=#111111"}, "", false, false, nil, nil},
	{"watch directory receiving captures", []string{"api:import:P1", "drain", "api:addtag:tag/d=cdata:foo", "drain"}, "", false, false, dropIntoWatchDir, nil},
	{"converter directory: executable added, touched, removed", []string{"api:import:P1", "drain", "api:addtag:tag/p=cport:1", "drain", "api:converters:tag/p=conv", "drain"}, "", true, false, churnConverterDir, nil},
	{"tagging job body of a tag that filters on cached converter output", []string{"api:import:P1+P2", "drain", "api:addtag:tag/p=cport:1", "drain", "api:converters:tag/p=conv", "drain", "api:addtag:tag/d=cdata.conv:FOO"}, "tag", true, false, nil, nil},
	{"conversion job body whose converter process dies on one of two streams", []string{"api:import:P1+P2", "drain", "api:addtag:tag/p=cport:1", "drain", "api:converters:tag/p=conv"}, "convert", true, false, nil, map[string]string{"VCONV_DIE_ON": "FOO1"}},
	{"conversion job body whose converter breaks the protocol on one of two streams", []string{"api:import:P1+P2", "drain", "api:addtag:tag/p=cport:1", "drain", "api:converters:tag/p=conv"}, "convert", true, false, nil, map[string]string{"VCONV_BAD_ON": "FOO2"}},
	{"conversion job body of a converter that writes 120 KiB of diagnostics per stream", []string{"api:import:P1+P2", "drain", "api:addtag:tag/p=cport:1", "drain", "api:converters:tag/p=conv"}, "convert", true, false, nil, map[string]string{"VCONV_STDERR": "loud"}},
	// a second API client: its calls overlap with the calls of the table (two request handlers of the web server)
	{"second client: converter reset, detach and attach", []string{"api:import:P1+P2", "drain", "api:addtag:tag/p=cport:1", "drain", "api:converters:tag/p=conv", "drain"}, "", true, false, clientConverters, nil},
	{"second client: tag add, query edit, mark add/remove, delete", []string{"api:import:P1+P2", "drain", "api:addtag:tag/d=cdata:foo", "drain", "api:addtag:tag/p=cport:1", "drain"}, "", false, false, clientTags, nil},
	{"second client: listings, views and searches", []string{"api:import:P1+P2", "drain", "api:addtag:tag/d=cdata:foo", "drain", "api:addtag:tag/p=cport:1", "drain", "api:converters:tag/p=conv", "drain"}, "", true, false, clientReads, nil},
}

func clientConverters(w *svc.World) {
	for i := 0; i < 60; i++ {
		w.Mgr.ResetConverter("conv")
		w.Mgr.ListConverters()
		if i%4 == 1 {
			w.Mgr.UpdateTag("tag/p", manager.UpdateTagOperationSetConverter(nil))
			w.Mgr.UpdateTag("tag/p", manager.UpdateTagOperationSetConverter([]string{"conv"}))
		}
	}
}

func clientTags(w *svc.World) {
	for i := 0; i < 60; i++ {
		n := fmt.Sprintf("tag/y%d", i)
		w.Mgr.AddTag(n, "#000", "sport:53 tag:p")
		w.Mgr.UpdateTag(n, manager.UpdateTagOperationUpdateQuery("sport:80"))
		if i == 0 {
			w.Mgr.AddTag("mark/k", "#000", "id:0")
		}
		w.Mgr.UpdateTag("mark/k", manager.UpdateTagOperationMarkAddStream([]uint64{1}))
		w.Mgr.UpdateTag("mark/k", manager.UpdateTagOperationMarkDelStream([]uint64{1}))
		w.Mgr.DelTag(n)
		w.Mgr.ListTags()
	}
}

func clientReads(w *svc.World) {
	q, _ := query.Parse("tag:d or cport:1 sort:id")
	for i := 0; i < 60; i++ {
		w.Mgr.Status()
		w.Mgr.ListTags()
		w.Mgr.ListConverters()
		w.Mgr.KnownPcaps()
		v := w.Mgr.GetView()
		v.SearchStreams(context.Background(), q, func(sc manager.StreamContext) error { sc.AllTags(); sc.Data("conv"); return nil }, manager.Limit(100, 0), manager.PrefetchAllTags())
		v.Release()
	}
}

type call struct {
	name string
	run  func(w *svc.World, i int)
}

func calls() []call {
	q, _ := query.Parse("cport:1 sort:id")
	qTag, _ := query.Parse("tag:d or -tag:p")
	qConv, _ := query.Parse("cdata.conv:FOO")
	return []call{
		{"Status", func(w *svc.World, i int) { w.Mgr.Status() }},
		{"ListTags", func(w *svc.World, i int) { w.Mgr.ListTags() }},
		{"KnownPcaps", func(w *svc.World, i int) { w.Mgr.KnownPcaps() }},
		{"ListConverters+Config+Webhooks", func(w *svc.World, i int) {
			w.Mgr.ListConverters()
			w.Mgr.Config()
			w.Mgr.ListPcapProcessorWebhooks()
			w.Mgr.ListPcapOverIPEndpoints()
		}},
		{"view: all streams with all tags, search, release", func(w *svc.World, i int) {
			v := w.Mgr.GetView()
			v.AllStreams(context.Background(), func(sc manager.StreamContext) error { sc.AllTags(); sc.AllConverters(); return nil }, manager.PrefetchAllTags())
			v.SearchStreams(context.Background(), q, func(sc manager.StreamContext) error { sc.Stream().Data(); return nil }, manager.Limit(100, 0), manager.PrefetchAllTags())
			v.Release()
		}},
		{"view: converter data of stream 0", func(w *svc.World, i int) {
			v := w.Mgr.GetView()
			if sc, err := v.Stream(0); err == nil && sc.Stream() != nil {
				sc.Data("conv")
				sc.Data("")
			}
			v.Release()
		}},
		{"AddTag+DelTag", func(w *svc.World, i int) {
			n := fmt.Sprintf("tag/x%d", i)
			w.Mgr.AddTag(n, "#000", "sport:53")
			w.Mgr.DelTag(n)
		}},
		{"mark add/remove", func(w *svc.World, i int) {
			if i == 0 {
				w.Mgr.AddTag("mark/m", "#000", "id:0")
			}
			w.Mgr.UpdateTag("mark/m", manager.UpdateTagOperationMarkAddStream([]uint64{0, 1}))
			w.Mgr.UpdateTag("mark/m", manager.UpdateTagOperationMarkDelStream([]uint64{0}))
		}},
		{"tag query edit", func(w *svc.World, i int) {
			w.Mgr.UpdateTag("tag/d", manager.UpdateTagOperationUpdateQuery(fmt.Sprintf("cdata:foo id:0:%d", i%3+1)))
		}},
		{"converter attach/detach", func(w *svc.World, i int) {
			w.Mgr.UpdateTag("tag/d", manager.UpdateTagOperationSetConverter([]string{"conv"}))
			w.Mgr.UpdateTag("tag/p", manager.UpdateTagOperationSetConverter([]string{"conv"}))
			w.Mgr.UpdateTag("tag/d", manager.UpdateTagOperationSetConverter(nil))
		}},
		{"ImportPcaps", func(w *svc.World, i int) {
			if i == 0 {
				w.Stage("P4.pcap")
				w.Mgr.ImportPcaps([]string{"P4.pcap"})
			} else {
				w.Mgr.Status()
			}
		}},
		{"event listener", func(w *svc.World, i int) {
			ch, closer := w.Mgr.Listen()
			quit := make(chan struct{})
			done := make(chan struct{})
			go func() {
				defer close(done)
				for {
					select {
					case _, ok := <-ch:
						if !ok {
							return
						}
					case <-quit:
						// the service may leave the channel open when an event delivery raced with the
						// closer (observed; not one of the listed properties): do not wait for the close
						return
					}
				}
			}()
			w.Mgr.UpdateTag("tag/d", manager.UpdateTagOperationUpdateColor(fmt.Sprintf("#%06d", i)))
			// stop receiving BEFORE closing the subscription: when a pending delivery wins against the
			// closer, the service keeps the closed subscription registered and Manager.Close later
			// closes its channel a second time and panics (observed; the same defect makes the
			// repository's TestManagerMerging flaky; not one of the listed properties)
			close(quit)
			<-done
			closer()
		}},
		{"ResetConverter + ConverterStderr of every process", func(w *svc.World, i int) {
			for _, st := range w.Mgr.ListConverters() {
				for _, p := range st.Processes {
					if se, err := w.Mgr.ConverterStderr(st.Name, p.Pid); err == nil && se != nil {
						_ = len(se.Stderr)
					}
				}
			}
			if i%8 == 3 {
				w.Mgr.ResetConverter("conv")
			}
		}},
		{"view: reference time, HasTag, searches by tag and by converter data", func(w *svc.World, i int) {
			v := w.Mgr.GetView()
			v.ReferenceTime()
			if sc, err := v.Stream(uint64(i % 3)); err == nil && sc.Stream() != nil {
				sc.HasTag("tag/d")
				sc.HasTag("tag/p")
				sc.AllConverters()
			}
			v.SearchStreams(context.Background(), qTag, func(sc manager.StreamContext) error { sc.AllTags(); return nil }, manager.Limit(100, 0))
			v.SearchStreams(context.Background(), qConv, func(sc manager.StreamContext) error { sc.Data("conv"); return nil }, manager.Limit(100, 0))
			v.Release()
		}},
		{"SetConfig+webhook", func(w *svc.World, i int) {
			w.Mgr.SetConfig(manager.Config{AutoInsertLimitToQuery: i%2 == 0})
			u := fmt.Sprintf("http://127.0.0.1:9/h%d", i)
			w.Mgr.AddPcapProcessorWebhook(u)
			w.Mgr.DelPcapProcessorWebhook(u)
		}},
	}
}

// held: the gates are switched off when the job is released (no hand-off that could order the job
// against the service loop), the job is silently kept at its completion point, and the calls are
// made while it is there: everything its body read or wrote is concurrent with everything the
// service loop does for the calls, for the jobs they start and for their completions.
type pair struct {
	a, b int
	held bool
}

func (p pair) name() string {
	n := activities[p.a].name + " || " + calls()[p.b].name
	if p.held {
		n += " [job held at its completion point, gates off]"
	}
	return n
}

func allPairs() []pair {
	var out []pair
	for a := range activities {
		for b := range calls() {
			out = append(out, pair{a, b, false})
			if activities[a].kind != "" {
				out = append(out, pair{a, b, true})
			}
		}
	}
	return out
}

// Child runs one pair under the race detector.
func Child(idx int) int {
	ps := allPairs()
	if idx < 0 || idx >= len(ps) {
		return 2
	}
	p := ps[idx]
	act, cl := activities[p.a], calls()[p.b]
	bin := filepath.Join(mc.VerifDir, "bin", "vconv")
	svc.UseWatchDir = true
	os.Setenv("VCONV_STDERR", "1")
	for k, v := range act.env {
		os.Setenv(k, v)
	}
	w, err := svc.NewWorld(bin)
	if err != nil {
		mc.Fatal("%v", err)
	}
	defer w.Destroy()
	drain := func() {
		for i := 0; len(w.ParkedNames()) != 0 && i < 80; i++ {
			if err := w.Step(w.ParkedNames()[0]); err != nil {
				mc.Fatal("%v", err)
			}
		}
	}
	for _, ev := range act.prefix {
		if ev == "drain" {
			drain()
			continue
		}
		if err := w.Apply(ev); err != nil {
			mc.Fatal("%s: %v", ev, err)
		}
	}
	if p.held {
		release := w.FreeRun(act.kind + ".done")
		for i := 0; i < 40; i++ {
			cl.run(w, i)
		}
		idle := w.WaitIdle(20*time.Second, act.kind)
		if os.Getenv("VERIF_C20_DEBUG") != "" {
			fmt.Fprintf(os.Stderr, "held: idle=%v status=%+v tags=%+v convs=%+v\n", idle, w.Mgr.Status(), w.Mgr.ListTags(), func() (o []any) {
				for _, c := range w.Mgr.ListConverters() {
					o = append(o, *c)
				}
				return
			}())
		}
		release()
		w.WaitIdle(20 * time.Second)
		return 0
	}
	var wg sync.WaitGroup
	stop := make(chan struct{})
	wg.Add(1)
	go func() {
		defer wg.Done()
		for i := 0; ; i++ {
			select {
			case <-stop:
				return
			default:
			}
			cl.run(w, i)
			if i >= 200 {
				return
			}
		}
	}()
	if act.kind != "" {
		// release the job body without waiting: it overlaps with the calls above
		if err := w.Step(act.kind); err != nil {
			mc.Fatal("%v", err)
		}
		drain()
	} else {
		if act.endpoint {
			// the endpoint's reader goroutine updates its counters while the calls list them; the
			// flush worker turns the packets into captures and imports them, whose jobs run free
			stopSrv := make(chan struct{})
			defer close(stopSrv)
			addr, err := servePcapOverIP(filepath.Join(w.Staging, "P4.pcap"), stopSrv)
			if err != nil {
				mc.Fatal("%v", err)
			}
			w.FreeRun()
			if err := w.Mgr.AddPcapOverIPEndpoint(addr); err != nil {
				mc.Fatal("%v", err)
			}
			for i := 0; i < 6; i++ {
				time.Sleep(200 * time.Millisecond)
				w.Mgr.ListPcapOverIPEndpoints()
			}
			w.Mgr.DelPcapOverIPEndpoint(addr)
		}
		if act.free != nil {
			w.FreeRun()
			act.free(w)
			w.WaitIdle(20 * time.Second)
		}
		time.Sleep(1300 * time.Millisecond) // one period of the 1 s ticker
	}
	close(stop)
	wg.Wait()
	drain()
	return 0
}

var (
	reRace  = regexp.MustCompile(`(?s)WARNING: DATA RACE\n(.*?)\n==================`)
	reFrame = regexp.MustCompile(`(?m)^  (\S+)\(\)\n\s+(\S+?):(\d+)`)
)

type raceReport struct {
	key, text string
}

// parseReports extracts the race reports and keys them by the top-most repository functions of
// the two conflicting accesses (stable under line shifts).
func parseReports(out string) []raceReport {
	var res []raceReport
	for _, m := range reRace.FindAllStringSubmatch(out, -1) {
		block := m[1]
		parts := regexp.MustCompile(`(?m)^(Read|Write|Previous read|Previous write|Goroutine .*created) at`).Split(block, -1)
		kinds := regexp.MustCompile(`(?m)^(Read|Write|Previous read|Previous write) at`).FindAllStringSubmatch(block, -1)
		var acc []string
		for i := 1; i < len(parts) && i <= 2 && i-1 < len(kinds); i++ {
			fn := "?"
			for _, f := range reFrame.FindAllStringSubmatch(parts[i], -1) {
				if strings.Contains(f[2], mc.RepoDir+"/") {
					fn = f[1]
					break
				}
			}
			k := strings.ToLower(strings.TrimPrefix(kinds[i-1][1], "Previous "))
			acc = append(acc, k+" in "+strings.TrimPrefix(fn, "github.com/spq/pkappa2/"))
		}
		sort.Strings(acc)
		res = append(res, raceReport{strings.Join(acc, " / "), block})
	}
	return res
}

func Run(tier string) int {
	rep := mc.NewReporter("C20", tier, "exploration")
	rep.Driver = "c20"
	raceBin := filepath.Join(mc.VerifDir, "bin", "vcheck-race")
	if _, err := os.Stat(raceBin); err != nil {
		mc.Fatal("%s missing (build.sh race builds it): %v", raceBin, err)
	}
	ps := allPairs()
	reps := 1
	if tier == "thorough" {
		reps = 4
	}
	deadline := time.Now().Add(110 * time.Second)
	if tier == "thorough" {
		deadline = time.Now().Add(14 * time.Minute)
	}
	var mu sync.Mutex
	seenPairs := map[string]map[string]bool{}
	var ran, failed, childRetries int64
	var samples []string
	complete := true
	type job struct{ idx, rep int }
	var jobs []job
	only := os.Getenv("VERIF_C20_ONLY") // development aid: pairs whose name contains the value
	for r := 0; r < reps; r++ {
		for i := range ps {
			if only != "" && !strings.Contains(ps[i].name(), only) {
				continue
			}
			jobs = append(jobs, job{i, r})
		}
	}
	if only != "" {
		complete = false
	}
	mc.ParFor(len(jobs), func(ji int) {
		if time.Now().After(deadline) {
			mu.Lock()
			complete = false
			mu.Unlock()
			return
		}
		j := jobs[ji]
		var out []byte
		var err error
		timedOut := false
		for attempt := 0; attempt < 2; attempt++ {
			ctx, cancel := context.WithTimeout(context.Background(), 150*time.Second)
			cmd := exec.CommandContext(ctx, raceBin, "-c20-child", fmt.Sprint(j.idx))
			cmd.Env = append(os.Environ(), "GORACE=halt_on_error=0 history_size=3", "GOMAXPROCS=4")
			out, err = cmd.CombinedOutput()
			timedOut = ctx.Err() == context.DeadlineExceeded
			cancel()
			if err == nil || timedOut || len(parseReports(string(out))) != 0 {
				break
			}
			// a child that ends abnormally without a race report is not a verdict about races (the
			// service can panic in Close when an event delivery raced with a listener's closer - not one
			// of the listed properties); its output is kept and the pair is run once more
			mu.Lock()
			childRetries++
			os.MkdirAll(filepath.Join(mc.VerifDir, "replay"), 0o755)
			os.WriteFile(filepath.Join(mc.VerifDir, "replay", fmt.Sprintf("C20-child-%d-abnormal-exit.log", j.idx)), out, 0o644)
			mu.Unlock()
		}
		if timedOut {
			mc.Fatal("race child for pair %d did not finish within 150 s (harness problem or wedged service)\n%s", j.idx, tailStr(string(out), 1500))
		}
		name := ps[j.idx].name()
		mu.Lock()
		ran++
		if len(samples) < 8 && ji%(len(jobs)/8+1) == 0 {
			samples = append(samples, name)
		}
		mu.Unlock()
		reports := parseReports(string(out))
		if err != nil && len(reports) == 0 {
			mu.Lock()
			failed++
			mu.Unlock()
			// exit status 66 is the race detector's; anything else without a report is a harness problem
			mc.Fatal("race child for pair %q failed: %v\n%s", name, err, tailStr(string(out), 1500))
		}
		for _, r := range reports {
			mu.Lock()
			if seenPairs[r.key] == nil {
				seenPairs[r.key] = map[string]bool{}
			}
			seenPairs[r.key][name] = true
			mu.Unlock()
			rep.Report(mc.Violation{Symptom: "c20.data-race", Key: r.key, Msg: fmt.Sprintf("pair [%s]: %s\n%s", name, r.key, tailStr(r.text, 2500)), Replay: map[string]any{"pair": name, "pair_index": j.idx}})
		}
	}, nil)
	// part 2 (exhaustive): in every state of the service explorer (all interleavings of the scenario
	// programs with the job steps) a job parked at its begin point must find, when released, exactly
	// the bitmasks it was handed when it started
	svcBudget := 200 * time.Second
	if tier == "thorough" {
		svcBudget = 12 * time.Minute
	}
	svcStates, svcTrans, svcComplete, svcCaps := csvc.ExploreFor("C20", tier, svcBudget, rep)
	cv := rep.Coverage
	cv["frozen_input_states"] = svcStates
	cv["frozen_input_transitions"] = svcTrans
	cv["frozen_input_exhaustive"] = svcComplete
	if !svcComplete {
		cv["frozen_input_caps_hit"] = svcCaps
	}
	cv["frozen_input_rule"] = "explicit-state search of the service explorer (same scenarios and canonical states as C06/C09/C10/C13/C16): whenever a tagging or conversion job is released from its begin point - where it has executed nothing since it started - the bitmasks it was handed (matches / uncertain set of its tag and of every tag it refers to, stream sets to convert) are compared with their rendering at start; a difference means the service loop wrote to memory the job reads without synchronisation"
	cv["evaluations"] = ran
	cv["distinct_nontrivial"] = int64(len(ps))
	cv["rule"] = "every ordered pair (background activity, API call) in two modes. overlap: the activity is positioned at its entry by the gates, released WITHOUT waiting, and the API call is issued up to 200 times while it runs and while its completion and follow-up jobs are delivered. held: the gates are switched off (a point then performs no lock, no notification, nothing that orders goroutines), the job is released, silently kept at its completion point while the API call is issued 40 times and every job it starts (imports, merges, tagging, conversions) runs to completion and is applied by the service loop, then let go; the pair runs in a child process of the -race build; reports are keyed by the top-most repository functions of the two conflicting accesses; non-trivial = every pair (both sides touch service state)"
	cv["children_run_again_after_abnormal_exit"] = childRetries
	cv["activities"] = len(activities)
	cv["api_calls"] = len(calls())
	cv["pairs"] = len(ps)
	cv["repetitions_per_pair"] = reps
	cv["distinct_race_keys"] = len(seenPairs)
	cv["distinct_outcomes"] = len(seenPairs) + 2
	cv["samples"] = samples
	cv["exhaustive"] = complete && svcComplete
	cv["states"] = int64(len(ps)) + svcStates
	cv["transitions"] = ran + svcTrans
	cv["traces_validated_against_impl"] = ran + svcTrans
	rep.Assumptions = []string{
		"this is not a decision over all schedules: the race detector judges the accesses executed in one free-running execution per pair (per repetition); the enumeration of pairs is exhaustive over the stated tables, the schedules inside a pair are not",
		"reports whose two stacks lie outside the repository are attributed to '?'",
	}
	return rep.Finish()
}

func tailStr(s string, n int) string {
	if len(s) > n {
		return s[:n]
	}
	return s
}
