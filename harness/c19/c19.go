// Package c19: file endpoints of the HTTP server stay inside the capture directory and never
// overwrite.
//
// The real router (setupRouter in /repo/cmd/pkappa2, package main) cannot be imported, so the
// enumeration itself lives in /verif/overlay/files/cmd/pkappa2/verif_c19_test.go, which is mapped
// into the package with `go test -c -overlay` (together with a stub for the web/dist embed) and
// compiled to /verif/bin/c19.test.  This driver builds that binary when it is missing, runs it as
// N shard processes (the flags the handlers read are process globals, so one scratch tree per
// process; worlds and interleavings are dealt out by index modulo N, results do not depend on N),
// merges the JSON results and reports.
package c19

import (
	"encoding/json"
	"fmt"
	"os"
	"os/exec"
	"path/filepath"
	"runtime"
	"sort"
	"strings"
	"sync"
	"time"

	"github.com/spq/pkappa2/verifx/mc"
)

type violation struct {
	Symptom string         `json:"symptom"`
	Key     string         `json:"key"`
	Msg     string         `json:"msg"`
	Replay  map[string]any `json:"replay"`
}

type result struct {
	Complete        bool           `json:"complete"`
	Targets         int            `json:"targets_total"`
	TracesTotal     int            `json:"traces_total"`
	Requests        int64          `json:"requests"`
	DistinctReqs    int64          `json:"distinct_requests"`
	Nontrivial      int64          `json:"distinct_nontrivial"`
	Worlds          int64          `json:"worlds"`
	Traces          int64          `json:"traces"`
	TraceSteps      int64          `json:"trace_steps"`
	Outcomes        map[string]int `json:"outcomes"`
	TraceOutcomes   map[string]int `json:"trace_outcomes"`
	Samples         []string       `json:"samples"`
	Violations      []violation    `json:"violations"`
	ViolationCounts map[string]int `json:"violation_counts"`
	Digests         []string       `json:"digests"`
	Uploads2xx      int64          `json:"uploads_2xx"`
	Downloads2xx    int64          `json:"downloads_2xx"`
	QueuedNames     int64          `json:"queued_names_observed"`
	ArrivedEvents   int64          `json:"pcap_arrived_events"`
	KnownPcaps      int64          `json:"known_pcaps_at_world_end"`
	ValidUploads2xx int64          `json:"valid_pcap_uploads_2xx"`
	StreamDownloads int64          `json:"stream_downloads"`
	StreamDown2xx   int64          `json:"stream_downloads_2xx"`
	Notes           []string       `json:"notes"`
	HarnessError    string         `json:"harness_error"`
}

func goTool() string {
	if g := os.Getenv("GO"); g != "" {
		return g
	}
	if m, _ := filepath.Glob("/root/go/pkg/mod/golang.org/toolchain@v0.0.1-go1.25.0.linux-amd64/bin/go"); len(m) == 1 {
		return m[0]
	}
	return "go"
}

func repoDir() string {
	if d := os.Getenv("REPO_DIR"); d != "" {
		return d
	}
	return "/repo"
}

func buildEnv() []string {
	env := os.Environ()
	def := func(k, v string) {
		if os.Getenv(k) == "" {
			env = append(env, k+"="+v)
		}
	}
	def("GOFLAGS", "-mod=mod")
	def("GOPROXY", "off")
	def("GOTOOLCHAIN", "local")
	def("GOWORK", "off")
	def("REPO_DIR", repoDir())
	return env
}

// build compiles the overlay-injected test of /repo/cmd/pkappa2 into bin/c19.test.
func build(bin string) {
	os.MkdirAll(filepath.Dir(bin), 0o755)
	overlay := filepath.Join(mc.VerifDir, "bin", "overlay.json")
	gen := exec.Command("python3", filepath.Join(mc.VerifDir, "overlay", "gen.py"))
	gen.Env = buildEnv()
	out, err := gen.Output()
	if err != nil {
		mc.Fatal("overlay/gen.py: %v", err)
	}
	if err := os.WriteFile(overlay, out, 0o644); err != nil {
		mc.Fatal("%v", err)
	}
	cmd := exec.Command(goTool(), "test", "-c", "-tags", "verif", "-vet=off", "-overlay", overlay, "-o", bin, "./cmd/pkappa2")
	cmd.Dir = repoDir()
	cmd.Env = buildEnv()
	if b, err := cmd.CombinedOutput(); err != nil {
		// a tree that does not build is a harness problem, not a violation of C19
		mc.Fatal("building %s failed: %v\n%s", bin, err, b)
	}
}

func Run(tier string) int {
	rep := mc.NewReporter("C19", tier, "model_checking")
	rep.Driver = "c19"
	budget := 70 * time.Second
	if tier == "thorough" {
		budget = 13 * time.Minute
	} else {
		tier = "quick"
	}
	bin := filepath.Join(mc.VerifDir, "bin", "c19.test")
	if _, err := os.Stat(bin); err != nil || os.Getenv("VERIF_C19_REBUILD") != "" {
		build(bin)
	}
	shards := runtime.GOMAXPROCS(0) - 2
	if shards > 14 {
		shards = 14
	}
	if shards < 1 {
		shards = 1
	}
	tmp, err := os.MkdirTemp("", "verif-c19drv-")
	if err != nil {
		mc.Fatal("%v", err)
	}
	defer os.RemoveAll(tmp)
	budget -= time.Duration(rep.Elapsed() * float64(time.Second)) // time spent building
	if budget < 10*time.Second {
		budget = 10 * time.Second
	}

	results := make([]*result, shards)
	errs := make([]string, shards)
	var wg sync.WaitGroup
	for i := 0; i < shards; i++ {
		wg.Add(1)
		go func(i int) {
			defer wg.Done()
			out := filepath.Join(tmp, fmt.Sprintf("shard%d.json", i))
			cmd := exec.Command(bin, "-test.run", "^TestVerifC19$", "-test.timeout", "20m", "-test.count", "1")
			cmd.Dir = tmp
			cmd.Env = append(os.Environ(), "VERIF_C19_TIER="+tier, "VERIF_C19_OUT="+out, fmt.Sprintf("VERIF_C19_SHARD=%d/%d", i, shards),
				fmt.Sprintf("VERIF_C19_BUDGET_S=%d", int(budget.Seconds())), "TZ=UTC", "VERIF_C19_ONLY=", "VERIF_C19_TRACE=", "VERIF_C19_DEBUG=", "TMPDIR="+tmp)
			b, runErr := cmd.CombinedOutput()
			if runErr != nil {
				errs[i] = fmt.Sprintf("shard %d: %v\n%s", i, runErr, tail(string(b), 3000))
			}
			// a shard that stopped on a harness problem still writes what it had found
			jb, err := os.ReadFile(out)
			if err != nil {
				if runErr == nil {
					errs[i] = fmt.Sprintf("shard %d wrote no result: %v\n%s", i, err, tail(string(b), 3000))
				}
				return
			}
			var r result
			if err := json.Unmarshal(jb, &r); err != nil {
				errs[i] = fmt.Sprintf("shard %d: bad result file: %v", i, err)
				return
			}
			results[i] = &r
		}(i)
	}
	wg.Wait()
	// the shards' scratch trees live below tmp (TMPDIR): a shard that ends normally removes its own,
	// whatever a dead shard left behind goes away with tmp
	// A harness problem (hang watchdog, crashed shard) is fatal, unless violations were found: a
	// server that has been made to damage its own files may well hang afterwards, and the
	// violations found up to that point stand on their own.
	var harnessErrs []string
	found := 0
	for i, e := range errs {
		if e != "" {
			harnessErrs = append(harnessErrs, e)
		}
		if results[i] != nil {
			found += len(results[i].Violations)
		}
	}
	if len(harnessErrs) != 0 && found == 0 {
		os.RemoveAll(tmp)
		mc.Fatal("%s", strings.Join(harnessErrs, "\n"))
	}

	var tot result
	tot.Outcomes, tot.TraceOutcomes, tot.ViolationCounts = map[string]int{}, map[string]int{}, map[string]int{}
	tot.Complete = true
	digests := map[string]bool{}
	sampleSet := map[string]bool{}
	var notes []string
	for _, r := range results {
		if r == nil {
			tot.Complete = false
			continue
		}
		notes = append(notes, r.Notes...)
		tot.Complete = tot.Complete && r.Complete
		tot.Targets, tot.TracesTotal = r.Targets, r.TracesTotal
		tot.Requests += r.Requests
		tot.DistinctReqs += r.DistinctReqs
		tot.Nontrivial += r.Nontrivial
		tot.Worlds += r.Worlds
		tot.Traces += r.Traces
		tot.TraceSteps += r.TraceSteps
		tot.Uploads2xx += r.Uploads2xx
		tot.Downloads2xx += r.Downloads2xx
		tot.QueuedNames += r.QueuedNames
		tot.ArrivedEvents += r.ArrivedEvents
		tot.KnownPcaps += r.KnownPcaps
		tot.ValidUploads2xx += r.ValidUploads2xx
		tot.StreamDownloads += r.StreamDownloads
		tot.StreamDown2xx += r.StreamDown2xx
		for k, v := range r.Outcomes {
			tot.Outcomes[k] += v
		}
		for k, v := range r.TraceOutcomes {
			tot.TraceOutcomes[k] += v
		}
		for k, v := range r.ViolationCounts {
			tot.ViolationCounts[k] += v
		}
		for _, d := range r.Digests {
			digests[d] = true
		}
		for _, s := range r.Samples {
			sampleSet[s] = true
		}
		for _, v := range r.Violations {
			rep.Report(mc.Violation{Symptom: v.Symptom, Key: v.Key, Msg: v.Msg, Replay: v.Replay})
		}
	}
	// one written-out case per outcome class (the shortest), plus the interleaving samples
	byClass := map[string]string{}
	var traceSamples []string
	for s := range sampleSet {
		if strings.HasPrefix(s, "trace ") {
			traceSamples = append(traceSamples, s)
			continue
		}
		cls := s[strings.LastIndex(s, " -> "):]
		method, _, _ := strings.Cut(s, " ")
		cls = method + cls
		if old, ok := byClass[cls]; !ok || len(s) < len(old) || (len(s) == len(old) && s < old) {
			byClass[cls] = s
		}
	}
	var samples []string
	for _, s := range byClass {
		samples = append(samples, s)
	}
	sort.Strings(samples)
	sort.Strings(traceSamples)
	if len(traceSamples) > 8 {
		traceSamples = traceSamples[:8]
	}
	samples = append(samples, traceSamples...)

	c := rep.Coverage
	c["evaluations"] = tot.Requests
	c["transitions"] = tot.Requests
	c["states"] = len(digests)
	c["traces_validated_against_impl"] = tot.Traces
	c["distinct_nontrivial"] = tot.Nontrivial
	c["distinct_requests"] = tot.DistinctReqs
	c["distinct_outcomes"] = len(tot.Outcomes) + len(tot.TraceOutcomes)
	c["outcomes"] = tot.Outcomes
	c["interleaving_outcomes"] = tot.TraceOutcomes
	c["samples"] = samples
	c["targets_enumerated"] = tot.Targets
	c["interleavings_enumerated"] = tot.TracesTotal
	c["interleaving_steps"] = tot.TraceSteps
	c["scratch_worlds"] = tot.Worlds
	c["uploads_2xx"] = tot.Uploads2xx
	c["downloads_2xx"] = tot.Downloads2xx
	c["queue_entries_observed"] = tot.QueuedNames
	c["import_calls_observed"] = tot.ArrivedEvents
	c["captures_known_after_import"] = tot.KnownPcaps
	c["valid_capture_uploads_2xx"] = tot.ValidUploads2xx
	c["stream_packet_downloads"] = tot.StreamDownloads
	c["stream_packet_downloads_2xx"] = tot.StreamDown2xx
	c["violation_cases_by_symptom"] = tot.ViolationCounts
	c["shards"] = shards
	c["exhaustive"] = tot.Complete
	if len(harnessErrs) != 0 {
		c["caps_hit"] = []string{"shard stopped after violations: " + tail(harnessErrs[0], 300)}
	} else if !tot.Complete {
		c["caps_hit"] = []string{"deadline"}
	}
	if len(notes) > 5 {
		notes = notes[:5]
	}
	c["notes"] = notes
	maxLen, chunks := 3, 2
	if tier == "thorough" {
		maxLen, chunks = 4, 3
	}
	c["rule"] = fmt.Sprintf("request targets = every sequence of 1..%d tokens over {a.pcap, a.pcapng, .pcap, .., ., %%2e%%2e, %%2f, %%5c, \\, empty, /, sub, %%00, x.pcap., x.pcap%%20, etc, 300-char name, exists.pcap, canary.pcap} "+
		"joined with '/' and joined with '' (de-duplicated) plus 27 absolute-looking / deep dot-dot / query / case variants; each target is sent as raw request lines over TCP to the real router as "+
		"GET download, POST upload, GET download, POST upload (duplicate name, different body) in a scratch tree with canary files outside the capture directory; after every request the manager is drained and the whole tree "+
		"(path, type, size, sha1) is compared with the tree before. Interleavings = every order-preserving merge of the steps of two uploads of one new name whose bodies are sent in %d pieces "+
		"(finish/finish and abort/finish), of an upload with a download, and of an upload with a whole duplicate upload and a download. "+
		"states = distinct digests of the file tree outside index/snapshots/state; non-trivial = target contains .., %%2e, %%2f, %%5c, \\, //, %%00, the existing name, the canary name or an absolute path", maxLen, chunks)
	rep.Assumptions = []string{
		"queue observation: the processed-pcap webhook (AddPcapProcessorWebhook) names every entry the importer takes off the import queue, failed imports included; pcapArrived events count ImportPcaps calls; both are read after a barrier (manager idle per Status(), then no goroutine created by (*Manager).event or triggerPcapProcessedWebhooks left in a full goroutine dump)",
		"files the manager itself writes below index/, snapshots/ and state/ are not attributed to the request (the canary inside index/ is still watched)",
		"a 2xx GET whose body is the embedded web UI asset (fallback route /*) is not a download",
		"Linux path semantics (a backslash is an ordinary file name byte)",
	}
	if tot.Complete {
		need := []string{"POST 200 stored", "POST 500 -", "GET 200 served", "GET 404 -"}
		for _, n := range need {
			if tot.Outcomes[n] == 0 && len(tot.ViolationCounts) == 0 {
				mc.Fatal("vacuous run: outcome %q never observed (outcomes: %v)", n, tot.Outcomes)
			}
		}
		if tot.Traces != int64(tot.TracesTotal) {
			mc.Fatal("only %d of %d interleavings were executed", tot.Traces, tot.TracesTotal)
		}
	}
	if len(tot.Outcomes)+len(tot.TraceOutcomes) < 2 {
		mc.Fatal("vacuous run: %d distinct outcomes", len(tot.Outcomes)+len(tot.TraceOutcomes))
	}
	return rep.Finish()
}

func tail(s string, n int) string {
	if len(s) > n {
		return "…" + s[len(s)-n:]
	}
	return s
}
