// c19run runs the C19 driver alone (development aid; the registered entry point is cmd/vcheck).
package main

import (
	"os"

	"github.com/spq/pkappa2/verifx/c19"
)

func main() {
	tier := "quick"
	if len(os.Args) > 1 {
		tier = os.Args[1]
	}
	os.Exit(c19.Run(tier))
}
