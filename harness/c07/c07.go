// Package c07: merging any suffix of any ordered list of index files (repeatedly) changes nothing
// a reader of the stack can observe.
package c07

import (
	"context"
	"fmt"
	"net"
	"os"
	"path/filepath"
	"sort"
	"strings"
	"sync"
	"sync/atomic"
	"time"

	"github.com/spq/pkappa2/internal/index"
	"github.com/spq/pkappa2/internal/query"
	"github.com/spq/pkappa2/verifx/c01"
	"github.com/spq/pkappa2/verifx/csvc"
	"github.com/spq/pkappa2/verifx/mc"
	"github.com/spq/pkappa2/verifx/ref"
)

var base = time.Date(2020, 1, 1, 12, 0, 0, 250_000_000, time.UTC)

func ip4(a, b, c, d byte) net.IP { return net.IP{a, b, c, d} }
func ip6(last byte) net.IP {
	p := make(net.IP, 16)
	p[0], p[1], p[15] = 0xfe, 0x80, last
	return p
}

func pk(file string, idx uint64, offUs int64, dir int, data string) ref.PktSpec {
	return ref.PktSpec{Dir: dir, OffsetUs: offUs, File: file, Index: idx, Data: []byte(data)}
}

type fileSet struct {
	name    string
	streams []*ref.StreamSpec
}

func big(n int) string { return strings.Repeat("0123456789abcdef", n/16+1)[:n] }

// fileSets: every pair collides somewhere (same id different version, shared/disjoint hosts, v4/v6,
// earlier/later reference second, earlier first packet in the newer file, other capture names).
func fileSets() []fileSet {
	A, B, Cc, D := ip4(10, 0, 0, 1), ip4(10, 0, 0, 2), ip4(10, 0, 1, 1), ip4(192, 168, 0, 9)
	C2S, S2C := ref.DirC2S, ref.DirS2C
	st := func(id uint64, name string, cl, sv net.IP, cp, sp uint16, udp bool, start time.Time, pkts ...ref.PktSpec) *ref.StreamSpec {
		return &ref.StreamSpec{Name: name, ID: id, Client: cl, Server: sv, CPort: cp, SPort: sp, UDP: udp, Start: start, Pkts: pkts}
	}
	var fs []fileSet
	fs = append(fs, fileSet{"F1{0,1,2}", []*ref.StreamSpec{
		st(0, "s0.v1", A, B, 1000, 80, false, base, pk("a.pcap", 0, 0, C2S, "GET /"), pk("a.pcap", 1, 1000, S2C, "200 OK")),
		st(1, "s1.v1", B, A, 53, 53, true, base.Add(time.Second), pk("a.pcap", 2, 0, C2S, "q"), pk("a.pcap", 3, 900, S2C, "r")),
		st(2, "s2.v1", ip6(1), ip6(2), 3000, 443, false, base.Add(2*time.Second), pk("a.pcap", 4, 0, C2S, "six")),
	}})
	fs = append(fs, fileSet{"F2{1,3}", []*ref.StreamSpec{
		st(1, "s1.v2 extended", B, A, 53, 53, true, base.Add(time.Second), pk("a.pcap", 2, 0, C2S, "q"), pk("a.pcap", 3, 900, S2C, "r"), pk("b.pcap", 0, 70_000, C2S, "q2"), pk("b.pcap", 1, 140_000, S2C, "r2")),
		st(3, "s3.v1 new hosts", Cc, D, 2000, 8080, false, base.Add(3*time.Second), pk("b.pcap", 2, 0, S2C, "hi"), pk("b.pcap", 3, 10, C2S, "ho")),
	}})
	fs = append(fs, fileSet{"F3{0}", []*ref.StreamSpec{
		st(0, "s0.v2 earlier start other capture", A, B, 1000, 80, false, base.Add(-90*time.Second), pk("0.pcap", 7, 0, C2S, "SYNDATA"), pk("a.pcap", 0, 90_000_000, C2S, "GET /"), pk("a.pcap", 1, 90_001_000, S2C, "200 OK")),
	}})
	fs = append(fs, fileSet{"F4{4,5}", []*ref.StreamSpec{
		st(4, "s4 early ref second", D, Cc, 1, 2, true, base.Add(-time.Hour), pk("z.pcap", 0, 0, C2S, "old")),
		st(5, "s5 no payload", D, D, 5, 5, false, base.Add(-time.Hour+time.Second), pk("z.pcap", 1, 0, C2S, ""), pk("z.pcap", 2, 5, S2C, "")),
	}})
	fs = append(fs, fileSet{"F5{2}", []*ref.StreamSpec{
		st(2, "s2.v2 index>2^32", ip6(1), ip6(2), 3000, 443, false, base.Add(2*time.Second), pk("a.pcap", 4, 0, C2S, "six"), pk("c.pcap", 1<<32+3, 2_000_000, S2C, "seven"), pk("c.pcap", 1<<32+4, 2_000_001, S2C, "8")),
	}})
	fs = append(fs, fileSet{"F6{0..5}", []*ref.StreamSpec{
		st(5, "s5.v2", D, D, 5, 5, false, base.Add(-time.Hour+time.Second), pk("z.pcap", 1, 0, C2S, ""), pk("z.pcap", 2, 5, S2C, ""), pk("z.pcap", 9, 50, S2C, "late")),
		st(3, "s3.v2", Cc, D, 2000, 8080, false, base.Add(3*time.Second), pk("b.pcap", 2, 0, S2C, "hi"), pk("b.pcap", 3, 10, C2S, "ho"), pk("b.pcap", 8, 20, C2S, "hum")),
		st(0, "s0.v3", A, B, 1000, 80, false, base, pk("a.pcap", 0, 0, C2S, "GET /"), pk("a.pcap", 1, 1000, S2C, "200 OK"), pk("d.pcap", 0, 2000, C2S, "more")),
		st(4, "s4.v2", D, Cc, 1, 2, true, base.Add(-time.Hour), pk("z.pcap", 0, 0, C2S, "old"), pk("z.pcap", 5, 1, C2S, "older")),
		st(1, "s1.v3", B, A, 53, 53, true, base.Add(time.Second), pk("a.pcap", 2, 0, C2S, "Q")),
		st(2, "s2.v3", ip6(1), ip6(2), 3000, 443, false, base.Add(2*time.Second), pk("a.pcap", 4, 0, C2S, "SIX")),
	}})
	var many []ref.PktSpec
	many = append(many, pk("e.pcap", 0, 0, C2S, "head"))
	for i := 0; i < 300; i++ {
		many = append(many, pk("e.pcap", uint64(1+i), int64(1+i), i%2, ""))
	}
	many = append(many, pk("e.pcap", 400, 400, S2C, big(70000)), pk("e.pcap", 401, 60_000, S2C, "tail"))
	fs = append(fs, fileSet{"F7{6}", []*ref.StreamSpec{st(6, "s6 big", A, Cc, 6, 6, false, base.Add(5*time.Second), many...)}})
	fs = append(fs, fileSet{"F8{1,6}", []*ref.StreamSpec{
		st(6, "s6.v0 small", A, Cc, 6, 6, false, base.Add(5*time.Second), pk("e.pcap", 0, 0, C2S, "head")),
		st(1, "s1.v0 first packet earlier", B, A, 53, 53, true, base.Add(-2*time.Second), pk("y.pcap", 0, 0, S2C, "pre"), pk("a.pcap", 2, 3_000_000, C2S, "q")),
	}})
	return fs
}

var queryMenu = []string{
	"", "id:0", "id:1:3", "-id:1", "cport:53", "port:80", "sport:443 or cport:6", "chost:10.0.0.1", "host:10.0.0.2", "shost:fe80::2", "chost:10.0.0.0/24",
	"protocol:udp", "protocol:tcp cbytes:1:", "sbytes:0", "cbytes:@sbytes@", "cdata:GET", "sdata:OK", "data:q", "-cdata:q", "cdata:six then sdata:seven", "sdata:0123", "cdata:\"^$\"",
	`ftime:"2020-01-01 1200:"`, `ltime:":2020-01-01 1200"`, `time:"2020-01-01 1100:2020-01-01 1130"`, "cdata:Q or sdata:hi", "sort:id", "sort:-id", "sort:ftime", "sort:ltime,id", "sort:cbytes,-id", "sort:chost,id", "sort:sport limit:2", "sort:id limit:1", "sort:-ftime limit:3",
}

type parsedQuery struct {
	text string
	q    *query.Query
}

type stack struct {
	readers []*index.Reader
}

func visibleSpecs(files []fileSet) map[uint64]*ref.StreamSpec {
	v := map[uint64]*ref.StreamSpec{}
	for _, f := range files {
		for _, s := range f.streams {
			v[s.ID] = s
		}
	}
	return v
}

// checkStack compares the stack of readers with the visible specs; returns a digest of the search results.
func checkStack(readers []*index.Reader, visible map[uint64]*ref.StreamSpec, queries []parsedQuery, report func(sym, msg string)) []string {
	// visibility through the stack: newest reader containing the id
	found := map[uint64]*index.Stream{}
	for ri := len(readers) - 1; ri >= 0; ri-- {
		r := readers[ri]
		for id := range r.StreamIDs() {
			if _, ok := found[id]; ok {
				continue
			}
			s, err := r.StreamByID(id)
			if err != nil || s == nil {
				report("stack.lookup", fmt.Sprintf("StreamByID(%d) in %s: %v %v", id, filepath.Base(r.Filename()), s, err))
				continue
			}
			found[id] = s
		}
	}
	for id, want := range visible {
		got := found[id]
		if got == nil {
			report("visible.missing", fmt.Sprintf("stream %d (%s) is not visible", id, want.Name))
			continue
		}
		for _, d := range ref.CompareStream(got, want) {
			report("visible."+d[0], fmt.Sprintf("stream %d (want version %s): %s", id, want.Name, d[1]))
		}
	}
	for id := range found {
		if visible[id] == nil {
			report("visible.extra", fmt.Sprintf("stream %d is visible but was never stored", id))
		}
	}
	var res []string
	for _, pq := range queries {
		limit := uint(0)
		if pq.q.Limit != nil {
			limit = *pq.q.Limit
		}
		var streams []*index.Stream
		var more bool
		var err error
		if pt := mc.Try(func() {
			streams, more, _, err = index.SearchStreams(context.Background(), readers, nil, pq.q.ReferenceTime, pq.q.Conditions, nil, pq.q.Sorting, limit, 0, nil, nil, false)
		}); pt != "" {
			report("search.panic", fmt.Sprintf("query %q: %s", pq.text, pt))
			res = append(res, "panic:"+pt)
			continue
		}
		if err != nil {
			report("search.error", fmt.Sprintf("query %q: %v", pq.text, err))
			res = append(res, "error:"+err.Error())
			continue
		}
		ids := make([]string, len(streams))
		for i, s := range streams {
			ids[i] = fmt.Sprintf("%d@%s/%d/%d", s.ID(), s.FirstPacket().UTC().Format("150405.000000"), s.ClientBytes, s.ServerBytes)
		}
		if len(pq.q.Sorting) == 0 || limit == 0 && !sortedByID(pq.q.Sorting) {
			// order among ties is not fixed; compare as a set unless the sort key list ends in id
		}
		if !endsWithID(pq.q.Sorting) {
			sort.Strings(ids)
		}
		res = append(res, fmt.Sprintf("%v more=%v", ids, more))
	}
	return res
}

func sortedByID(s []query.Sorting) bool { return len(s) == 1 && s[0].Key == query.SortingKeyID }
func endsWithID(s []query.Sorting) bool {
	return len(s) != 0 && s[len(s)-1].Key == query.SortingKeyID
}

func Run(tier string) int {
	rep := mc.NewReporter("C07", tier, "model_checking")
	rep.Driver = "c07"
	ref.InternFiles("a.pcap", "b.pcap", "c.pcap", "d.pcap", "e.pcap", "0.pcap", "z.pcap", "y.pcap", "f1.pcap")
	root, err := os.MkdirTemp("", "verif-c07-")
	if err != nil {
		mc.Fatal("%v", err)
	}
	defer os.RemoveAll(root)
	budget := 90 * time.Second
	maxLen := 3
	if tier == "thorough" {
		budget = 13 * time.Minute
		maxLen = 4
	}
	deadline := time.Now().Add(budget)
	sets := fileSets()
	var queries []parsedQuery
	for _, t := range queryMenu {
		q, err := query.Parse(t)
		if err != nil {
			mc.Fatal("query menu %q: %v", t, err)
		}
		queries = append(queries, parsedQuery{t, q})
	}
	var lists [][]int
	var gen func(cur []int)
	gen = func(cur []int) {
		if len(cur) > 0 {
			lists = append(lists, append([]int{}, cur...))
		}
		if len(cur) == maxLen {
			return
		}
		for i := range sets {
			used := false
			for _, c := range cur {
				if c == i {
					used = true
				}
			}
			if !used {
				gen(append(cur, i))
			}
		}
	}
	gen(nil)
	var evals, merges, nontrivial, searches int64
	var timedOut int32
	var mu sync.Mutex
	outcomes := map[string]int{}
	var samples []string
	mc.ParFor(len(lists), func(li int) {
		if atomic.LoadInt32(&timedOut) != 0 {
			return
		}
		if time.Now().After(deadline) {
			atomic.StoreInt32(&timedOut, 1)
			return
		}
		l := lists[li]
		names := make([]string, len(l))
		files := make([]fileSet, len(l))
		for i, x := range l {
			files[i] = sets[x]
			names[i] = sets[x].name
		}
		lname := strings.Join(names, " < ")
		dir := filepath.Join(root, fmt.Sprintf("l%d", li))
		os.MkdirAll(dir, 0o755)
		defer os.RemoveAll(dir)
		visible := visibleSpecs(files)
		overlap := len(visible) < func() int {
			n := 0
			for _, f := range files {
				n += len(f.streams)
			}
			return n
		}()
		// every suffix start i, then every suffix of the result once more
		for i := 0; i < len(l); i++ {
			for second := -1; second < len(l); second++ {
				var readers []*index.Reader
				closeAll := func() {
					for _, r := range readers {
						r.Close()
					}
				}
				step := fmt.Sprintf("[%s] merge suffix from %d", lname, i)
				ok := true
				report := func(sym, msg string) {
					rep.Report(mc.Violation{Symptom: sym, Key: step, Msg: step + ": " + msg, Replay: map[string]any{"files": names, "suffix": i, "second": second}})
				}
				for fi, f := range files {
					r := c01.CheckFile(filepath.Join(dir, fmt.Sprintf("in%d_%d_%d.idx", fi, i, second)), f.streams, func(sym, msg string) {
						ok = false
						report("input."+sym, msg)
					})
					if r == nil {
						ok = false
						break
					}
					readers = append(readers, r)
				}
				if !ok {
					closeAll()
					return
				}
				before := checkStack(readers, visible, queries, report)
				doMerge := func(from int) bool {
					var merged []*index.Reader
					var err error
					if pt := mc.Try(func() { merged, err = index.Merge(dir, readers[from:]) }); pt != "" {
						report("merge.panic", pt)
						return false
					}
					if err != nil {
						report("merge.error", err.Error())
						return false
					}
					atomic.AddInt64(&merges, 1)
					if len(merged) == 0 {
						report("merge.empty-output", "Merge returned no files")
						return false
					}
					seen := map[uint64]string{}
					for _, m := range merged {
						for id := range m.StreamIDs() {
							if o, dup := seen[id]; dup {
								report("merge.duplicate-id", fmt.Sprintf("id %d is in two output files %s and %s", id, o, filepath.Base(m.Filename())))
							}
							seen[id] = filepath.Base(m.Filename())
						}
					}
					for _, r := range readers[from:] {
						r.Close()
					}
					readers = append(readers[:from:from], merged...)
					return true
				}
				if !doMerge(i) {
					closeAll()
					continue
				}
				after := checkStack(readers, visible, queries, report)
				atomic.AddInt64(&searches, int64(2*len(queries)))
				compareSearches(before, after, queries, report)
				if second >= 0 && second < len(readers) {
					step = fmt.Sprintf("[%s] merge suffix from %d, then again from %d", lname, i, second)
					if doMerge(second) {
						after2 := checkStack(readers, visible, queries, report)
						atomic.AddInt64(&searches, int64(len(queries)))
						compareSearches(before, after2, queries, report)
					}
				}
				atomic.AddInt64(&evals, 1)
				if overlap {
					atomic.AddInt64(&nontrivial, 1)
				}
				mu.Lock()
				outcomes[strings.Join(before, ";")]++
				if len(samples) < 8 && li%(len(lists)/8+1) == 0 && second == -1 {
					samples = append(samples, step)
				}
				mu.Unlock()
				closeAll()
			}
		}
	}, func(i int, text string) {
		rep.Report(mc.Violation{Symptom: "panic", Key: fmt.Sprint(lists[i]), Msg: text})
	})
	// id layouts: every way of spreading versions of a few stream ids over a stack of files
	ilStart := time.Now()
	ilDone, ilTotal, ilMerges := checkIDLayouts(rep, root, tier, queries, deadline.Add(45*time.Second))
	merges += ilMerges
	if ilDone < ilTotal {
		timedOut = 1
	}
	rep.Coverage["id_layout_wall_s"] = time.Since(ilStart).Seconds()
	rep.Coverage["id_layout_stacks"] = fmt.Sprintf("%d of %d", ilDone, ilTotal)
	rep.Coverage["id_layout_rule"] = "every way of giving each of n stream ids a version in a non-empty subset of k stacked files (quick: 3 ids x 4 files and 4 ids x 3 files; thorough: 4 ids x 4 files, 3 ids x 5 files and 5 ids x 3 files; no file empty): id ranges of neighbouring files overlap, touch, nest or leave gaps in every combination; versions differ in payload, byte counts and first-packet second (a newer version can start earlier or later); every suffix of the stack is merged, before/after compared on all C01 observations of the newest versions and on six searches"
	mhStart := time.Now()
	mhDone, mhTotal, mhMerges := checkManyHosts(rep, root, tier, queries, deadline.Add(60*time.Second))
	merges += mhMerges
	if mhDone < mhTotal {
		timedOut = 1
	}
	rep.Coverage["many_hosts_wall_s"] = time.Since(mhStart).Seconds()
	rep.Coverage["main_family_wall_s"] = ilStart.Sub(deadline.Add(-budget)).Seconds()
	rep.Coverage["many_hosts_merges"] = fmt.Sprintf("%d of %d", mhDone, mhTotal)
	rep.Coverage["many_hosts_rule"] = "two files with thousands of distinct hosts each (IPv6 / IPv4, part of them shared and met in another order, together more than one host group holds), merged in both stacking orders; every stream compared before and after on all C01 observations, plus eight host-centred searches"
	lcDone, lcTotal := checkLongConversations(rep, root, tier, deadline.Add(90*time.Second))
	if lcDone < lcTotal {
		timedOut = 1
	}
	rep.Coverage["long_conversation_merges"] = fmt.Sprintf("%d of %d", lcDone, lcTotal)
	etDone, etTotal := checkEqualTimes(rep, root)
	rep.Coverage["equal_time_merges"] = fmt.Sprintf("%d of %d", etDone, etTotal)
	rep.Coverage["equal_time_rule"] = "streams of different files that start at the same nanosecond and end at different times (and the reverse: equal ends, different starts), every order of the files, merged; searches sorted by first / last packet time with limits 1-3 in both directions and time filters between the distinct times must answer as before the merge"
	rep.Coverage["long_conversation_rule"] = "a file holding a conversation with thousands of direction changes (4085 ... 8173 runs, thorough up to 20000; 8-byte and 200-byte chunks, i.e. one- and two-byte run lengths) between ordinary streams, merged with an older file in both stacking orders; every stream compared before and after on all C01 observations plus six searches"
	// part 2: the service's own merges.  In every state of the service exploration (all interleavings
	// of imports, tagging and merges) delivering a merge result must leave what a fresh view shows
	// unchanged - the run is replaced where it stood, also when an import arrived meanwhile.
	svcBudget := 80 * time.Second
	if tier == "thorough" {
		svcBudget = 10 * time.Minute
	}
	svcStates, svcTrans, svcComplete, svcCaps := csvc.ExploreFor("C07", tier, svcBudget, rep, "data-tag", "id-tag", "tag-reference", "views-and-merges", "out-of-order-reset", "tag-edit", "data-reference-chain", "queued-imports", "restart")
	cv := rep.Coverage
	cv["service_merge_states"] = svcStates
	cv["service_merge_transitions"] = svcTrans
	cv["service_merge_exhaustive"] = svcComplete
	if !svcComplete {
		cv["service_merge_caps_hit"] = svcCaps
	}
	cv["service_merge_rule"] = "explicit-state search of the service explorer (the scenarios of C06 in which merge results are delivered): whenever the last event of a history delivers the result of a merge job, the digest of a fresh view (every stream with metadata, payload, packets; a search) before the delivery equals the digest after it"
	cv["evaluations"] = evals
	cv["distinct_nontrivial"] = nontrivial
	cv["states"] = evals
	cv["transitions"] = merges
	cv["traces_validated_against_impl"] = evals
	cv["rule"] = "every ordered list (no repetition) of <= N index files over 8 colliding file sets; for every suffix start the suffix is merged with index.Merge and, for every second suffix start, merged once more; before/after: every visible stream compared with the generator's newest version on all C01 observations, and a menu of searches compared between the unmerged and the merged stack; non-trivial = some stream id exists in more than one file of the list"
	cv["max_list_length"] = maxLen
	cv["file_sets"] = len(sets)
	cv["lists"] = len(lists)
	cv["merges"] = merges
	cv["searches_compared"] = searches
	cv["queries"] = len(queries)
	cv["distinct_outcomes"] = len(outcomes)
	cv["samples"] = samples
	cv["exhaustive"] = timedOut == 0 && svcComplete
	if timedOut != 0 {
		cv["caps_hit"] = []string{"deadline"}
	}
	rep.Assumptions = []string{"search results are compared as sets unless the sort key list ends in id (ties may resolve either way)", "the reference for searches is the unmerged stack itself (differential oracle)"}
	if len(outcomes) < 2 {
		mc.Fatal("vacuous: %d outcomes", len(outcomes))
	}
	return rep.Finish()
}

func compareSearches(before, after []string, queries []parsedQuery, report func(sym, msg string)) {
	for qi := range queries {
		if before[qi] != after[qi] {
			report("search.differs", fmt.Sprintf("query %q: before merge %s, after merge %s", queries[qi].text, before[qi], after[qi]))
		}
	}
}

// ---- id layouts ----
//
// The main family draws its lists from eight hand-made files.  Here the id structure of the stack is
// enumerated instead: n ids, k files, every id has a version in every file of a non-empty subset.

func checkIDLayouts(rep *mc.Reporter, root, tier string, allQueries []parsedQuery, deadline time.Time) (done, total int, merges int64) {
	type dims struct{ ids, files int }
	ds := []dims{{3, 4}, {4, 3}}
	if tier == "thorough" {
		ds = []dims{{4, 4}, {3, 5}, {5, 3}}
	}
	var queries []parsedQuery
	for _, q := range allQueries {
		switch q.text {
		case "", "sort:id", "id:1:3", "-id:1", "sort:-ftime limit:3", "sort:cbytes,-id":
			queries = append(queries, q)
		}
	}
	A, B := ip4(10, 0, 0, 1), ip4(10, 0, 0, 2)
	capNames := []string{"b.pcap", "c.pcap", "d.pcap", "e.pcap"}
	type stackCase struct {
		d    dims
		mask []int // per id: set of files holding a version
	}
	var cases []stackCase
	for _, d := range ds {
		cur := make([]int, d.ids)
		var gen func(i int)
		gen = func(i int) {
			if i == d.ids {
				used := 0
				for _, m := range cur {
					used |= m
				}
				if used != 1<<d.files-1 {
					return // a file without streams does not exist
				}
				cases = append(cases, stackCase{d, append([]int{}, cur...)})
				return
			}
			for m := 1; m < 1<<d.files; m++ {
				cur[i] = m
				gen(i + 1)
			}
		}
		gen(0)
	}
	total = len(cases)
	var doneN, mergesN int64
	var stop int32
	mc.ParFor(len(cases), func(ci int) {
		if atomic.LoadInt32(&stop) != 0 {
			return
		}
		if time.Now().After(deadline) {
			atomic.StoreInt32(&stop, 1)
			return
		}
		c := cases[ci]
		files := make([]fileSet, c.d.files)
		var desc []string
		for f := 0; f < c.d.files; f++ {
			var ids []string
			for id := 0; id < c.d.ids; id++ {
				if c.mask[id]&(1<<f) == 0 {
					continue
				}
				ids = append(ids, fmt.Sprint(id))
				// a version is told apart by payload, byte counts and its first-packet second
				start := base.Add(time.Duration(id)*time.Second + time.Duration((id+2*f)%3)*1250*time.Millisecond)
				pl := fmt.Sprintf("id%d-file%d-%s", id, f, strings.Repeat("x", f))
				files[f].streams = append(files[f].streams, &ref.StreamSpec{Name: fmt.Sprintf("s%d.f%d", id, f), ID: uint64(id), Client: A, Server: B,
					CPort: uint16(1000 + id), SPort: 80, Start: start,
					// the first packet of every version of a stream is the same packet of one capture; the later packets
					// come from captures that depend on file and id, so that the files of a stack know different
					// capture files, some of them only through versions that are superseded
					Pkts: []ref.PktSpec{{Dir: ref.DirC2S, OffsetUs: 0, File: "a.pcap", Index: uint64(id * 10), Data: []byte(pl)},
						{Dir: ref.DirS2C, OffsetUs: int64(1000 * (f + 1)), File: capNames[(id+f)%len(capNames)], Index: uint64(id*10 + f), Data: []byte(strings.Repeat("r", f+1))},
						{Dir: ref.DirC2S, OffsetUs: int64(2000 * (f + 1)), File: capNames[(2*id+f+1)%len(capNames)], Index: uint64(1)<<32*uint64(f%2) + uint64(id), Data: []byte("t")}}})
			}
			files[f].name = "{" + strings.Join(ids, ",") + "}"
			desc = append(desc, files[f].name)
		}
		lname := fmt.Sprintf("ids over files %s", strings.Join(desc, " < "))
		visible := visibleSpecs(files)
		dir := filepath.Join(root, fmt.Sprintf("il%d", ci))
		os.MkdirAll(dir, 0o755)
		defer os.RemoveAll(dir)
		for from := 0; from < c.d.files-1; from++ {
			step := fmt.Sprintf("[%s] merge suffix from %d", lname, from)
			report := func(sym, msg string) {
				rep.Report(mc.Violation{Symptom: sym, Key: step, Msg: step + ": " + msg, Replay: map[string]any{"id_layout": desc, "suffix": from}})
			}
			var readers []*index.Reader
			ok := true
			for fi, f := range files {
				r := c01.CheckFile(filepath.Join(dir, fmt.Sprintf("in%d_%d.idx", fi, from)), f.streams, func(sym, msg string) {
					ok = false
					report("input."+sym, msg)
				})
				if r == nil {
					ok = false
					break
				}
				readers = append(readers, r)
			}
			closeAll := func() {
				for _, r := range readers {
					r.Close()
				}
			}
			if !ok {
				closeAll()
				return
			}
			before := checkStack(readers, visible, queries, report)
			var merged []*index.Reader
			var err error
			if pt := mc.Try(func() { merged, err = index.Merge(dir, readers[from:]) }); pt != "" {
				report("merge.panic", pt)
				closeAll()
				continue
			}
			if err != nil || len(merged) == 0 {
				report("merge.error", fmt.Sprintf("%v (%d output files)", err, len(merged)))
				closeAll()
				continue
			}
			atomic.AddInt64(&mergesN, 1)
			seen := map[uint64]int{}
			for _, m := range merged {
				if err := m.AllStreams(func(st *index.Stream) error { seen[st.ID()]++; return nil }); err != nil {
					report("merge.unreadable", err.Error())
				}
			}
			for id, n := range seen {
				if n > 1 {
					report("merge.duplicate-id", fmt.Sprintf("id %d is stored %d times in the merge output", id, n))
				}
			}
			for _, r := range readers[from:] {
				r.Close()
			}
			readers = append(readers[:from:from], merged...)
			after := checkStack(readers, visible, queries, report)
			compareSearches(before, after, queries, report)
			closeAll()
		}
		atomic.AddInt64(&doneN, 1)
	}, func(i int, text string) {
		rep.Report(mc.Violation{Symptom: "panic", Key: fmt.Sprintf("id layout %v", cases[i].mask), Msg: text})
	})
	return int(doneN), total, mergesN
}

// ---- merges that overflow a host group ----
//
// A host group of an index file holds 65535 bytes of addresses (4095 IPv6 / 16383 IPv4 hosts).  When
// the files being merged know more distinct hosts than one group holds, the writer places the hosts
// of an input group into an existing group as far as they fit, undoes that and opens the next group.
// The family merges two files with many hosts (shared ones in a different order) in both stacking
// orders and compares every stream before and after.

type manyHostsCase struct {
	name          string
	v6            bool
	older, newer  int // distinct hosts in the older / newer file
	shared        int // hosts of the older file that the newer one uses too
	newerFirstOwn bool
}

func manyHostsCases(tier string) []manyHostsCase {
	cs := []manyHostsCase{
		{"v6 older=4094 newer=2048 shared=1000", true, 4094, 2048, 1000, false},
		{"v6 older=3000 newer=2000 shared=500 (own hosts first)", true, 3000, 2000, 500, true},
		{"v6 older=2000 newer=3000 shared=1999", true, 2000, 3000, 1999, false},
	}
	if tier == "thorough" {
		cs = append(cs,
			manyHostsCase{"v4 older=16382 newer=4000 shared=2000", false, 16382, 4000, 2000, false},
			manyHostsCase{"v6 older=4095 newer=4095 shared=0", true, 4095, 4095, 0, false},
			manyHostsCase{"v6 older=4095 newer=4095 shared=4094", true, 4095, 4095, 4094, true},
			manyHostsCase{"v6 older=100 newer=4095 shared=50", true, 100, 4095, 50, false},
			manyHostsCase{"v4 older=16383 newer=16383 shared=8000 (own hosts first)", false, 16383, 16383, 8000, true},
			manyHostsCase{"v4 older=9000 newer=9000 shared=1", false, 9000, 9000, 1, false},
		)
	}
	return cs
}

func (c manyHostsCase) files() (older, newer fileSet) {
	host := func(i int) net.IP {
		if c.v6 {
			p := make(net.IP, 16)
			p[0], p[1], p[13], p[14], p[15] = 0x20, 0x01, byte(i>>16), byte(i>>8), byte(i)
			return p
		}
		return ip4(11, byte(i>>16), byte(i>>8), byte(i))
	}
	mk := func(id uint64, cl, sv net.IP, file string) *ref.StreamSpec {
		return &ref.StreamSpec{Name: fmt.Sprintf("s%d", id), ID: id, Client: cl, Server: sv, CPort: uint16(id%60000) + 1, SPort: 2, Start: base.Add(time.Duration(id) * time.Millisecond),
			Pkts: []ref.PktSpec{{Dir: ref.DirC2S, OffsetUs: 0, File: file, Index: id, Data: []byte{byte(id), byte(id >> 8)}}}}
	}
	pairUp := func(hosts []int, firstID uint64, file string) []*ref.StreamSpec {
		var out []*ref.StreamSpec
		for i := 0; i+1 < len(hosts); i += 2 {
			out = append(out, mk(firstID+uint64(len(out)), host(hosts[i]), host(hosts[i+1]), file))
		}
		if len(hosts)%2 == 1 {
			out = append(out, mk(firstID+uint64(len(out)), host(hosts[len(hosts)-1]), host(hosts[0]), file))
		}
		return out
	}
	var oh []int
	for i := 0; i < c.older; i++ {
		oh = append(oh, i)
	}
	// the newer file uses the shared hosts in descending order, interleaved with (or after) its own
	var nh []int
	own := c.newer - c.shared
	if c.newerFirstOwn {
		for i := 0; i < own; i++ {
			nh = append(nh, 1_000_000+i)
		}
		for i := c.shared - 1; i >= 0; i-- {
			nh = append(nh, i*(c.older/max(c.shared, 1)))
		}
	} else {
		o := 0
		for i := c.shared - 1; i >= 0; i-- {
			nh = append(nh, i*(c.older/max(c.shared, 1)))
			if o < own {
				nh = append(nh, 1_000_000+o)
				o++
			}
		}
		for ; o < own; o++ {
			nh = append(nh, 1_000_000+o)
		}
	}
	older = fileSet{"older", pairUp(oh, 0, "a.pcap")}
	newer = fileSet{"newer", pairUp(nh, uint64(len(older.streams)), "b.pcap")}
	// the newer file also holds a newer version of the older file's first and last stream
	for _, s := range []*ref.StreamSpec{older.streams[0], older.streams[len(older.streams)-1]} {
		v2 := *s
		v2.Name += ".v2"
		v2.Pkts = append(append([]ref.PktSpec{}, s.Pkts...), ref.PktSpec{Dir: ref.DirS2C, OffsetUs: 5, File: "b.pcap", Index: 1 << 20, Data: []byte("more")})
		newer.streams = append(newer.streams, &v2)
	}
	return
}

var manyHostsQueries = []string{"", "chost:2001::/16", "shost:11.0.0.0/8 sort:id limit:3", "host:2001::3e7", "host:11.0.3.231", "sort:chost,id limit:5", "sort:-shost,-id limit:5", "cbytes:2 sbytes:4"}

func checkManyHosts(rep *mc.Reporter, root, tier string, _ []parsedQuery, deadline time.Time) (done, total int, merges int64) {
	cases := manyHostsCases(tier)
	var queries []parsedQuery
	for _, t := range manyHostsQueries {
		q, err := query.Parse(t)
		if err != nil {
			mc.Fatal("query menu %q: %v", t, err)
		}
		queries = append(queries, parsedQuery{t, q})
	}
	type job struct {
		c       manyHostsCase
		swapped bool
	}
	var jobs []job
	for _, c := range cases {
		jobs = append(jobs, job{c, false}, job{c, true})
	}
	total = len(jobs)
	var nDone, nMerges int64
	mc.ParFor(len(jobs), func(i int) {
		if time.Now().After(deadline) {
			return
		}
		j := jobs[i]
		older, newer := j.c.files()
		files := []fileSet{older, newer}
		name := "many hosts " + j.c.name
		if j.swapped {
			// the file with the second id range is stacked below: ids do not collide except the two re-stored streams,
			// whose newest version is then the older file's
			files = []fileSet{newer, older}
			name += " (stacked the other way round)"
		}
		if mergeAndCompare(rep, filepath.Join(root, fmt.Sprintf("mh%d", i)), name, files, queries, map[string]any{"case": j.c.name, "swapped": j.swapped}) {
			atomic.AddInt64(&nMerges, 1)
		} else {
			return
		}
		atomic.AddInt64(&nDone, 1)
	}, func(i int, text string) {
		rep.Report(mc.Violation{Symptom: "panic", Key: "many hosts " + jobs[i].c.name, Msg: text})
	})
	return int(nDone), total, nMerges
}

// mergeAndCompare writes the file sets as a stack, merges the whole stack and compares every visible
// stream and the searches before and after.  Returns false when it could not get that far.
func mergeAndCompare(rep *mc.Reporter, dir, name string, files []fileSet, queries []parsedQuery, replay map[string]any) bool {
	os.MkdirAll(dir, 0o755)
	defer os.RemoveAll(dir)
	nrep := 0
	report := func(sym, msg string) {
		nrep++
		if nrep > 4 {
			return
		}
		rep.Report(mc.Violation{Symptom: sym, Key: name, Msg: name + ": " + msg, Replay: replay})
	}
	var readers []*index.Reader
	defer func() {
		for _, r := range readers {
			r.Close()
		}
	}()
	for fi, f := range files {
		// the inputs are written without C01's full read-back (the stack comparison below reads every stream anyway)
		w, err := index.NewWriter(filepath.Join(dir, fmt.Sprintf("in%d.idx", fi)))
		if err != nil {
			mc.Fatal("NewWriter: %v", err)
		}
		for _, s := range f.streams {
			if ok, err := w.AddStream(s.ToStream(), s.ID); err != nil || !ok {
				report("input.writer.refused", fmt.Sprintf("AddStream(%s id %d) = %v, %v", s.Name, s.ID, ok, err))
				w.Close()
				return false
			}
		}
		r, err := w.Finalize()
		if err != nil {
			report("input.writer.finalize", err.Error())
			return false
		}
		readers = append(readers, r)
	}
	visible := visibleSpecs(files)
	before := checkStack(readers, visible, queries, report)
	var merged []*index.Reader
	var err error
	if pt := mc.Try(func() { merged, err = index.Merge(dir, readers) }); pt != "" {
		report("merge.panic", pt)
		return false
	}
	if err != nil {
		report("merge.error", err.Error())
		return false
	}
	if len(merged) == 0 {
		report("merge.empty-output", "Merge returned no files")
		return false
	}
	seen := map[uint64]string{}
	for _, m := range merged {
		for id := range m.StreamIDs() {
			if o, dup := seen[id]; dup {
				report("merge.duplicate-id", fmt.Sprintf("id %d is in two output files %s and %s", id, o, filepath.Base(m.Filename())))
			}
			seen[id] = filepath.Base(m.Filename())
		}
	}
	for _, r := range readers {
		r.Close()
	}
	readers = merged
	after := checkStack(readers, visible, queries, report)
	compareSearches(before, after, queries, report)
	return true
}

// ---- merges of long conversations ----
//
// The writer copies the segmentation of a stream (one varint per direction run) through a 4 KiB
// staging buffer; a conversation with thousands of direction changes needs several rounds of it.
// The family merges a file that holds such a conversation between ordinary streams with an older
// file, for run counts around the multiples of the staging size and for one- and two-byte varints.

func longConversationCases(tier string) (out []struct {
	name  string
	files []fileSet
}) {
	A, B := ip4(10, 0, 0, 1), ip4(10, 0, 0, 2)
	C2S, S2C := ref.DirC2S, ref.DirS2C
	short := func(id uint64, file string, data string) *ref.StreamSpec {
		return &ref.StreamSpec{Name: fmt.Sprintf("s%d", id), ID: id, Client: A, Server: B, CPort: uint16(1000 + id), SPort: 80, Start: base.Add(time.Duration(id) * time.Second),
			Pkts: []ref.PktSpec{pk(file, id*100000, 0, C2S, data), pk(file, id*100000+1, 10, S2C, "ok"+data)}}
	}
	chatty := func(id uint64, runs, chunk int) *ref.StreamSpec {
		s := &ref.StreamSpec{Name: fmt.Sprintf("s%d chatty %d runs of %d bytes", id, runs, chunk), ID: id, Client: A, Server: B, CPort: uint16(1000 + id), SPort: 80, Start: base.Add(time.Duration(id) * time.Second)}
		for i := 0; i < runs; i++ {
			s.Pkts = append(s.Pkts, pk("b.pcap", id*100000+uint64(i), int64(i), i%2, big(chunk)[i%7:][:chunk-7]+fmt.Sprintf("%07d", i)[:7]))
		}
		return s
	}
	ns := []int{4085, 4086, 4087, 4090, 8172, 8173}
	if tier == "thorough" {
		ns = append(ns, 4000, 4096, 8171, 8180, 12258, 12259, 12300, 20000)
	}
	for _, chunk := range []int{8, 200} {
		for _, n := range ns {
			runs := n
			if chunk >= 128 {
				runs = (n + 1) / 2 // two bytes per run
			}
			older := fileSet{"older", []*ref.StreamSpec{short(1, "a.pcap", "one"), short(2, "a.pcap", "two"), short(11, "a.pcap", "eleven-old")}}
			newer := fileSet{"newer", []*ref.StreamSpec{short(9, "b.pcap", "nine"), chatty(10, runs, chunk), short(11, "b.pcap", "eleven"), short(12, "b.pcap", "twelve")}}
			out = append(out, struct {
				name  string
				files []fileSet
			}{fmt.Sprintf("long conversation: %d runs of %d-byte chunks between ordinary streams", runs, chunk), []fileSet{older, newer}})
			// the long conversation itself is superseded by a newer file: the merge has to pass over its thousands of
			// packet records and payload bytes and go on with the streams stored behind it
			if n == ns[0] || n == ns[len(ns)-1] || n == 8172 {
				top := fileSet{"top", []*ref.StreamSpec{short(10, "c.pcap", "ten-new"), short(13, "c.pcap", "thirteen")}}
				out = append(out, struct {
					name  string
					files []fileSet
				}{fmt.Sprintf("long conversation: %d runs of %d-byte chunks between ordinary streams, superseded by a third file", runs, chunk), []fileSet{older, newer, top}})
			}
		}
	}
	return
}

func checkLongConversations(rep *mc.Reporter, root, tier string, deadline time.Time) (done, total int) {
	cases := longConversationCases(tier)
	ref.InternFiles("a.pcap", "b.pcap", "c.pcap")
	var queries []parsedQuery
	for _, t := range []string{"", "cdata:nine", "sdata:oktwelve", "cdata:0000003 then sdata:0000004", "sort:cbytes,id limit:3", "cbytes:1000:"} {
		q, err := query.Parse(t)
		if err != nil {
			mc.Fatal("query menu %q: %v", t, err)
		}
		queries = append(queries, parsedQuery{t, q})
	}
	var nDone int64
	mc.ParFor(len(cases), func(i int) {
		if time.Now().After(deadline) {
			return
		}
		swapped := append([]fileSet{cases[i].files[1], cases[i].files[0]}, cases[i].files[2:]...)
		for k, files := range [][]fileSet{cases[i].files, swapped} {
			name := cases[i].name
			if k == 1 {
				name += " (stacked the other way round)"
			}
			if !mergeAndCompare(rep, filepath.Join(root, fmt.Sprintf("lc%d_%d", i, k)), name, files, queries, map[string]any{"case": cases[i].name, "swapped": k == 1}) {
				return
			}
		}
		atomic.AddInt64(&nDone, 1)
	}, func(i int, text string) {
		rep.Report(mc.Violation{Symptom: "panic", Key: cases[i].name, Msg: text})
	})
	return int(nDone), len(cases)
}


// ---- merges that bring streams with equal start (end) times into one file ----
//
// In one file the lookups by first and by last packet time have to order such streams somehow; searches that walk
// these lookups (a sort by time with a limit, a time filter decided from the first and last entry) must not depend
// on how.

func checkEqualTimes(rep *mc.Reporter, root string) (done, total int) {
	A, B := ip4(10, 0, 0, 1), ip4(10, 0, 0, 2)
	C2S, S2C := ref.DirC2S, ref.DirS2C
	ref.InternFiles("t.pcap")
	mk := func(id uint64, startMs, durMs int64) *ref.StreamSpec {
		return &ref.StreamSpec{Name: fmt.Sprintf("s%d %dms..%dms", id, startMs, startMs+durMs), ID: id, Client: A, Server: B, CPort: uint16(1000 + id), SPort: 80,
			Start: base.Add(time.Duration(startMs) * time.Millisecond),
			Pkts:  []ref.PktSpec{pk("t.pcap", id*10, 0, C2S, fmt.Sprintf("q%d", id)), pk("t.pcap", id*10+1, durMs*1000, S2C, fmt.Sprintf("a%d", id))}}
	}
	abs := func(ms int64) string {
		return base.Add(time.Duration(ms) * time.Millisecond).Format("2006-01-02 150405") + fmt.Sprintf("+%dms", base.Add(time.Duration(ms)*time.Millisecond).Nanosecond()/1_000_000)
	}
	// a sort by one time key is only asked where that key differs between all streams (which of several streams
	// with equal keys comes first is not defined); the other key is asked with the id as second key
	menu := func(distinct, tied string) []parsedQuery {
		var texts []string
		for _, l := range []int{1, 2, 3} {
			texts = append(texts, fmt.Sprintf("sort:%s limit:%d", distinct, l), fmt.Sprintf("sort:-%s limit:%d", distinct, l),
				fmt.Sprintf("sort:%s,id limit:%d", tied, l), fmt.Sprintf("sort:-%s,-id limit:%d", tied, l))
		}
		for _, ms := range []int64{-500, 500, 2000, 4000, 6000, 8500, 9500} {
			texts = append(texts, fmt.Sprintf("ltime:\"%s:\"", abs(ms)), fmt.Sprintf("ltime:\":%s\"", abs(ms)), fmt.Sprintf("ftime:\"%s:\"", abs(ms)), fmt.Sprintf("ftime:\":%s\"", abs(ms)))
		}
		var queries []parsedQuery
		for _, t := range texts {
			q, err := query.Parse(t)
			if err != nil {
				mc.Fatal("query menu %q: %v", t, err)
			}
			queries = append(queries, parsedQuery{t, q})
		}
		return queries
	}
	families := map[string][]*ref.StreamSpec{
		"equal starts": {mk(1, 0, 5000), mk(2, 0, 8000), mk(3, 0, 3000), mk(4, 0, 9000)},
		"equal ends":   {mk(1, 4000, 5000), mk(2, 1000, 8000), mk(3, 6000, 3000), mk(4, 0, 9000)},
	}
	menus := map[string][]parsedQuery{"equal starts": menu("ltime", "ftime"), "equal ends": menu("ftime", "ltime")}
	perms := [][]int{{0, 1, 2, 3}, {3, 2, 1, 0}, {1, 0, 3, 2}, {2, 0, 3, 1}, {1, 3, 0, 2}, {0, 2, 1, 3}}
	names := []string{"equal starts", "equal ends"}
	for _, fam := range names {
		queries := menus[fam]
		for pi, perm := range perms {
			total++
			var files []fileSet
			for _, i := range perm {
				st := families[fam][i]
				files = append(files, fileSet{fmt.Sprintf("{%d}", st.ID), []*ref.StreamSpec{st}})
			}
			name := fmt.Sprintf("%s: single-stream files in the order %v", fam, perm)
			if mergeAndCompare(rep, filepath.Join(root, fmt.Sprintf("et_%s_%d", strings.ReplaceAll(fam, " ", "_"), pi)), name, files, queries, map[string]any{"case": name}) {
				done++
			}
		}
	}
	return
}
