package ref

import (
	"bytes"
	"fmt"
	"net"
	"strings"
	"time"

	"github.com/spq/pkappa2/internal/query"
	"rsc.io/binaryregexp"
)

// ---------- abstract stream records ----------

type TagState uint8

const (
	TagMatching TagState = iota
	TagFailing
	TagUncertainMatching
	TagUncertainFailing
)

const (
	DirC2S = 0
	DirS2C = 1
)

type Chunk struct {
	Dir  int
	Data []byte
}

const (
	ProtoOther = 0
	ProtoTCP   = 1
	ProtoUDP   = 2
	ProtoSCTP  = 3
)

// Rec is the reference description of one stream: everything a filter can look at.
type Rec struct {
	ID             uint64
	CPort, SPort   uint16
	CBytes, SBytes uint64
	CHost, SHost   net.IP // 4 or 16 bytes, same family
	Proto          uint16
	FTime, LTime   time.Time
	Tags           map[string]TagState // full tag name ("tag/a") -> state; absent = failing
	// Reps are the searched representations of the payload: Reps[""] is the raw payload, other keys
	// are converter names with cached output.
	Reps map[string][]Chunk
	// Opaque gives the verdict of data filter elements the evaluator cannot compute (they contain variables
	// of a sub-query): key = OpaqueKey of the element.  Such an element is an atom whose truth the universe
	// assigns freely; what is judged is that the normal form is the same boolean function of these atoms.
	Opaque map[string]bool
}

// OpaqueKey identifies a data filter element by everything it consists of.
func OpaqueKey(e query.DataConditionElement) string {
	return fmt.Sprintf("%s|%q|%v|%d|%s", e.SubQuery, e.Regex, e.Variables, e.Flags&query.DataRequirementSequenceFlagsDirection, e.ConverterName)
}

func (r *Rec) Clone() *Rec {
	n := *r
	if r.Opaque != nil {
		n.Opaque = map[string]bool{}
		for k, v := range r.Opaque {
			n.Opaque[k] = v
		}
	}
	n.Tags = map[string]TagState{}
	for k, v := range r.Tags {
		n.Tags[k] = v
	}
	n.Reps = map[string][]Chunk{}
	for k, v := range r.Reps {
		n.Reps[k] = v
	}
	return &n
}

// ---------- naive payload scanner ----------

type SeqElem struct {
	Dir   int
	Regex string
	Conv  string // "" = raw + every converter, "none" = raw only, else that converter only
}

var regexCache = map[string]*binaryregexp.Regexp{}

func compileRegex(s string) *binaryregexp.Regexp {
	// callers are single-threaded per cache (see NewScanner); kept simple on purpose
	return binaryregexp.MustCompile(s)
}

// ScanSequence is the straightforward left-to-right scan of one representation: every element is
// searched (leftmost-first, on the untrimmed bytes) in its direction starting after the previous
// match of that direction; a match also hides, for the other direction, everything that was sent
// up to and including the chunk that contains the last matched byte.
func ScanSequence(chunks []Chunk, seq []SeqElem, res map[string]*binaryregexp.Regexp) bool {
	var buf [2][]byte
	type cum [2]int
	cums := []cum{{0, 0}}
	for _, c := range chunks {
		if len(c.Data) == 0 {
			continue
		}
		buf[c.Dir] = append(buf[c.Dir], c.Data...)
		last := cums[len(cums)-1]
		last[c.Dir] += len(c.Data)
		cums = append(cums, last)
	}
	off := [2]int{}
	vars := map[string]string{}
	for _, e := range seq {
		expr := e.Regex
		if strings.Contains(expr, "@") {
			// @name@ is replaced by the quoted text captured by an earlier element
			for name, val := range vars {
				expr = strings.ReplaceAll(expr, "@"+name+"@", "(?:"+binaryregexp.QuoteMeta(val)+")")
			}
			if strings.Contains(expr, "@") {
				return false // unbound variable: the sequence cannot match
			}
		}
		re := res[expr]
		if re == nil {
			re = compileRegex(expr)
			if res != nil {
				res[expr] = re
			}
		}
		loc := re.FindSubmatchIndex(buf[e.Dir][off[e.Dir]:])
		if loc == nil {
			return false
		}
		for i, name := range re.SubexpNames() {
			if name != "" && loc[2*i] >= 0 {
				vars[name] = string(buf[e.Dir][off[e.Dir]:][loc[2*i]:loc[2*i+1]])
			}
		}
		if loc[1] != 0 {
			off[e.Dir] += loc[1]
			for i := len(cums) - 1; i >= 1; i-- {
				if cums[i-1][e.Dir] < off[e.Dir] {
					off[1-e.Dir] = cums[i][1-e.Dir]
					break
				}
			}
		}
	}
	return true
}

// repsFor lists the representations a sequence with converter selector conv is evaluated on.
func repsFor(r *Rec, conv string) [][]Chunk {
	var out [][]Chunk
	switch conv {
	case "none":
		out = append(out, r.Reps[""])
	case "":
		out = append(out, r.Reps[""])
		for k, v := range r.Reps {
			if k != "" {
				out = append(out, v)
			}
		}
	default:
		if v, ok := r.Reps[conv]; ok {
			out = append(out, v)
		}
	}
	return out
}

// SeqMatches: a positive sequence holds iff some searched representation has it.
func SeqMatches(r *Rec, seq []SeqElem, res map[string]*binaryregexp.Regexp) bool {
	conv := ""
	if len(seq) != 0 {
		conv = seq[0].Conv
	}
	for _, rep := range repsFor(r, conv) {
		if ScanSequence(rep, seq, res) {
			return true
		}
	}
	return false
}

// ---------- query AST (the expression as written) ----------

type NodeKind int

const (
	KAtom NodeKind = iota
	KAnd
	KOr
	KThen
	KNot
)

type Atom struct {
	Text  string
	Group string                // field group the atom reads (universe projection)
	Eval  func(r *Rec) bool     // nil for data atoms
	Data  []SeqElem             // data atoms: alternatives (data: = cdata or sdata), each a 1-element sequence
}

type Node struct {
	Kind NodeKind
	Atom *Atom
	Kids []*Node
}

func A(a *Atom) *Node           { return &Node{Kind: KAtom, Atom: a} }
func And(k ...*Node) *Node      { return &Node{Kind: KAnd, Kids: k} }
func Or(k ...*Node) *Node       { return &Node{Kind: KOr, Kids: k} }
func Then(k ...*Node) *Node     { return &Node{Kind: KThen, Kids: k} }
func Not(k *Node) *Node         { return &Node{Kind: KNot, Kids: []*Node{k}} }

// Text prints the expression with explicit parentheses around every operand.
func (n *Node) Text() string {
	switch n.Kind {
	case KAtom:
		return n.Atom.Text
	case KNot:
		return "-(" + n.Kids[0].Text() + ")"
	}
	op := map[NodeKind]string{KAnd: " and ", KOr: " or ", KThen: " then "}[n.Kind]
	parts := make([]string, len(n.Kids))
	for i, k := range n.Kids {
		if k.Kind == KAtom {
			parts[i] = k.Text()
		} else {
			parts[i] = "(" + k.Text() + ")"
		}
	}
	return strings.Join(parts, op)
}

func (n *Node) Atoms(f func(*Atom)) {
	if n.Kind == KAtom {
		f(n.Atom)
		return
	}
	for _, k := range n.Kids {
		k.Atoms(f)
	}
}

func (n *Node) HasData() bool {
	has := false
	n.Atoms(func(a *Atom) {
		if a.Data != nil {
			has = true
		}
	})
	return has
}

// PureData: only data atoms combined with and/or/then (no negation) – the shape for which the
// documentation defines THEN over groups.
func (n *Node) PureData() bool {
	switch n.Kind {
	case KAtom:
		return n.Atom.Data != nil
	case KNot:
		return false
	}
	for _, k := range n.Kids {
		if !k.PureData() {
			return false
		}
	}
	return true
}

// WellDefined reports whether the reference semantics gives the tree a meaning: a THEN node needs
// operands that are pure-data, or all-but-one... (a side without any data atom makes THEN an AND).
// HasThen says whether the tree contains a THEN.
func (n *Node) HasThen() bool {
	if n.Kind == KThen {
		return true
	}
	for _, k := range n.Kids {
		if k.HasThen() {
			return true
		}
	}
	return false
}

func (n *Node) WellDefined() bool {
	for _, k := range n.Kids {
		if !k.WellDefined() {
			return false
		}
	}
	if n.Kind != KThen {
		return true
	}
	for _, k := range n.Kids {
		if !k.PureData() && k.HasData() {
			return false
		}
	}
	return true
}

// seqDNF: OR of AND of sequences.
type seqDNF [][][]SeqElem

func (n *Node) dnf() seqDNF {
	switch n.Kind {
	case KAtom:
		var d seqDNF
		for _, alt := range n.Atom.Data {
			d = append(d, [][]SeqElem{{alt}})
		}
		return d
	case KOr:
		var d seqDNF
		for _, k := range n.Kids {
			d = append(d, k.dnf()...)
		}
		return d
	case KAnd:
		d := seqDNF{{}}
		for _, k := range n.Kids {
			kd := k.dnf()
			var nd seqDNF
			for _, c1 := range d {
				for _, c2 := range kd {
					nd = append(nd, append(append([][]SeqElem{}, c1...), c2...))
				}
			}
			d = nd
		}
		return d
	case KThen:
		d := n.Kids[0].dnf()
		for _, k := range n.Kids[1:] {
			kd := k.dnf()
			var nd seqDNF
			for _, c1 := range d {
				for _, c2 := range kd {
					var conj [][]SeqElem
					for _, l := range c1 {
						for _, r := range c2 {
							conj = append(conj, append(append([]SeqElem{}, l...), r...))
						}
					}
					nd = append(nd, conj)
				}
			}
			d = nd
		}
		return d
	}
	panic("dnf of negation")
}

// Eval is the meaning of the expression as written.
func (n *Node) Eval(r *Rec, res map[string]*binaryregexp.Regexp) bool {
	switch n.Kind {
	case KAtom:
		if n.Atom.Data != nil {
			for _, alt := range n.Atom.Data {
				if SeqMatches(r, []SeqElem{alt}, res) {
					return true
				}
			}
			return false
		}
		return n.Atom.Eval(r)
	case KNot:
		return !n.Kids[0].Eval(r, res)
	case KAnd:
		for _, k := range n.Kids {
			if !k.Eval(r, res) {
				return false
			}
		}
		return true
	case KOr:
		for _, k := range n.Kids {
			if k.Eval(r, res) {
				return true
			}
		}
		return false
	case KThen:
		// sides without data atoms are plain conjuncts
		var data []*Node
		for _, k := range n.Kids {
			if k.HasData() {
				data = append(data, k)
			} else if !k.Eval(r, res) {
				return false
			}
		}
		if len(data) == 0 {
			return true
		}
		if len(data) == 1 {
			return data[0].Eval(r, res)
		}
		d := (&Node{Kind: KThen, Kids: data}).dnf()
		for _, conj := range d {
			ok := true
			for _, seq := range conj {
				if !SeqMatches(r, seq, res) {
					ok = false
					break
				}
			}
			if ok {
				return true
			}
		}
		return false
	}
	panic("bad node")
}

// ---------- direct evaluation of the normalised condition structs ----------

// EvalConditions evaluates a ConditionsSet (no sub-queries) on a record, reading the documented
// meaning of every condition struct.  refTime is the query's reference time.
func EvalConditions(cs query.ConditionsSet, r *Rec, refTime time.Time, res map[string]*binaryregexp.Regexp) (bool, error) {
	for _, c := range cs {
		ok, err := evalConj(c, r, refTime, res)
		if err != nil {
			return false, err
		}
		if ok {
			return true, nil
		}
	}
	return false, nil
}

func evalConj(c query.Conditions, r *Rec, refTime time.Time, res map[string]*binaryregexp.Regexp) (bool, error) {
	for _, cc := range c {
		ok, err := evalCond(cc, r, refTime, res)
		if err != nil {
			return false, err
		}
		if !ok {
			return false, nil
		}
	}
	return true, nil
}

func evalCond(cc query.Condition, r *Rec, refTime time.Time, res map[string]*binaryregexp.Regexp) (bool, error) {
	switch c := cc.(type) {
	case *query.ImpossibleCondition:
		return false, nil
	case *query.TagCondition:
		name := c.TagName
		if c.SubQuery != "" {
			// the tag of the stream a sub-query picks is another fact than the tag of the searched stream: a record
			// of the universe carries it under "<sub-query>@<tag>" (C03 assigns it as a free atom); without such an
			// entry the condition cannot be evaluated here
			name = c.SubQuery + "@" + c.TagName
			if _, ok := r.Tags[name]; !ok {
				return false, fmt.Errorf("sub-query in tag condition")
			}
		}
		st, ok := r.Tags[name]
		if !ok {
			st = TagFailing
		}
		bit := map[TagState]query.TagConditionAccept{
			TagMatching:          query.TagConditionAcceptMatching,
			TagFailing:           query.TagConditionAcceptFailing,
			TagUncertainMatching: query.TagConditionAcceptUncertainMatching,
			TagUncertainFailing:  query.TagConditionAcceptUncertainFailing,
		}[st]
		return c.Accept&bit != 0, nil
	case *query.FlagCondition:
		v := uint16(0)
		for _, sq := range c.SubQueries {
			if sq != "" {
				return false, fmt.Errorf("sub-query in flag condition")
			}
			v ^= r.Proto
		}
		return (v^c.Value)&c.Mask != 0, nil
	case *query.HostCondition:
		size := len(r.CHost)
		if len(c.Host) != 0 && len(c.Host) != size {
			return c.Invert, nil
		}
		h := make([]byte, size)
		copy(h, c.Host)
		for _, s := range c.HostConditionSources {
			if s.SubQuery != "" {
				return false, fmt.Errorf("sub-query in host condition")
			}
			src := r.CHost
			if s.Type == query.HostConditionSourceTypeServer {
				src = r.SHost
			}
			for i := range h {
				h[i] ^= src[i]
			}
		}
		m := c.Mask4
		if size == 16 {
			m = c.Mask6
		}
		nonzero := false
		for i := range h {
			if h[i]&m[i] != 0 {
				nonzero = true
			}
		}
		return nonzero == c.Invert, nil
	case *query.NumberCondition:
		n := c.Number
		for _, s := range c.Summands {
			if s.SubQuery != "" {
				return false, fmt.Errorf("sub-query in number condition")
			}
			v := 0
			switch s.Type {
			case query.NumberConditionSummandTypeID:
				v = int(r.ID)
			case query.NumberConditionSummandTypeClientBytes:
				v = int(r.CBytes)
			case query.NumberConditionSummandTypeServerBytes:
				v = int(r.SBytes)
			case query.NumberConditionSummandTypeClientPort:
				v = int(r.CPort)
			case query.NumberConditionSummandTypeServerPort:
				v = int(r.SPort)
			}
			n += s.Factor * v
		}
		return n >= 0, nil
	case *query.TimeCondition:
		d := c.Duration
		for _, s := range c.Summands {
			if s.SubQuery != "" {
				return false, fmt.Errorf("sub-query in time condition")
			}
			d += time.Duration(s.FTimeFactor) * r.FTime.Sub(refTime)
			d += time.Duration(s.LTimeFactor) * r.LTime.Sub(refTime)
		}
		return d >= 0, nil
	case *query.DataCondition:
		seq := make([]SeqElem, len(c.Elements))
		for i, e := range c.Elements {
			if e.SubQuery != "" || len(e.Variables) != 0 {
				if v, ok := r.Opaque[OpaqueKey(e)]; ok && len(c.Elements) == 1 {
					return v != c.Inverted, nil
				}
				return false, fmt.Errorf("sub-query or variable in data condition")
			}
			seq[i] = SeqElem{Dir: int(e.Flags & query.DataRequirementSequenceFlagsDirection), Regex: e.Regex, Conv: e.ConverterName}
		}
		if !c.Inverted {
			return SeqMatches(r, seq, res), nil
		}
		// a > b > !c: the prefix matches and the whole sequence does not
		if len(seq) > 1 && !SeqMatches(r, seq[:len(seq)-1], res) {
			return false, nil
		}
		return !SeqMatches(r, seq, res), nil
	}
	return false, fmt.Errorf("unknown condition type %T", cc)
}

var _ = bytes.Equal
