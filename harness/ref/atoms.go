package ref

import (
	"bytes"
	"net"
	"strings"
	"time"
)

// T0 is the reference instant of the abstract universe (queries use absolute times only).
var T0 = time.Date(2020, 1, 1, 12, 0, 0, 0, time.UTC)

type Group struct {
	Name   string
	Values []func(r *Rec)
}

func ip(s string) net.IP {
	p := net.ParseIP(s)
	if v4 := p.To4(); v4 != nil {
		return v4
	}
	return p
}

var (
	hostsV4 = []net.IP{ip("10.0.0.1"), ip("10.0.0.2"), ip("10.0.1.1")}
	hostsV6 = []net.IP{ip("fe80::1"), ip("fe80::2")}
)

// DataVariants are the payload layouts of the abstract universe (raw representation).
var DataVariants = [][]Chunk{
	nil,
	{{DirC2S, []byte("a")}},
	{{DirS2C, []byte("a")}},
	{{DirC2S, []byte("b")}},
	{{DirC2S, []byte("a")}, {DirS2C, []byte("a")}},
	{{DirC2S, []byte("ab")}},
	{{DirC2S, []byte("ba")}},
	{{DirC2S, []byte("a")}, {DirC2S, []byte("b")}},
	{{DirC2S, []byte("b")}, {DirS2C, []byte("a")}, {DirC2S, []byte("a")}},
	{{DirS2C, []byte("a")}, {DirC2S, []byte("a")}},
	{{DirC2S, []byte("a")}, {DirS2C, []byte("b")}},
	{{DirC2S, []byte("a")}, {DirS2C, []byte("a")}, {DirC2S, []byte("b")}},
	{{DirS2C, []byte("b")}, {DirC2S, []byte("a")}, {DirS2C, []byte("a")}},
	{{DirC2S, []byte("aa")}, {DirS2C, []byte("bb")}},
	// longer conversations for THEN chains of 4-5 elements
	{{DirC2S, []byte("a")}, {DirS2C, []byte("a")}, {DirC2S, []byte("b")}, {DirS2C, []byte("b")}},
	{{DirC2S, []byte("a")}, {DirS2C, []byte("a")}, {DirC2S, []byte("b")}, {DirS2C, []byte("b")}, {DirC2S, []byte("a")}, {DirS2C, []byte("b")}},
	{{DirC2S, []byte("ab")}, {DirS2C, []byte("ab")}, {DirC2S, []byte("ba")}, {DirS2C, []byte("ba")}},
	{{DirC2S, []byte("aabb")}, {DirS2C, []byte("bbaa")}},
	{{DirS2C, []byte("b")}, {DirC2S, []byte("a")}, {DirC2S, []byte("a")}, {DirS2C, []byte("a")}, {DirC2S, []byte("b")}, {DirS2C, []byte("b")}, {DirC2S, []byte("b")}},
	{{DirC2S, []byte("abab")}, {DirS2C, []byte("abab")}, {DirC2S, []byte("abab")}},
	{{DirC2S, []byte("a")}, {DirC2S, []byte("b")}, {DirC2S, []byte("a")}, {DirC2S, []byte("b")}, {DirC2S, []byte("a")}},
}

func Groups() map[string]*Group {
	g := map[string]*Group{}
	add := func(name string, vals ...func(r *Rec)) { g[name] = &Group{Name: name, Values: vals} }
	var ids []func(*Rec)
	for i := uint64(0); i <= 4; i++ {
		i := i
		ids = append(ids, func(r *Rec) { r.ID = i })
	}
	add("id", ids...)
	var ports []func(*Rec)
	for _, c := range []uint16{79, 80, 81} {
		for _, s := range []uint16{79, 80, 81} {
			c, s := c, s
			ports = append(ports, func(r *Rec) { r.CPort, r.SPort = c, s })
		}
	}
	add("port", ports...)
	var bts []func(*Rec)
	for _, c := range []uint64{0, 1, 2} {
		for _, s := range []uint64{0, 1, 2} {
			c, s := c, s
			bts = append(bts, func(r *Rec) { r.CBytes, r.SBytes = c, s })
		}
	}
	add("bytes", bts...)
	// byteswide: a finer grid for the arithmetic family of number filters
	var btw []func(*Rec)
	for c := uint64(0); c <= 9; c++ {
		for sv := uint64(0); sv <= 9; sv++ {
			c, sv := c, sv
			btw = append(btw, func(r *Rec) { r.CBytes, r.SBytes = c, sv })
		}
	}
	add("byteswide", btw...)
	var hosts []func(*Rec)
	for _, fam := range [][]net.IP{hostsV4, hostsV6} {
		for _, c := range fam {
			for _, s := range fam {
				c, s := c, s
				hosts = append(hosts, func(r *Rec) { r.CHost, r.SHost = c, s })
			}
		}
	}
	add("host", hosts...)
	var protos []func(*Rec)
	for _, p := range []uint16{ProtoTCP, ProtoUDP, ProtoOther, ProtoSCTP} {
		p := p
		protos = append(protos, func(r *Rec) { r.Proto = p })
	}
	add("proto", protos...)
	var times []func(*Rec)
	ts := []time.Time{T0.Add(-time.Hour), T0, T0.Add(time.Second), T0.Add(2 * time.Hour), T0.Add(3 * time.Hour)}
	for _, f := range ts {
		for _, l := range ts {
			if l.Before(f) {
				continue
			}
			f, l := f, l
			times = append(times, func(r *Rec) { r.FTime, r.LTime = f, l })
		}
	}
	add("time", times...)
	// timewide: first/last packet times a few seconds and an hour apart, for time filters with field arithmetic
	var tw []func(*Rec)
	offs := []time.Duration{0, time.Second, 2 * time.Second, 3 * time.Second, 4 * time.Second, 5 * time.Second, 6 * time.Second, time.Hour, time.Hour + 5*time.Second}
	for i, fo := range offs {
		for _, lo := range offs[i:] {
			f, l := T0.Add(fo), T0.Add(lo)
			tw = append(tw, func(r *Rec) { r.FTime, r.LTime = f, l })
		}
	}
	add("timewide", tw...)
	for _, t := range []string{"tag/a", "tag/b", "mark/m", "service/s", "generated/g"} {
		var v []func(*Rec)
		for _, st := range []TagState{TagMatching, TagFailing, TagUncertainMatching, TagUncertainFailing} {
			t, st := t, st
			v = append(v, func(r *Rec) { r.Tags[t] = st })
		}
		add(t, v...)
	}
	var data, dataLong []func(*Rec)
	for i, d := range DataVariants {
		d := d
		if i < 14 {
			data = append(data, func(r *Rec) { r.Reps[""] = d })
		}
		dataLong = append(dataLong, func(r *Rec) { r.Reps[""] = d })
	}
	add("data", data...)
	// datalong adds the longer conversations needed by THEN chains of 4-5 elements
	add("datalong", dataLong...)
	return g
}

func DefaultRec() *Rec {
	return &Rec{ID: 0, CPort: 80, SPort: 80, CBytes: 1, SBytes: 1, CHost: hostsV4[0], SHost: hostsV4[1], Proto: ProtoTCP,
		FTime: T0, LTime: T0, Tags: map[string]TagState{}, Reps: map[string][]Chunk{"": nil}}
}

// Universe returns every record obtained by varying the given groups over all their values.
func Universe(groups map[string]*Group, names []string) []*Rec {
	recs := []*Rec{DefaultRec()}
	for _, n := range names {
		g := groups[n]
		var next []*Rec
		for _, r := range recs {
			for _, set := range g.Values {
				c := r.Clone()
				set(c)
				next = append(next, c)
			}
		}
		recs = next
	}
	return recs
}

type AtomDef struct {
	*Atom
	Groups []string
	Core   bool // member of the reduced alphabet used for the deepest trees
	Mini   bool // member of the smallest alphabet
	W, C   int  // the atom expands to W disjuncts of C conditions each (cost model for negation)
}

func maskEq(a, b net.IP, first, last int) bool {
	if len(a) != len(b) {
		return false
	}
	for i := 0; i < len(a)*8; i++ {
		inMask := false
		if first < 0 && last < 0 {
			inMask = true
		}
		if first >= 0 && i < first {
			inMask = true
		}
		if last >= 0 && i >= len(a)*8-last {
			inMask = true
		}
		if !inMask {
			continue
		}
		if (a[i/8]^b[i/8])&(1<<(7-uint(i%8))) != 0 {
			return false
		}
	}
	return true
}

func tagIs(name string) func(r *Rec) bool {
	return func(r *Rec) bool {
		st, ok := r.Tags[name]
		return ok && (st == TagMatching || st == TagUncertainMatching)
	}
}

func between(t time.Time, lo, hi *time.Time) bool {
	if lo != nil && t.Before(*lo) {
		return false
	}
	if hi != nil && t.After(*hi) {
		return false
	}
	return true
}

// Alphabet returns the atom alphabet of C02/C03, simplest first.
func Alphabet() []AtomDef {
	var out []AtomDef
	add := func(core bool, text string, groups []string, eval func(r *Rec) bool) {
		out = append(out, AtomDef{Atom: &Atom{Text: text, Eval: eval}, Groups: groups, Core: core})
	}
	addData := func(core bool, text string, alts ...SeqElem) {
		out = append(out, AtomDef{Atom: &Atom{Text: text, Data: alts}, Groups: []string{"data"}, Core: core})
	}
	G := func(s ...string) []string { return s }
	// ids
	add(true, "id:1", G("id"), func(r *Rec) bool { return r.ID == 1 })
	add(false, "id:2", G("id"), func(r *Rec) bool { return r.ID == 2 })
	add(true, "id:1,3", G("id"), func(r *Rec) bool { return r.ID == 1 || r.ID == 3 })
	add(false, "id:1:3", G("id"), func(r *Rec) bool { return r.ID >= 1 && r.ID <= 3 })
	add(true, "id:2:", G("id"), func(r *Rec) bool { return r.ID >= 2 })
	add(false, "id::1", G("id"), func(r *Rec) bool { return r.ID <= 1 })
	add(false, "id:0", G("id"), func(r *Rec) bool { return r.ID == 0 })
	// ports
	add(true, "cport:80", G("port"), func(r *Rec) bool { return r.CPort == 80 })
	add(false, "sport:80", G("port"), func(r *Rec) bool { return r.SPort == 80 })
	add(true, "port:80", G("port"), func(r *Rec) bool { return r.CPort == 80 || r.SPort == 80 })
	add(false, "cport:80:81", G("port"), func(r *Rec) bool { return r.CPort >= 80 && r.CPort <= 81 })
	add(false, "sport::80", G("port"), func(r *Rec) bool { return r.SPort <= 80 })
	add(true, "cport:@sport@", G("port"), func(r *Rec) bool { return r.CPort == r.SPort })
	add(false, "cport:@sport@+1", G("port"), func(r *Rec) bool { return r.CPort == r.SPort+1 })
	add(false, "port:79,81", G("port"), func(r *Rec) bool { return r.CPort == 79 || r.CPort == 81 || r.SPort == 79 || r.SPort == 81 })
	add(false, "cport:@sport@:", G("port"), func(r *Rec) bool { return r.CPort >= r.SPort })
	// bytes
	add(true, "cbytes:0", G("bytes"), func(r *Rec) bool { return r.CBytes == 0 })
	add(false, "sbytes:1:", G("bytes"), func(r *Rec) bool { return r.SBytes >= 1 })
	add(false, "bytes:2", G("bytes"), func(r *Rec) bool { return r.CBytes == 2 || r.SBytes == 2 })
	add(true, "cbytes:@sbytes@", G("bytes"), func(r *Rec) bool { return r.CBytes == r.SBytes })
	add(false, "cbytes:@sbytes@+@sbytes@", G("bytes"), func(r *Rec) bool { return r.CBytes == 2*r.SBytes })
	add(false, "cbytes:1:2", G("bytes"), func(r *Rec) bool { return r.CBytes >= 1 && r.CBytes <= 2 })
	add(false, "sbytes:@cbytes@+@cbytes@+1:", G("bytes"), func(r *Rec) bool { return r.SBytes >= 2*r.CBytes+1 })
	// hosts
	add(true, "chost:10.0.0.1", G("host"), func(r *Rec) bool { return r.CHost.Equal(hostsV4[0]) })
	add(false, "shost:10.0.0.2", G("host"), func(r *Rec) bool { return r.SHost.Equal(hostsV4[1]) })
	add(true, "host:10.0.0.1", G("host"), func(r *Rec) bool { return r.CHost.Equal(hostsV4[0]) || r.SHost.Equal(hostsV4[0]) })
	add(false, "chost:10.0.0.0/24", G("host"), func(r *Rec) bool { return maskEq(r.CHost, ip("10.0.0.0"), 24, -1) })
	add(true, "chost:@shost@", G("host"), func(r *Rec) bool { return bytes.Equal(r.CHost, r.SHost) })
	add(false, "chost:fe80::1", G("host"), func(r *Rec) bool { return bytes.Equal(r.CHost, hostsV6[0]) })
	add(false, "shost:10.0.0.1,10.0.1.1", G("host"), func(r *Rec) bool { return bytes.Equal(r.SHost, hostsV4[0]) || bytes.Equal(r.SHost, hostsV4[2]) })
	add(false, "host:0.0.0.1/-8", G("host"), func(r *Rec) bool {
		return maskEq(r.CHost, ip("0.0.0.1"), -1, 8) || maskEq(r.SHost, ip("0.0.0.1"), -1, 8)
	})
	add(false, "chost:@shost@/24", G("host"), func(r *Rec) bool { return maskEq(r.CHost, r.SHost, 24, -1) })
	// value lists that mix the address families (no explicit mask)
	add(false, "chost:10.0.0.1,fe80::1", G("host"), func(r *Rec) bool { return bytes.Equal(r.CHost, hostsV4[0]) || bytes.Equal(r.CHost, hostsV6[0]) })
	add(false, "host:fe80::2,10.0.0.2", G("host"), func(r *Rec) bool {
		return bytes.Equal(r.CHost, hostsV6[1]) || bytes.Equal(r.SHost, hostsV6[1]) || bytes.Equal(r.CHost, hostsV4[1]) || bytes.Equal(r.SHost, hostsV4[1])
	})
	// protocol
	add(true, "protocol:tcp", G("proto"), func(r *Rec) bool { return r.Proto == ProtoTCP })
	add(false, "protocol:udp", G("proto"), func(r *Rec) bool { return r.Proto == ProtoUDP })
	add(false, "protocol:tcp,udp", G("proto"), func(r *Rec) bool { return r.Proto == ProtoTCP || r.Proto == ProtoUDP })
	add(false, "protocol:other", G("proto"), func(r *Rec) bool { return r.Proto == ProtoOther })
	// time
	t1200, t1300 := T0, T0.Add(time.Hour)
	add(true, `ftime:"2020-01-01 1200:"`, G("time"), func(r *Rec) bool { return between(r.FTime, &t1200, nil) })
	add(false, `ltime:":2020-01-01 1300"`, G("time"), func(r *Rec) bool { return between(r.LTime, nil, &t1300) })
	add(true, `time:"2020-01-01 1200:2020-01-01 1300"`, G("time"), func(r *Rec) bool { return !r.LTime.Before(t1200) && !r.FTime.After(t1300) })
	add(false, `ltime:"@ftime@+5m:"`, G("time"), func(r *Rec) bool { return !r.LTime.Before(r.FTime.Add(5 * time.Minute)) })
	add(false, `ftime:"2020-01-01 1200"`, G("time"), func(r *Rec) bool { return r.FTime.Equal(t1200) })
	add(false, `ftime:"2020-01-01 120000:2020-01-01 120001"`, G("time"), func(r *Rec) bool { x := t1200.Add(time.Second); return between(r.FTime, &t1200, &x) })
	t1430 := T0.Add(150 * time.Minute)
	add(false, `ltime:"2020-01-01 1430:"`, G("time"), func(r *Rec) bool { return between(r.LTime, &t1430, nil) })
	add(false, `ltime:":2020-01-01 1430"`, G("time"), func(r *Rec) bool { return between(r.LTime, nil, &t1430) })
	add(false, `ftime:":2020-01-01 1130"`, G("time"), func(r *Rec) bool { x := T0.Add(-30 * time.Minute); return between(r.FTime, nil, &x) })
	// tags
	add(true, "tag:a", G("tag/a"), tagIs("tag/a"))
	add(false, "tag:b", G("tag/b"), tagIs("tag/b"))
	add(false, "tag:a,b", G("tag/a", "tag/b"), func(r *Rec) bool { return tagIs("tag/a")(r) || tagIs("tag/b")(r) })
	add(false, "mark:m", G("mark/m"), tagIs("mark/m"))
	add(false, "service:s", G("service/s"), tagIs("service/s"))
	add(false, "generated:g", G("generated/g"), tagIs("generated/g"))
	// data
	addData(true, "cdata:a", SeqElem{DirC2S, "a", ""})
	addData(true, "sdata:a", SeqElem{DirS2C, "a", ""})
	addData(false, "data:a", SeqElem{DirC2S, "a", ""}, SeqElem{DirS2C, "a", ""})
	addData(true, "cdata:b", SeqElem{DirC2S, "b", ""})
	addData(false, "sdata:b", SeqElem{DirS2C, "b", ""})
	addData(false, "cdata:ab", SeqElem{DirC2S, "ab", ""})
	addData(false, `cdata:"a.*b"`, SeqElem{DirC2S, "a.*b", ""})
	addData(false, "cdata.none:a", SeqElem{DirC2S, "a", "none"})
	mini := map[string]bool{"id:1": true, "id:2:": true, "cport:80": true, "chost:@shost@": true, "protocol:tcp": true, "tag:a": true, "cdata:a": true, "sdata:a": true, "cdata:b": true, `ftime:"2020-01-01 1200:"`: true}
	for i := range out {
		a := &out[i]
		a.W, a.C = atomShape(a.Text)
		a.Mini = mini[a.Text]
	}
	return out
}

// atomShape estimates into how many disjuncts of how many conditions an atom translates; used
// only to keep trees whose negation is exponential by construction out of C03 (they are C14's).
// AtomShape is atomShape for other drivers.
func AtomShape(text string) (w, c int) { return atomShape(text) }

func atomShape(text string) (w, c int) {
	key := text[:strings.IndexAny(text, ":.")]
	val := text[strings.IndexByte(text, ':')+1:]
	w = strings.Count(val, ",") + 1
	c = 1
	switch key {
	case "port", "bytes", "host", "data":
		w *= 2
	}
	switch key {
	case "id", "cport", "sport", "port", "cbytes", "sbytes", "bytes", "ftime", "ltime", "time":
		c = 2
	case "protocol":
		c = 9 // flag conditions negate into 3 conditions each and are slow to clean
	}
	return
}
