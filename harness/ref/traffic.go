// Traffic generator with ground truth for the pcap importer checks (C05, C08).
//
// A ConvSet is a small set of well-formed conversations (handshake-complete TCP connections and
// UDP flows over IPv4/IPv6).  A Case selects a set, a list of local deviations of the default
// rendering (split / overlap / swap / retransmit / timestamp tie), an interleaving of the flows, a
// link type and a cut of the resulting packet sequence into capture files.  Build renders the
// case into concrete packets (correct sequence/ack numbers, checksums, strictly increasing
// timestamps from a fixed base) together with the ground truth: who talked to whom, which bytes
// were exchanged per direction and in which order, and which (file, packet index) belongs to
// which conversation.
//
// Nothing here looks at the implementation under test.
package ref

import (
	"bytes"
	"fmt"
	"net"
	"os"
	"path/filepath"
	"sort"
	"strconv"
	"strings"
	"time"

	"github.com/gopacket/gopacket"
	"github.com/gopacket/gopacket/layers"
	"github.com/gopacket/gopacket/pcapgo"
)

const (
	C2S = 0 // from the initiator
	S2C = 1
)

// TrafficBase is the timestamp of the first packet of every capture.
var TrafficBase = time.Date(2020, 1, 1, 0, 0, 0, 0, time.UTC)

type Msg struct {
	Dir  int
	Data string
	Gap  time.Duration // idle time before this message is sent
}

// ConvSpec describes one conversation as the endpoints experienced it.
type ConvSpec struct {
	Name       string
	Proto      string // "TCP" | "UDP"
	CIP, SIP   string
	CPort      uint16
	SPort      uint16
	Msgs       []Msg
	Close      string // "" (still open) | "fin-c" | "fin-s" | "rst-c" | "rst-s"
	AckEach    bool   // the receiver acknowledges every data segment with an empty ACK
	CISN, SISN uint32
	GapBefore  time.Duration // idle time before the first packet (only with interleaving "seq")
	Frag       int           // >0: every packet with payload travels as two IPv4 fragments, the second starting at byte 8*Frag of the IP payload
}

type ConvSet struct {
	Name        string
	Convs       []ConvSpec
	Interleaves []string      // permitted interleavings, first is the default
	Step        time.Duration // time between consecutive packets, default 3ms
	Huge        bool          // contains a filler flow; deviations are not enumerated on it
}

// Pkt is one rendered packet.
type Pkt struct {
	Conv                    int
	Dir                     int // relative to the spec's client
	UDP                     bool
	SYN, ACK, FIN, RST, PSH bool
	Seq, AckN               uint32
	Payload                 []byte
	Retx                    bool          // an inserted duplicate
	Probe                   bool          // a keep-alive probe (deviation ka): one garbage byte at the sequence number of the last byte sent
	Tie                     bool          // same timestamp as the previous packet of the capture
	Gap                     time.Duration // idle time before this packet
	V6                      bool
	// ExtHdr: an IPv6 packet that carries a hop-by-hop options header (eight bytes of padding options) between the
	// IPv6 header and the transport header
	ExtHdr bool
	// IPv4 fragmentation: the packet is one of the two fragments (1 = first, 2 = last) of the
	// datagram described by the other fields; FragOff is the offset of the last fragment in 8-byte units
	FragPart, FragOff int
	FragID            uint16
	// Noise: not a packet of a conversation (Conv is -1) but a frame that carries no stream
	Noise string
	// layout
	TS    time.Time
	File  int
	Index int
}

func (p *Pkt) closing() bool { return p.FIN || p.RST }
func (p *Pkt) handshake() bool {
	return p.SYN
}

func (p *Pkt) String() string {
	if p.Noise != "" {
		return "noise " + p.Noise
	}
	if p.ExtHdr {
		q := *p
		q.ExtHdr = false
		return q.String() + " +hop-by-hop"
	}
	if p.FragPart != 0 {
		q := *p
		q.FragPart = 0
		return fmt.Sprintf("%s frag%d/2@%d", q.String(), p.FragPart, p.FragOff*8)
	}
	if p.UDP {
		return fmt.Sprintf("c%d %s udp %q", p.Conv, dirName(p.Dir), p.Payload)
	}
	fl := ""
	for _, f := range []struct {
		b bool
		n string
	}{{p.SYN, "S"}, {p.FIN, "F"}, {p.RST, "R"}, {p.PSH, "P"}, {p.ACK, "."}} {
		if f.b {
			fl += f.n
		}
	}
	return fmt.Sprintf("c%d %s [%s] seq=%d ack=%d %q", p.Conv, dirName(p.Dir), fl, p.Seq, p.AckN, p.Payload)
}

func dirName(d int) string {
	if d == C2S {
		return ">"
	}
	return "<"
}

// Dev is one local deviation from the default rendering.
//
//	split  conv I P      data packet I of the conversation is sent as two segments [0,P) [P,len)
//	ovl    conv I P      ... as two segments [0,P) [P-1,len) (one byte sent twice)
//	swap   conv I        packets I and I+1 of the conversation exchange their capture positions
//	retx   conv I P Mode a copy (full | head | tail half) of data packet I follows packet P (P>=I)
//	exthdr conv I        IPv6 packet I carries a hop-by-hop options header in front of its transport header
//	ka     conv I        a keep-alive probe (one garbage byte at the sequence number of the last byte sent) follows data packet I
//	dup    conv I P      an exact copy of the SYN, SYN-ACK or FIN segment I follows packet P (P = I or I+1)
//	tie    -    I        packet I+1 of the whole capture carries the same timestamp as packet I
//	frag   conv I P Mode IPv4 packet I (with payload) travels as two IP fragments, the second starting at
//	                     byte 8*P of the IP payload (transport header included); Mode "rev": the last
//	                     fragment is captured first
type Dev struct {
	Kind string `json:"k"`
	Conv int    `json:"c"`
	I    int    `json:"i"`
	P    int    `json:"p,omitempty"`
	Mode string `json:"m,omitempty"`
}

func (d Dev) String() string {
	switch d.Kind {
	case "split", "ovl":
		return fmt.Sprintf("%s(c%d.%d@%d)", d.Kind, d.Conv, d.I, d.P)
	case "swap":
		return fmt.Sprintf("swap(c%d.%d)", d.Conv, d.I)
	case "retx":
		return fmt.Sprintf("retx(c%d.%d>%d,%s)", d.Conv, d.I, d.P, d.Mode)
	case "tie":
		return fmt.Sprintf("tie(%d)", d.I)
	case "exthdr":
		return fmt.Sprintf("exthdr(c%d.%d)", d.Conv, d.I)
	case "ka":
		return fmt.Sprintf("ka(c%d.%d)", d.Conv, d.I)
	case "dup":
		return fmt.Sprintf("dup(c%d.%d>%d)", d.Conv, d.I, d.P)
	case "frag":
		return fmt.Sprintf("frag(c%d.%d@%d%s)", d.Conv, d.I, d.P*8, d.Mode)
	}
	return "?" + d.Kind
}

// Case is everything needed to regenerate a capture.
type Case struct {
	Set        string `json:"set"`
	Devs       []Dev  `json:"devs"`
	Interleave string `json:"il"`
	Link       string `json:"link"` // "eth" | "raw" | "vlan" (802.1Q tag) | "qinq" (two stacked tags)
	Cuts       []int  `json:"cuts"` // packet positions at which a new capture file starts
	// Assign (instead of Cuts): "ovl:<k>" - two sensors with overlapping captures: of the first k
	// packets the even ones go to file 0 and the odd ones to file 1, the rest to file 2;
	// "ovlp:<k>" the same in pairs (0,0,1,1,...)
	Assign string `json:"assign,omitempty"`
	// Noise: frames that carry no stream, "<kind>@<pos>" separated by commas: a frame of that kind (arp | lldp |
	// icmp | v4junk | udpjunk | tcpoff) is captured directly in front of packet <pos> of the capture (cut positions keep
	// addressing the packets of the conversations; the frame lands in the file of the packet behind it and takes
	// an index of its own there).  Only with link "eth".
	Noise string `json:"noise,omitempty"`
	// Unsorted: "rev:<file>" - the packets of that capture file are written in the reverse of their time order
	// (a file merged from several capture points, a clock that stepped back); what the endpoints exchanged and
	// when is unchanged, only the positions inside the file are
	Unsorted string `json:"unsorted,omitempty"`
}

func (c Case) Key() string {
	ds := make([]string, len(c.Devs))
	for i, d := range c.Devs {
		ds[i] = d.String()
	}
	k := fmt.Sprintf("%s devs=[%s] il=%s link=%s cuts=%v", c.Set, strings.Join(ds, " "), c.Interleave, c.Link, c.Cuts)
	if c.Assign != "" {
		k += " assign=" + c.Assign
	}
	if c.Noise != "" {
		k += " noise=" + c.Noise
	}
	if c.Unsorted != "" {
		k += " unsorted=" + c.Unsorted
	}
	return k
}

type PktRef struct {
	File  string
	Index int
}

func (r PktRef) String() string { return fmt.Sprintf("%s:%d", r.File, r.Index) }

type Run struct {
	Dir  int
	Data []byte
}

type TruthPkt struct {
	Ref     PktRef
	Dir     int // relative to the true client
	Payload bool
}

// Truth is what the endpoints of one conversation exchanged.
type Truth struct {
	Conv         int
	Name         string
	Proto        string
	ClientIP     string
	ServerIP     string
	ClientPort   uint16
	ServerPort   uint16
	Bytes        [2][]byte
	Runs         []Run
	OrderClaimed bool // false: capture order differs from wire order across a direction change
	Packets      []TruthPkt
}

// Capture is a rendered case.
type Capture struct {
	Case    Case
	Set     *ConvSet
	Packets []*Pkt
	Files   []string
	Truth   []*Truth
	owner   map[PktRef]int
}

// MaxSilence is the longest time one conversation stays silent from the importer's point of view: the time between
// two consecutive packets of the conversation in capture order, where a datagram that travels in two fragments
// counts at the time its later fragment is captured (the earlier fragment alone is nothing the importer can
// attribute to a flow).
func (c *Capture) MaxSilence() time.Duration {
	last := map[int]time.Time{}
	seenFrag := map[[2]int]bool{}
	var max time.Duration
	for _, p := range c.Packets {
		if p.Conv < 0 {
			continue
		}
		if p.FragPart != 0 {
			k := [2]int{p.Conv, int(p.FragID)}
			if !seenFrag[k] {
				seenFrag[k] = true
				continue
			}
		}
		if t, ok := last[p.Conv]; ok {
			if d := p.TS.Sub(t); d > max {
				max = d
			}
		}
		last[p.Conv] = p.TS
	}
	return max
}

// ProbeBeforeData: a further deviation moved a keep-alive probe in front of (part of) the data whose last byte it
// repeats with a garbage value.  A probe is only ever sent for a byte the peer has acknowledged; captured ahead of
// that byte it is a segment that CONTRADICTS the data, and which of two contradicting copies of a byte a monitor
// keeps is its policy, not something the endpoints' conversation defines.
func (c *Capture) ProbeBeforeData() bool {
	// a sender probes only when everything it sent was acknowledged: at the probe, the bytes captured so far must
	// cover the direction's sequence space without a hole up to and including the byte the probe repeats
	type key struct{ conv, dir int }
	type seg struct{ from, to uint32 }
	segs := map[key][]seg{}
	for _, p := range c.Packets {
		if p.Conv < 0 || p.UDP || p.FragPart > 1 {
			continue
		}
		k := key{p.Conv, p.Dir}
		if p.Probe {
			l := segs[k]
			if len(l) == 0 {
				return true
			}
			// contiguous end, starting at the lowest sequence number captured
			lo := l[0].from
			for _, x := range l {
				if int32(x.from-lo) < 0 {
					lo = x.from
				}
			}
			end := lo
			for grown := true; grown; {
				grown = false
				for _, x := range l {
					if int32(x.from-end) <= 0 && int32(x.to-end) > 0 {
						end, grown = x.to, true
					}
				}
			}
			if int32(p.Seq+1-end) > 0 {
				return true
			}
			continue
		}
		n := uint32(len(p.Payload))
		if p.SYN || p.FIN {
			n++
		}
		if n != 0 {
			segs[k] = append(segs[k], seg{p.Seq, p.Seq + n})
		}
	}
	return false
}

// SplitDatagrams counts the fragmented datagrams whose two fragments lie in different capture files.
func (c *Capture) SplitDatagrams() int {
	file := map[[2]int]int{}
	n := 0
	for _, p := range c.Packets {
		if p.FragPart == 0 {
			continue
		}
		k := [2]int{p.Conv, int(p.FragID)}
		if f, ok := file[k]; ok {
			if f != p.File {
				n++
			}
		} else {
			file[k] = p.File
		}
	}
	return n
}

// SplitPairs lists, for every fragmented datagram whose two fragments lie in different capture files, the file
// of the fragment captured first and the file of the fragment captured second.
func (c *Capture) SplitPairs() [][2]int {
	file := map[[2]int]int{}
	var out [][2]int
	for _, p := range c.Packets {
		if p.FragPart == 0 {
			continue
		}
		k := [2]int{p.Conv, int(p.FragID)}
		if f, ok := file[k]; ok {
			if f != p.File {
				out = append(out, [2]int{f, p.File})
			}
		} else {
			file[k] = p.File
		}
	}
	return out
}

func (c *Capture) Owner(r PktRef) (int, bool) {
	i, ok := c.owner[r]
	return i, ok
}

// ---------------------------------------------------------------------------------------------
// menu of conversation sets

func tcp(name, cip string, cport uint16, sip string, sport uint16, cisn, sisn uint32, cl string, msgs ...Msg) ConvSpec {
	return ConvSpec{Name: name, Proto: "TCP", CIP: cip, CPort: cport, SIP: sip, SPort: sport, CISN: cisn, SISN: sisn, Close: cl, Msgs: msgs}
}

func udp(name, cip string, cport uint16, sip string, sport uint16, msgs ...Msg) ConvSpec {
	return ConvSpec{Name: name, Proto: "UDP", CIP: cip, CPort: cport, SIP: sip, SPort: sport, Msgs: msgs}
}

func cm(s string) Msg { return Msg{Dir: C2S, Data: s} }
func sm(s string) Msg { return Msg{Dir: S2C, Data: s} }

var single = []string{"seq"}
var multi = []string{"rr", "seq", "rr-rev", "seq-rev"}

// FillerConns short, properly closed TCP connections (9 packets each) are the filler of the
// snapshot sets: the importer writes a reassembly snapshot after 100000 processed packets.
const FillerConns = 11_120

func withFiller(interesting ...ConvSpec) []ConvSpec {
	out := append([]ConvSpec{}, interesting...)
	for i := 0; i < FillerConns; i++ {
		out = append(out, tcp(fmt.Sprintf("fill%d", i), fmt.Sprintf("10.9.%d.%d", i/250, i%250+1), uint16(20000+i), "10.8.0.1", 9000,
			uint32(1000+i), uint32(5000+i), "fin-c", cm("q"), sm("r")))
	}
	return out
}

var trafficSets = []*ConvSet{
	{Name: "tcp4", Interleaves: single, Convs: []ConvSpec{
		tcp("t", "10.0.0.1", 40000, "10.0.0.2", 80, 1000, 5000, "fin-c", cm("GET"), sm("resp"), cm("ok")),
	}},
	{Name: "tcp4-srvfirst", Interleaves: single, Convs: []ConvSpec{
		tcp("t", "10.0.0.1", 40010, "10.0.0.2", 25, 77, 0x7fffffff, "fin-s", sm("220"), cm("HELO"), sm("250")),
	}},
	{Name: "tcp6", Interleaves: single, Convs: []ConvSpec{
		// client sequence numbers wrap around inside the first message, connection stays open
		tcp("t", "fd00::1", 40020, "fd00::2", 443, 0xfffffffd, 0xffffffff, "", cm("hello"), sm("wor"), cm("ld")),
	}},
	// single-byte segments in a row (an interactive session)
	{Name: "tcp-tiny", Interleaves: single, Convs: []ConvSpec{
		tcp("t", "10.0.0.1", 40030, "10.0.0.2", 23, 7000, 9000, "fin-c", cm("l"), cm("s"), cm("\n"), sm("a"), sm("b"), cm("q")),
	}},
	{Name: "udp4", Interleaves: single, Convs: []ConvSpec{
		udp("u", "10.0.1.1", 5353, "10.0.1.2", 53, cm("qry"), sm("answ"), cm("q2")),
	}},
	// a flow that is opened by a datagram without payload (hole punching, an "are you there" probe), the first payload
	// coming from the other side; and a flow that never carries payload at all
	{Name: "udp-empty-first", Interleaves: single, Convs: []ConvSpec{
		udp("e", "10.0.8.1", 40123, "10.0.8.2", 9999, cm(""), sm("banner"), cm("req"), sm("")),
	}},
	{Name: "udp-empty-only", Interleaves: single, Convs: []ConvSpec{
		udp("e", "10.0.8.1", 40124, "10.0.8.2", 9999, cm(""), sm(""), cm("")),
		udp("f", "10.0.8.1", 40125, "10.0.8.2", 9999, cm("x"), sm("y")),
	}},
	// a flow that goes on alone for a while (a capture that only continues it holds no new conversation and not the
	// highest id) before a third flow starts
	{Name: "udp-late-starter", Interleaves: []string{"ord:0,1,0,2,0"}, Convs: []ConvSpec{
		udp("a", "10.0.9.1", 41000, "10.0.9.2", 53, cm("a0"), sm("A1"), cm("a2")),
		udp("b", "10.0.9.3", 41001, "10.0.9.2", 53, cm("b0")),
		udp("c", "10.0.9.4", 41002, "10.0.9.2", 53, cm("c0")),
	}},
	{Name: "udp6", Interleaves: single, Convs: []ConvSpec{
		udp("u", "fd00::11", 123, "fd00::12", 123, cm("ab"), cm("cde"), sm("f")),
	}},
	{Name: "tcp4x2", Interleaves: multi, Convs: []ConvSpec{
		tcp("a", "10.0.0.1", 40000, "10.0.0.2", 80, 100, 900, "fin-c", cm("AAA"), sm("aa")),
		tcp("b", "10.0.0.3", 40001, "10.0.0.2", 80, 300, 700, "", cm("BB"), sm("bbb")),
	}},
	{Name: "tcp+udp", Interleaves: multi, Convs: []ConvSpec{
		tcp("t", "10.0.0.1", 5000, "10.0.0.2", 53, 10, 20, "fin-s", cm("TQ"), sm("TAA")),
		udp("u", "10.0.0.1", 5000, "10.0.0.2", 53, cm("UQ"), sm("UAA")),
	}},
	{Name: "tcp4-acks", Interleaves: single, Convs: []ConvSpec{
		{Name: "t", Proto: "TCP", CIP: "10.0.0.1", CPort: 40030, SIP: "10.0.0.2", SPort: 8080, CISN: 1, SISN: 2, Close: "fin-c", AckEach: true,
			Msgs: []Msg{cm("ab"), sm("cd"), cm("ef")}},
	}},
	{Name: "tcp4-rst", Interleaves: single, Convs: []ConvSpec{
		tcp("t", "10.0.0.1", 40040, "10.0.0.2", 22, 4000, 8000, "rst-c", cm("SSH"), sm("nope")),
	}},
	{Name: "collide", Interleaves: multi, Convs: []ConvSpec{
		// same ports with the hosts' roles swapped, and the same port pair from a third host
		udp("a", "10.0.2.1", 1000, "10.0.2.2", 2000, cm("a1"), sm("A2")),
		udp("b", "10.0.2.2", 1000, "10.0.2.1", 2000, cm("b1"), sm("B2")),
		udp("c", "10.0.2.3", 1000, "10.0.2.2", 2000, cm("c1"), sm("C2")),
	}},
	{Name: "collide-tcp", Interleaves: multi, Convs: []ConvSpec{
		tcp("a", "10.0.3.1", 1000, "10.0.3.2", 2000, 50, 60, "", cm("a1"), sm("A2")),
		tcp("b", "10.0.3.2", 1000, "10.0.3.1", 2000, 70, 80, "fin-c", cm("b1"), sm("B2")),
	}},
	{Name: "reuse-slow", Interleaves: single, Convs: []ConvSpec{
		// the same 4-tuple used by two consecutive connections, six idle minutes apart
		tcp("first", "10.0.4.1", 41000, "10.0.4.2", 80, 1000, 2000, "fin-c", cm("one"), sm("ONE")),
		func() ConvSpec {
			c := tcp("second", "10.0.4.1", 41000, "10.0.4.2", 80, 90000, 70000, "fin-c", cm("two"), sm("TWO"))
			c.GapBefore = 6 * time.Minute
			return c
		}(),
	}},
	{Name: "reuse-fast", Interleaves: single, Convs: []ConvSpec{
		// the same 4-tuple reused 90 s after a clean close (beyond TIME_WAIT of common stacks)
		tcp("first", "10.0.4.1", 41001, "10.0.4.2", 80, 1000, 2000, "fin-c", cm("one"), sm("ONE")),
		func() ConvSpec {
			c := tcp("second", "10.0.4.1", 41001, "10.0.4.2", 80, 90000, 70000, "fin-c", cm("two"), sm("TWO"))
			c.GapBefore = 90 * time.Second
			return c
		}(),
	}},
	{Name: "reuse-udp", Interleaves: single, Convs: []ConvSpec{
		udp("first", "10.0.4.1", 41000, "10.0.4.2", 53, cm("one"), sm("ONE")),
		func() ConvSpec {
			c := udp("second", "10.0.4.1", 41000, "10.0.4.2", 53, cm("two"), sm("TWO"))
			c.GapBefore = 6 * time.Minute
			return c
		}(),
	}},
	// idle periods of four minutes inside one conversation (the importer's inactivity timeout is five)
	{Name: "udp-idle", Interleaves: single, Convs: []ConvSpec{
		udp("u", "10.0.5.1", 6000, "10.0.5.2", 161, cm("one"), Msg{S2C, "TWO", 4 * time.Minute}, Msg{C2S, "three", 4 * time.Minute}),
	}},
	{Name: "tcp-idle", Interleaves: single, Convs: []ConvSpec{
		tcp("t", "10.0.5.1", 42000, "10.0.5.2", 22, 123456, 654321, "fin-c", cm("one"), Msg{S2C, "TWO", 4 * time.Minute}, Msg{C2S, "three", 4 * time.Minute}),
	}},
	// three UDP flows between the same hosts whose port pairs have the same XOR (one bucket of the UDP
	// flow table): two of them fall idle and expire while the first stays active and goes on
	{Name: "udp-bucket-expiry", Interleaves: []string{"rr", "seq-rev"}, Convs: []ConvSpec{
		udp("a", "10.0.6.1", 40000, "10.0.6.2", 53, cm("a0"), Msg{S2C, "A1", 2 * time.Minute}, Msg{C2S, "a2", 2 * time.Minute}, Msg{S2C, "A3", 2 * time.Minute}, Msg{C2S, "a4", 2 * time.Minute}, Msg{S2C, "A5", 2 * time.Minute}),
		udp("b", "10.0.6.1", 40001, "10.0.6.2", 52, cm("b0"), sm("B1")),
		udp("c", "10.0.6.1", 40002, "10.0.6.2", 55, cm("c0")),
	}},
	// flows that start at different times and fall idle one after the other: when the oldest one expires the others
	// are still alive with different ages; the port pair of the second one is then used again (in the other
	// direction) five and a half minutes after its last datagram - that is a new flow although younger flows
	// are still open
	{Name: "udp-staggered-expiry", Interleaves: single, Convs: []ConvSpec{
		udp("a", "10.0.10.1", 4000, "10.0.10.2", 4001, cm("a0"), Msg{S2C, "A1", time.Second}),
		udp("b", "10.0.10.3", 5000, "10.0.10.4", 6000, Msg{C2S, "b0", 2 * time.Minute}),
		udp("c", "10.0.10.5", 5001, "10.0.10.6", 6001, Msg{C2S, "c0", 2 * time.Minute}),
		udp("d", "10.0.10.7", 5002, "10.0.10.8", 6002, Msg{C2S, "d0", 90 * time.Second}),
		udp("e", "10.0.10.4", 6000, "10.0.10.3", 5000, Msg{C2S, "e0", 2 * time.Minute}),
	}},
	// every datagram / data segment travels as two IPv4 fragments (cut behind the first 8 bytes of UDP data,
	// behind the first 4 bytes of TCP data); deviations then reorder and interleave the fragments
	{Name: "udp4-frags", Interleaves: single, Convs: []ConvSpec{
		func() ConvSpec {
			c := udp("u", "10.0.7.1", 7000, "10.0.7.2", 7001, cm("0123456789abcdefghij"), sm("ABCDEFGHIJKLMNOPQRSTUVWXYZ"), cm("second-request-bytes"))
			c.Frag = 2
			return c
		}(),
	}},
	{Name: "tcp4-frags", Interleaves: single, Convs: []ConvSpec{
		func() ConvSpec {
			c := tcp("t", "10.0.7.1", 47000, "10.0.7.2", 8081, 3000, 9000, "fin-c", cm("GET /index.html"), sm("HTTP/1.0 200 OK hello"), cm("thanks, bye"))
			c.Frag = 3
			return c
		}(),
	}},
	{Name: "frags-x2", Interleaves: multi, Convs: []ConvSpec{
		func() ConvSpec {
			c := udp("a", "10.0.7.1", 7100, "10.0.7.2", 7101, cm("aaaaaaaaaaaaaaaaaaaaaaaa-1"), sm("AAAAAAAAAAAAAAAAAAAA-2"))
			c.Frag = 2
			return c
		}(),
		func() ConvSpec {
			c := udp("b", "10.0.7.1", 7200, "10.0.7.2", 7201, cm("bbbbbbbbbbbbbbbbbb-1"), sm("BBBBBBBBBBBBBBBBBBBBBBBBBBBB-2"))
			c.Frag = 2
			return c
		}(),
	}},
	// snapshot sets: a filler of short closed connections large enough to make the importer write
	// a reassembly snapshot, placed in the middle of / before the interesting conversation
	{Name: "snap-mid", Huge: true, Step: time.Millisecond, Interleaves: []string{"wrap:5"}, Convs: withFiller(
		tcp("t", "10.0.0.1", 40000, "10.0.0.2", 80, 1000, 5000, "fin-c", cm("GET"), sm("resp"), cm("ok")))},
	{Name: "snap-before", Huge: true, Step: time.Millisecond, Interleaves: []string{"wrap:0"}, Convs: withFiller(
		tcp("t", "10.0.0.1", 40000, "10.0.0.2", 80, 1000, 5000, "fin-c", cm("GET"), sm("resp"), cm("ok")))},
	{Name: "snap-lastack", Huge: true, Step: time.Millisecond, Interleaves: []string{"wrap:9"}, Convs: withFiller(
		// both FINs are seen before the filler, only the last ACK of the close follows it
		tcp("t", "10.0.0.1", 40000, "10.0.0.2", 80, 1000, 5000, "fin-c", cm("GET"), sm("resp"), cm("ok")))},
	// seven datagrams of the observed flow lie around the 100000th packet of the big capture, so one
	// of them carries exactly the timestamp of the snapshot that import writes; the flow continues in
	// the next capture
	{Name: "snap-trigger", Huge: true, Step: time.Millisecond, Interleaves: []string{"mid:1:99995:7"}, Convs: withFiller(
		udp("u", "10.0.1.1", 5354, "10.0.1.2", 53, cm("d0"), sm("d1"), cm("d2"), sm("d3"), cm("d4"), sm("d5"), cm("d6"), sm("d7"), cm("d8"), sm("d9")))},
	// the observed flow is more than five minutes old when the snapshot is written and still active
	// (a datagram every two minutes); it continues in the next capture
	{Name: "snap-longlived", Huge: true, Step: time.Millisecond, Interleaves: []string{"wrap:4"}, Convs: withFiller(
		udp("u", "10.0.1.1", 5355, "10.0.1.2", 53, cm("d0"), Msg{S2C, "d1", 2 * time.Minute}, Msg{C2S, "d2", 2 * time.Minute}, Msg{S2C, "d3", 2 * time.Minute}, cm("d4"), sm("d5")))},
	// the packet that triggers the snapshot (the 100001st of the capture, so the snapshot carries its
	// timestamp) is the LAST packet of its capture file and the first datagram of the observed flow;
	// it comes six minutes after everything else, so the snapshot refers to no packet of that file;
	// the flow continues in the next capture
	{Name: "snap-boundary-last", Huge: true, Step: time.Millisecond, Interleaves: []string{"mid:0:100000:1"}, Convs: func() []ConvSpec {
		cs := withFiller(
			udp("u", "10.0.1.1", 5356, "10.0.1.2", 53, Msg{C2S, "d0", 6 * time.Minute}, sm("d1"), cm("d2"), sm("d3")))
		// one more single-datagram flow in front of the filler: 1 + 11111*9 = 100000 packets of complete conversations
		return append(append([]ConvSpec{cs[0]}, udp("v", "10.0.1.3", 5357, "10.0.1.2", 53, cm("pad"))), cs[1:]...)
	}()},
	// the observed connection is open without payload when the snapshot is written: only its handshake
	// (only its SYN) lies before the filler, request, response and close follow in the next capture
	{Name: "snap-handshake", Huge: true, Step: time.Millisecond, Interleaves: []string{"wrap:3"}, Convs: withFiller(
		tcp("t", "10.0.0.1", 40000, "10.0.0.2", 80, 1000, 5000, "fin-c", cm("GET"), sm("resp"), cm("ok")))},
	{Name: "snap-syn-only", Huge: true, Step: time.Millisecond, Interleaves: []string{"wrap:1"}, Convs: withFiller(
		tcp("t", "10.0.0.1", 40000, "10.0.0.2", 80, 1000, 5000, "fin-c", cm("GET"), sm("resp"), cm("ok")))},
	{Name: "snap-udp-mid", Huge: true, Step: time.Millisecond, Interleaves: []string{"wrap:2"}, Convs: withFiller(
		udp("u", "10.0.1.1", 5353, "10.0.1.2", 53, cm("qry"), sm("answ"), cm("q2"), sm("a2")))},
}

func Sets() []*ConvSet { return trafficSets }

func SetByName(n string) *ConvSet {
	for _, s := range trafficSets {
		if s.Name == n {
			return s
		}
	}
	return nil
}

// ---------------------------------------------------------------------------------------------
// default rendering of one conversation

func basePackets(spec *ConvSpec, conv int) []*Pkt {
	out := basePackets0(spec, conv)
	v6 := net.ParseIP(spec.CIP).To4() == nil
	for _, p := range out {
		p.V6 = v6
	}
	if spec.Frag > 0 {
		for i := len(out) - 1; i >= 0; i-- {
			if l, err := applyConvDev(out, Dev{Kind: "frag", Conv: conv, I: i, P: spec.Frag}); err == nil {
				out = l
			}
		}
	}
	return out
}

func basePackets0(spec *ConvSpec, conv int) []*Pkt {
	var out []*Pkt
	if spec.Proto == "UDP" {
		for _, m := range spec.Msgs {
			out = append(out, &Pkt{Conv: conv, Dir: m.Dir, UDP: true, Payload: []byte(m.Data), Gap: m.Gap})
		}
		return out
	}
	next := [2]uint32{spec.CISN, spec.SISN}
	out = append(out, &Pkt{Conv: conv, Dir: C2S, SYN: true, Seq: next[C2S]})
	next[C2S]++
	out = append(out, &Pkt{Conv: conv, Dir: S2C, SYN: true, ACK: true, Seq: next[S2C], AckN: next[C2S]})
	next[S2C]++
	out = append(out, &Pkt{Conv: conv, Dir: C2S, ACK: true, Seq: next[C2S], AckN: next[S2C]})
	for _, m := range spec.Msgs {
		d := m.Dir
		out = append(out, &Pkt{Conv: conv, Dir: d, ACK: true, PSH: true, Seq: next[d], AckN: next[1-d], Payload: []byte(m.Data), Gap: m.Gap})
		next[d] += uint32(len(m.Data))
		if spec.AckEach {
			out = append(out, &Pkt{Conv: conv, Dir: 1 - d, ACK: true, Seq: next[1-d], AckN: next[d]})
		}
	}
	switch spec.Close {
	case "fin-c", "fin-s":
		d := C2S
		if spec.Close == "fin-s" {
			d = S2C
		}
		out = append(out, &Pkt{Conv: conv, Dir: d, FIN: true, ACK: true, Seq: next[d], AckN: next[1-d]})
		next[d]++
		out = append(out, &Pkt{Conv: conv, Dir: 1 - d, ACK: true, Seq: next[1-d], AckN: next[d]})
		out = append(out, &Pkt{Conv: conv, Dir: 1 - d, FIN: true, ACK: true, Seq: next[1-d], AckN: next[d]})
		next[1-d]++
		out = append(out, &Pkt{Conv: conv, Dir: d, ACK: true, Seq: next[d], AckN: next[1-d]})
	case "rst-c", "rst-s":
		d := C2S
		if spec.Close == "rst-s" {
			d = S2C
		}
		out = append(out, &Pkt{Conv: conv, Dir: d, RST: true, ACK: true, Seq: next[d], AckN: next[1-d]})
	}
	return out
}

// ---------------------------------------------------------------------------------------------
// deviations on the packet list of one conversation

func applyConvDev(list []*Pkt, d Dev) ([]*Pkt, error) {
	if d.I < 0 || d.I >= len(list) {
		return nil, fmt.Errorf("%v: no such packet", d)
	}
	p := list[d.I]
	cp := func(q *Pkt) *Pkt { c := *q; return &c }
	switch d.Kind {
	case "split", "ovl":
		if p.UDP || len(p.Payload) < 2 || d.P < 1 || d.P >= len(p.Payload) || p.SYN || p.closing() || p.FragPart != 0 {
			return nil, fmt.Errorf("%v: not splittable", d)
		}
		a, b := cp(p), cp(p)
		b.Gap = 0
		a.Payload = p.Payload[:d.P]
		from := d.P
		if d.Kind == "ovl" {
			from = d.P - 1
		}
		b.Payload = p.Payload[from:]
		b.Seq = p.Seq + uint32(from)
		out := append([]*Pkt{}, list[:d.I]...)
		out = append(out, a, b)
		return append(out, list[d.I+1:]...), nil
	case "swap":
		if d.I+1 >= len(list) {
			return nil, fmt.Errorf("%v: no successor", d)
		}
		q := list[d.I+1]
		if p.handshake() || q.handshake() || p.RST || q.RST {
			return nil, fmt.Errorf("%v: handshake/reset packets are not reordered", d)
		}
		out := append([]*Pkt{}, list...)
		out[d.I], out[d.I+1] = q, p
		return out, nil
	case "retx":
		if len(p.Payload) == 0 || p.SYN || p.closing() || d.P < d.I || d.P >= len(list) || p.FragPart != 0 {
			return nil, fmt.Errorf("%v: nothing to retransmit", d)
		}
		if !p.UDP {
			for _, q := range list[:d.P+1] {
				if q.closing() {
					return nil, fmt.Errorf("%v: after close", d)
				}
			}
		}
		c := cp(p)
		c.Retx = true
		c.Gap = 0
		h := len(p.Payload) / 2
		switch d.Mode {
		case "full":
		case "head":
			if p.UDP || len(p.Payload) < 2 {
				return nil, fmt.Errorf("%v: too short", d)
			}
			c.Payload = p.Payload[:len(p.Payload)-h]
		case "tail":
			if p.UDP || len(p.Payload) < 2 {
				return nil, fmt.Errorf("%v: too short", d)
			}
			c.Payload = p.Payload[h:]
			c.Seq = p.Seq + uint32(h)
		default:
			return nil, fmt.Errorf("%v: mode", d)
		}
		out := append([]*Pkt{}, list[:d.P+1]...)
		out = append(out, c)
		return append(out, list[d.P+1:]...), nil
	case "exthdr":
		// IPv6 packet I carries a hop-by-hop options header
		if !p.V6 || p.ExtHdr || p.FragPart != 0 {
			return nil, fmt.Errorf("%v: not an IPv6 packet", d)
		}
		c := cp(p)
		c.ExtHdr = true
		out := append([]*Pkt{}, list[:d.I]...)
		out = append(out, c)
		return append(out, list[d.I+1:]...), nil
	case "ka":
		// a keep-alive probe behind data packet I: one garbage byte at the sequence number of the last byte sent
		if p.UDP || len(p.Payload) == 0 || p.SYN || p.closing() || p.FragPart != 0 || p.Retx {
			return nil, fmt.Errorf("%v: no data packet to probe behind", d)
		}
		c := cp(p)
		c.Retx = true
		c.Gap = 0
		c.PSH = false
		c.Seq = p.Seq + uint32(len(p.Payload)) - 1
		c.Payload = []byte{0}
		c.Probe = true
		out := append([]*Pkt{}, list[:d.I+1]...)
		out = append(out, c)
		return append(out, list[d.I+1:]...), nil
	case "dup":
		// an exact copy of a handshake or closing segment (a retransmitted SYN, SYN-ACK or FIN) follows packet P
		if p.UDP || !(p.SYN || p.FIN) || p.RST || d.P < d.I || d.P > d.I+1 || d.P >= len(list) || p.FragPart != 0 || p.Retx {
			return nil, fmt.Errorf("%v: no handshake or closing segment to repeat", d)
		}
		c := cp(p)
		c.Retx = true
		c.Gap = 0
		out := append([]*Pkt{}, list[:d.P+1]...)
		out = append(out, c)
		return append(out, list[d.P+1:]...), nil
	case "frag":
		hdr := 20
		if p.UDP {
			hdr = 8
		}
		if p.V6 || len(p.Payload) == 0 || p.SYN || p.closing() || p.FragPart != 0 || d.P < 1 || d.P*8 >= hdr+len(p.Payload) || (d.Mode != "" && d.Mode != "rev") {
			return nil, fmt.Errorf("%v: not fragmentable", d)
		}
		a, b := cp(p), cp(p)
		b.Gap = 0
		a.FragPart, b.FragPart = 1, 2
		a.FragOff, b.FragOff = d.P, d.P
		id := uint16(0x8000 | (p.Conv&0x1f)<<10 | d.I&0x3ff)
		a.FragID, b.FragID = id, id
		if d.Mode == "rev" {
			a.FragPart, b.FragPart = 2, 1
		}
		out := append([]*Pkt{}, list[:d.I]...)
		out = append(out, a, b)
		return append(out, list[d.I+1:]...), nil
	}
	return nil, fmt.Errorf("%v: unknown kind", d)
}

// enumConvDevs lists every single deviation applicable to the conversation's current packets.
func enumConvDevs(list []*Pkt, conv int) []Dev {
	var out []Dev
	for i, p := range list {
		for _, k := range []string{"split", "ovl"} {
			for pos := 1; pos < len(p.Payload); pos++ {
				d := Dev{Kind: k, Conv: conv, I: i, P: pos}
				if _, err := applyConvDev(list, d); err == nil {
					out = append(out, d)
				}
			}
		}
		for pos := 1; pos*8 < 20+len(p.Payload); pos++ {
			for _, m := range []string{"", "rev"} {
				d := Dev{Kind: "frag", Conv: conv, I: i, P: pos, Mode: m}
				if _, err := applyConvDev(list, d); err == nil {
					out = append(out, d)
				}
			}
		}
		d := Dev{Kind: "swap", Conv: conv, I: i}
		if _, err := applyConvDev(list, d); err == nil {
			out = append(out, d)
		}
		if d := (Dev{Kind: "exthdr", Conv: conv, I: i}); true {
			if _, err := applyConvDev(list, d); err == nil {
				out = append(out, d)
			}
		}
		if d := (Dev{Kind: "ka", Conv: conv, I: i}); true {
			if _, err := applyConvDev(list, d); err == nil {
				out = append(out, d)
			}
		}
		for pos := i; pos <= i+1; pos++ {
			d := Dev{Kind: "dup", Conv: conv, I: i, P: pos}
			if _, err := applyConvDev(list, d); err == nil {
				out = append(out, d)
			}
		}
		if p.Retx {
			continue
		}
		for pos := i; pos < len(list); pos++ {
			for _, m := range []string{"full", "head", "tail"} {
				if m != "full" && pos != i && pos != len(list)-1 {
					continue
				}
				d := Dev{Kind: "retx", Conv: conv, I: i, P: pos, Mode: m}
				if _, err := applyConvDev(list, d); err == nil {
					out = append(out, d)
				}
			}
		}
	}
	return out
}

// ---------------------------------------------------------------------------------------------
// interleaving

func interleave(lists [][]*Pkt, pattern string) ([]*Pkt, error) {
	order := make([]int, len(lists))
	for i := range order {
		order[i] = i
	}
	rev := func() {
		for i, j := 0, len(order)-1; i < j; i, j = i+1, j-1 {
			order[i], order[j] = order[j], order[i]
		}
	}
	var out []*Pkt
	switch {
	case pattern == "seq" || pattern == "seq-rev":
		if pattern == "seq-rev" {
			rev()
		}
		for _, c := range order {
			out = append(out, lists[c]...)
		}
	case pattern == "rr" || pattern == "rr-rev":
		if pattern == "rr-rev" {
			rev()
		}
		for k := 0; ; k++ {
			any := false
			for _, c := range order {
				if k < len(lists[c]) {
					out = append(out, lists[c][k])
					any = true
				}
			}
			if !any {
				break
			}
		}
	case strings.HasPrefix(pattern, "ord:"):
		// an explicit order: the next packet of the named flow at each position, whatever is left afterwards flow by flow
		next := make([]int, len(lists))
		for _, f := range strings.Split(strings.TrimPrefix(pattern, "ord:"), ",") {
			c, err := strconv.Atoi(f)
			if err != nil || c < 0 || c >= len(lists) || next[c] >= len(lists[c]) {
				return nil, fmt.Errorf("bad interleaving %q", pattern)
			}
			out = append(out, lists[c][next[c]])
			next[c]++
		}
		for c := range lists {
			out = append(out, lists[c][next[c]:]...)
		}
	case strings.HasPrefix(pattern, "wrap:"):
		// first k packets of flow 0, then all other flows, then the rest of flow 0
		k := 0
		fmt.Sscanf(pattern, "wrap:%d", &k)
		if k < 0 || k > len(lists[0]) {
			return nil, fmt.Errorf("interleave %s: flow 0 has %d packets", pattern, len(lists[0]))
		}
		out = append(out, lists[0][:k]...)
		for _, l := range lists[1:] {
			out = append(out, l...)
		}
		out = append(out, lists[0][k:]...)
	case strings.HasPrefix(pattern, "mid:"):
		// first k packets of flow 0, then pos packets of the other flows, then n packets of flow 0,
		// then the remaining packets of the other flows, then the rest of flow 0
		k, pos, n := 0, 0, 0
		fmt.Sscanf(pattern, "mid:%d:%d:%d", &k, &pos, &n)
		var others []*Pkt
		for _, l := range lists[1:] {
			others = append(others, l...)
		}
		if k+n > len(lists[0]) || pos > len(others) {
			return nil, fmt.Errorf("interleave %s: flow 0 has %d packets, the others %d", pattern, len(lists[0]), len(others))
		}
		out = append(out, lists[0][:k]...)
		out = append(out, others[:pos]...)
		out = append(out, lists[0][k:k+n]...)
		out = append(out, others[pos:]...)
		out = append(out, lists[0][k+n:]...)
	default:
		return nil, fmt.Errorf("unknown interleaving %q", pattern)
	}
	return out, nil
}

// ---------------------------------------------------------------------------------------------
// Build

// render applies the deviations and returns the capture-ordered packet list (no layout yet).
func render(set *ConvSet, devs []Dev, il string) ([]*Pkt, [][]*Pkt, error) {
	lists := make([][]*Pkt, len(set.Convs))
	for i := range set.Convs {
		lists[i] = basePackets(&set.Convs[i], i)
	}
	tiesSeen := false
	var ties []int
	for _, d := range devs {
		if d.Kind == "tie" {
			tiesSeen = true
			ties = append(ties, d.I)
			continue
		}
		if tiesSeen {
			return nil, nil, fmt.Errorf("tie deviations must come last")
		}
		if d.Conv < 0 || d.Conv >= len(lists) {
			return nil, nil, fmt.Errorf("%v: no such conversation", d)
		}
		l, err := applyConvDev(lists[d.Conv], d)
		if err != nil {
			return nil, nil, err
		}
		lists[d.Conv] = l
	}
	for _, s := range set.Convs {
		if s.GapBefore != 0 && il != "seq" {
			return nil, nil, fmt.Errorf("set %s needs interleaving seq", set.Name)
		}
	}
	all, err := interleave(lists, il)
	if err != nil {
		return nil, nil, err
	}
	// copy: packets are shared with nothing else, but ties are stored on them
	for _, k := range ties {
		if k < 0 || k+1 >= len(all) {
			return nil, nil, fmt.Errorf("tie(%d): out of range", k)
		}
		if all[k+1].Tie {
			return nil, nil, fmt.Errorf("tie(%d): twice", k)
		}
		all[k+1].Tie = true
	}
	return all, lists, nil
}

func normIP(s string) string { return net.ParseIP(s).String() }

// Build renders the case.
func Build(c Case) (*Capture, error) {
	set := SetByName(c.Set)
	if set == nil {
		return nil, fmt.Errorf("unknown set %q", c.Set)
	}
	all, _, err := render(set, c.Devs, c.Interleave)
	if err != nil {
		return nil, err
	}
	step := set.Step
	if step == 0 {
		step = 3 * time.Millisecond
	}
	// timestamps
	seenConv := map[int]bool{}
	ts := TrafficBase
	for i, p := range all {
		if i > 0 && !p.Tie {
			ts = ts.Add(step)
		}
		if p.Gap != 0 && i > 0 {
			if p.Tie {
				return nil, fmt.Errorf("tie across an idle gap")
			}
			ts = ts.Add(p.Gap)
		}
		if !seenConv[p.Conv] {
			seenConv[p.Conv] = true
			if g := set.Convs[p.Conv].GapBefore; g != 0 && i > 0 {
				if p.Tie {
					return nil, fmt.Errorf("tie across an idle gap")
				}
				ts = ts.Add(g)
			}
		}
		p.TS = ts
	}
	// files
	cuts := append([]int{}, c.Cuts...)
	if !sort.IntsAreSorted(cuts) {
		return nil, fmt.Errorf("cuts not sorted")
	}
	for i, k := range cuts {
		if k < 1 || k >= len(all) || (i > 0 && cuts[i-1] == k) {
			return nil, fmt.Errorf("bad cut %d", k)
		}
	}
	cp := &Capture{Case: c, Set: set, Packets: all, owner: map[PktRef]int{}}
	for f := 0; f <= len(cuts); f++ {
		cp.Files = append(cp.Files, fmt.Sprintf("f%d.pcap", f))
	}
	noiseAt := map[int][]string{}
	if c.Noise != "" {
		if c.Assign != "" || (c.Link != "eth" && c.Link != "") {
			return nil, fmt.Errorf("noise frames need link eth and cuts")
		}
		for _, n := range strings.Split(c.Noise, ",") {
			kind, ps, _ := strings.Cut(n, "@")
			pos, err := strconv.Atoi(ps)
			if err != nil || pos < 0 || pos >= len(all) || !noiseKinds[kind] {
				return nil, fmt.Errorf("bad noise %q", n)
			}
			if all[pos].Tie {
				return nil, fmt.Errorf("noise in front of a packet that shares its timestamp with its predecessor")
			}
			noiseAt[pos] = append(noiseAt[pos], kind)
		}
	}
	f, idx := 0, 0
	var withNoise []*Pkt
	for i, p := range all {
		if f < len(cuts) && i == cuts[f] {
			f++
			idx = 0
		}
		for k, kind := range noiseAt[i] {
			withNoise = append(withNoise, &Pkt{Conv: -1, Noise: kind, TS: p.TS.Add(-time.Duration(len(noiseAt[i])-k) * time.Microsecond), File: f, Index: idx})
			idx++
		}
		p.File, p.Index = f, idx
		idx++
		withNoise = append(withNoise, p)
	}
	if len(noiseAt) != 0 {
		all = withNoise
		cp.Packets = all
	}
	if c.Assign != "" {
		if len(cuts) != 0 {
			return nil, fmt.Errorf("assign and cuts exclude each other")
		}
		kind, ks, _ := strings.Cut(c.Assign, ":")
		k, err := strconv.Atoi(ks)
		if err != nil || k < 2 || k >= len(all) || (kind != "ovl" && kind != "ovlp") {
			return nil, fmt.Errorf("bad assign %q for %d packets", c.Assign, len(all))
		}
		cp.Files = []string{"f0.pcap", "f1.pcap", "f2.pcap"}
		var next [3]int
		for i, p := range all {
			f := 2
			if i < k {
				f = i % 2
				if kind == "ovlp" {
					f = (i / 2) % 2
				}
			}
			p.File, p.Index = f, next[f]
			next[f]++
		}
		if next[0] == 0 || next[1] == 0 || next[2] == 0 {
			return nil, fmt.Errorf("assign %q leaves a file empty", c.Assign)
		}
	}
	if c.Unsorted != "" {
		kind, fs, _ := strings.Cut(c.Unsorted, ":")
		f, err := strconv.Atoi(fs)
		if err != nil || kind != "rev" || f < 0 || f >= len(cp.Files) {
			return nil, fmt.Errorf("bad unsorted %q", c.Unsorted)
		}
		n := 0
		for _, p := range all {
			if p.File == f {
				n++
			}
		}
		for _, p := range all {
			if p.File == f {
				p.Index = n - 1 - p.Index
			}
		}
	}
	// ground truth
	crossSwap := map[int]bool{}
	{
		// replay the swaps to see whether one exchanged payload of different directions
		lists := make([][]*Pkt, len(set.Convs))
		for i := range set.Convs {
			lists[i] = basePackets(&set.Convs[i], i)
		}
		for _, d := range c.Devs {
			if d.Kind == "tie" {
				continue
			}
			if d.Kind == "swap" {
				a, b := lists[d.Conv][d.I], lists[d.Conv][d.I+1]
				if !a.UDP && a.Dir != b.Dir && len(a.Payload) > 0 && len(b.Payload) > 0 {
					crossSwap[d.Conv] = true
				}
			}
			lists[d.Conv], _ = applyConvDev(lists[d.Conv], d)
		}
	}
	perConv := make([][]*Pkt, len(set.Convs))
	for _, p := range all {
		if p.Conv < 0 {
			continue
		}
		perConv[p.Conv] = append(perConv[p.Conv], p)
	}
	for ci := range set.Convs {
		spec := &set.Convs[ci]
		t := &Truth{Conv: ci, Name: spec.Name, Proto: spec.Proto, OrderClaimed: !crossSwap[ci]}
		// true client of a UDP flow is the sender of the first captured datagram
		// a datagram that travels in two IP fragments is complete when the later one is captured
		fragSeen := map[uint16]bool{}
		completes := func(p *Pkt) bool {
			if p.FragPart == 0 {
				return true
			}
			if fragSeen[p.FragID] {
				return true
			}
			fragSeen[p.FragID] = true
			return false
		}
		flip := false
		for _, p := range perConv[ci] {
			if completes(p) {
				flip = p.UDP && p.Dir == S2C
				break
			}
		}
		fragSeen = map[uint16]bool{}
		var msgs []Msg
		for _, p := range perConv[ci] {
			dir := p.Dir
			if flip {
				dir = 1 - dir
			}
			ref := PktRef{cp.Files[p.File], p.Index}
			cp.owner[ref] = ci
			// which of the two fragments a stream refers to for their payload is not claimed
			t.Packets = append(t.Packets, TruthPkt{Ref: ref, Dir: dir, Payload: len(p.Payload) > 0 && p.FragPart == 0})
			if p.UDP && completes(p) {
				msgs = append(msgs, Msg{Dir: dir, Data: string(p.Payload)})
			}
		}
		if spec.Proto == "TCP" {
			msgs = spec.Msgs
		}
		cip, cport, sip, sport := spec.CIP, spec.CPort, spec.SIP, spec.SPort
		if flip {
			cip, cport, sip, sport = sip, sport, cip, cport
		}
		t.ClientIP, t.ClientPort, t.ServerIP, t.ServerPort = normIP(cip), cport, normIP(sip), sport
		for _, m := range msgs {
			if len(m.Data) == 0 {
				continue
			}
			t.Bytes[m.Dir] = append(t.Bytes[m.Dir], m.Data...)
			if n := len(t.Runs); n > 0 && t.Runs[n-1].Dir == m.Dir {
				t.Runs[n-1].Data = append(t.Runs[n-1].Data, m.Data...)
			} else {
				t.Runs = append(t.Runs, Run{m.Dir, []byte(m.Data)})
			}
		}
		cp.Truth = append(cp.Truth, t)
	}
	return cp, nil
}

// ---------------------------------------------------------------------------------------------
// enumeration of deviation lists

func signature(all []*Pkt) string {
	var sb bytes.Buffer
	for _, p := range all {
		fmt.Fprintf(&sb, "%s|%v;", p.String(), p.Tie)
	}
	return sb.String()
}

// EnumDevLists returns every list of at most maxDevs deviations for the set under the given
// interleaving, de-duplicated by the packet sequence they produce (a sequence is attributed to a
// shortest list producing it).  The empty list comes first.  Tie deviations always come last in a
// list because they address positions of the whole capture.
func EnumDevLists(set *ConvSet, il string, maxDevs int) [][]Dev {
	seen := map[string]bool{}
	var out [][]Dev
	level := [][]Dev{nil}
	for depth := 0; depth <= maxDevs && len(level) > 0; depth++ {
		var next [][]Dev
		for _, devs := range level {
			all, lists, err := render(set, devs, il)
			if err != nil {
				continue
			}
			sig := signature(all)
			if seen[sig] {
				continue
			}
			seen[sig] = true
			out = append(out, devs)
			if depth == maxDevs || set.Huge {
				continue
			}
			lastTie := -1
			for _, d := range devs {
				if d.Kind == "tie" {
					lastTie = d.I
				}
			}
			if lastTie < 0 {
				for ci, l := range lists {
					for _, d := range enumConvDevs(l, ci) {
						next = append(next, append(append([]Dev{}, devs...), d))
					}
				}
			}
			for k := lastTie + 1; k+1 < len(all); k++ {
				// no tie across an idle gap
				if g := set.Convs[all[k+1].Conv].GapBefore; (g != 0 && all[k].Conv != all[k+1].Conv) || all[k+1].Gap != 0 {
					continue
				}
				next = append(next, append(append([]Dev{}, devs...), Dev{Kind: "tie", I: k}))
			}
		}
		level = next
	}
	return out
}

// NumPackets is the length of the rendered capture.
func NumPackets(set *ConvSet, devs []Dev, il string) int {
	all, _, err := render(set, devs, il)
	if err != nil {
		return 0
	}
	return len(all)
}

// ---------------------------------------------------------------------------------------------
// pcap writer

var macs = [2][]byte{{2, 0, 0, 0, 0, 1}, {2, 0, 0, 0, 0, 2}}

var noiseKinds = map[string]bool{"arp": true, "lldp": true, "icmp": true, "v4junk": true, "udpjunk": true, "tcpoff": true}

// noiseFrame renders a frame that belongs to no conversation: an ARP request, an LLDP advertisement (both without
// network layer), an ICMP echo request (a network layer but no transport layer the importer follows) and an
// IPv4 frame whose header says TCP but ends in the middle of the TCP header.
func noiseFrame(kind string) ([]byte, error) {
	buf := gopacket.NewSerializeBuffer()
	opts := gopacket.SerializeOptions{FixLengths: true, ComputeChecksums: true}
	var err error
	switch kind {
	case "arp":
		err = gopacket.SerializeLayers(buf, opts,
			&layers.Ethernet{SrcMAC: macs[0], DstMAC: net.HardwareAddr{0xff, 0xff, 0xff, 0xff, 0xff, 0xff}, EthernetType: layers.EthernetTypeARP},
			&layers.ARP{AddrType: layers.LinkTypeEthernet, Protocol: layers.EthernetTypeIPv4, HwAddressSize: 6, ProtAddressSize: 4, Operation: layers.ARPRequest,
				SourceHwAddress: macs[0], SourceProtAddress: net.ParseIP("10.0.0.1").To4(), DstHwAddress: make([]byte, 6), DstProtAddress: net.ParseIP("10.0.0.2").To4()})
	case "lldp":
		err = gopacket.SerializeLayers(buf, opts,
			&layers.Ethernet{SrcMAC: macs[0], DstMAC: net.HardwareAddr{0x01, 0x80, 0xc2, 0x00, 0x00, 0x0e}, EthernetType: layers.EthernetTypeLinkLayerDiscovery},
			gopacket.Payload([]byte{0x02, 0x07, 0x04, 0x02, 0x00, 0x00, 0x00, 0x00, 0x01, 0x04, 0x02, 0x07, 0x31, 0x06, 0x02, 0x00, 0x78, 0x00, 0x00}))
	case "icmp":
		err = gopacket.SerializeLayers(buf, opts,
			&layers.Ethernet{SrcMAC: macs[0], DstMAC: macs[1], EthernetType: layers.EthernetTypeIPv4},
			&layers.IPv4{Version: 4, IHL: 5, TTL: 64, Id: 7, Protocol: layers.IPProtocolICMPv4, SrcIP: net.ParseIP("10.0.0.1").To4(), DstIP: net.ParseIP("10.0.0.2").To4()},
			&layers.ICMPv4{TypeCode: layers.CreateICMPv4TypeCode(layers.ICMPv4TypeEchoRequest, 0), Id: 1, Seq: 1},
			gopacket.Payload([]byte("ping")))
	case "v4junk":
		err = gopacket.SerializeLayers(buf, opts,
			&layers.Ethernet{SrcMAC: macs[0], DstMAC: macs[1], EthernetType: layers.EthernetTypeIPv4},
			&layers.IPv4{Version: 4, IHL: 5, TTL: 64, Id: 8, Protocol: layers.IPProtocolTCP, SrcIP: net.ParseIP("10.0.0.1").To4(), DstIP: net.ParseIP("10.0.0.2").To4()},
			gopacket.Payload([]byte{0x9c, 0x40, 0x00, 0x50, 0x00, 0x00}))
	case "udpjunk":
		// the IPv4 header says UDP, four bytes follow
		err = gopacket.SerializeLayers(buf, opts,
			&layers.Ethernet{SrcMAC: macs[0], DstMAC: macs[1], EthernetType: layers.EthernetTypeIPv4},
			&layers.IPv4{Version: 4, IHL: 5, TTL: 64, Id: 9, Protocol: layers.IPProtocolUDP, SrcIP: net.ParseIP("10.0.0.1").To4(), DstIP: net.ParseIP("10.0.0.2").To4()},
			gopacket.Payload([]byte{0x9c, 0x40, 0x00, 0x35}))
	case "tcpoff":
		// a complete TCP header whose data offset (3 words) is smaller than the header itself
		err = gopacket.SerializeLayers(buf, opts,
			&layers.Ethernet{SrcMAC: macs[0], DstMAC: macs[1], EthernetType: layers.EthernetTypeIPv4},
			&layers.IPv4{Version: 4, IHL: 5, TTL: 64, Id: 10, Protocol: layers.IPProtocolTCP, SrcIP: net.ParseIP("10.0.0.1").To4(), DstIP: net.ParseIP("10.0.0.2").To4()},
			gopacket.Payload([]byte{0x9c, 0x41, 0x00, 0x51, 0, 0, 0, 1, 0, 0, 0, 0, 0x30, 0x02, 0xff, 0xff, 0, 0, 0, 0, 'x', 'y'}))
	default:
		return nil, fmt.Errorf("unknown noise frame %q", kind)
	}
	if err != nil {
		return nil, err
	}
	return append([]byte{}, buf.Bytes()...), nil
}

func (c *Capture) serialize(p *Pkt, link layers.LinkType, ipid uint16) ([]byte, error) {
	if p.Noise != "" {
		if link != layers.LinkTypeEthernet {
			return nil, fmt.Errorf("noise frames need an Ethernet capture")
		}
		return noiseFrame(p.Noise)
	}
	spec := &c.Set.Convs[p.Conv]
	sip, dip, sport, dport := spec.CIP, spec.SIP, spec.CPort, spec.SPort
	if p.Dir == S2C {
		sip, dip, sport, dport = dip, sip, dport, sport
	}
	src, dst := net.ParseIP(sip), net.ParseIP(dip)
	v6 := src.To4() == nil
	var ls []gopacket.SerializableLayer
	if link == layers.LinkTypeEthernet {
		et := layers.EthernetTypeIPv4
		if v6 {
			et = layers.EthernetTypeIPv6
		}
		switch c.Case.Link {
		case "vlan":
			// an 802.1Q tag between the Ethernet header and the network layer
			ls = append(ls, &layers.Ethernet{SrcMAC: macs[p.Dir], DstMAC: macs[1-p.Dir], EthernetType: layers.EthernetTypeDot1Q},
				&layers.Dot1Q{VLANIdentifier: 42, Type: et})
		case "qinq":
			// two stacked tags (provider and customer VLAN)
			ls = append(ls, &layers.Ethernet{SrcMAC: macs[p.Dir], DstMAC: macs[1-p.Dir], EthernetType: layers.EthernetTypeQinQ},
				&layers.Dot1Q{VLANIdentifier: 7, Type: layers.EthernetTypeDot1Q}, &layers.Dot1Q{VLANIdentifier: 42, Type: et})
		default:
			ls = append(ls, &layers.Ethernet{SrcMAC: macs[p.Dir], DstMAC: macs[1-p.Dir], EthernetType: et})
		}
	}
	proto := layers.IPProtocolTCP
	if p.UDP {
		proto = layers.IPProtocolUDP
	}
	var nl gopacket.NetworkLayer
	if v6 {
		ip := &layers.IPv6{Version: 6, HopLimit: 64, NextHeader: proto, SrcIP: src, DstIP: dst}
		ls = append(ls, ip)
		nl = ip
	} else {
		ip := &layers.IPv4{Version: 4, IHL: 5, TTL: 64, Id: ipid, Flags: layers.IPv4DontFragment, Protocol: proto, SrcIP: src.To4(), DstIP: dst.To4()}
		if p.FragPart != 0 {
			ip.Flags, ip.Id = 0, p.FragID
		}
		ls = append(ls, ip)
		nl = ip
	}
	if p.UDP {
		u := &layers.UDP{SrcPort: layers.UDPPort(sport), DstPort: layers.UDPPort(dport)}
		if err := u.SetNetworkLayerForChecksum(nl); err != nil {
			return nil, err
		}
		ls = append(ls, u)
	} else {
		t := &layers.TCP{SrcPort: layers.TCPPort(sport), DstPort: layers.TCPPort(dport), Seq: p.Seq, Ack: p.AckN,
			SYN: p.SYN, ACK: p.ACK, FIN: p.FIN, RST: p.RST, PSH: p.PSH, Window: 65535}
		if err := t.SetNetworkLayerForChecksum(nl); err != nil {
			return nil, err
		}
		ls = append(ls, t)
	}
	ls = append(ls, gopacket.Payload(p.Payload))
	buf := gopacket.NewSerializeBuffer()
	if err := gopacket.SerializeLayers(buf, gopacket.SerializeOptions{FixLengths: true, ComputeChecksums: true}, ls...); err != nil {
		return nil, err
	}
	whole := append([]byte{}, buf.Bytes()...)
	if p.ExtHdr {
		if !v6 {
			return nil, fmt.Errorf("extension headers are generated for IPv6 only")
		}
		off := 0
		switch {
		case link == layers.LinkTypeEthernet && c.Case.Link == "vlan":
			off = 18
		case link == layers.LinkTypeEthernet && c.Case.Link == "qinq":
			off = 22
		case link == layers.LinkTypeEthernet:
			off = 14
		}
		// next header of the fixed header becomes 0 (hop-by-hop options); the options header names the transport
		// protocol, has length 0 (eight bytes) and holds one PadN option; the payload length grows by eight
		ext := []byte{whole[off+6], 0, 1, 4, 0, 0, 0, 0}
		whole[off+6] = 0
		plen := int(whole[off+4])<<8 + int(whole[off+5]) + 8
		whole[off+4], whole[off+5] = byte(plen>>8), byte(plen)
		whole = append(whole[:off+40], append(ext, whole[off+40:]...)...)
	}
	if p.FragPart == 0 {
		return whole, nil
	}
	// cut the IP payload (transport header and data, checksums computed over the whole datagram) in two
	if v6 {
		return nil, fmt.Errorf("fragmentation is generated for IPv4 only")
	}
	ipOff, linkLayers := 0, 0
	if link == layers.LinkTypeEthernet {
		ipOff, linkLayers = 14, 1
		switch c.Case.Link {
		case "vlan":
			ipOff, linkLayers = 18, 2
		case "qinq":
			ipOff, linkLayers = 22, 3
		}
	}
	// (an Ethernet frame shorter than 60 bytes was padded: the datagram ends where its length field says)
	body := whole[ipOff+20 : ipOff+int(whole[ipOff+2])<<8+int(whole[ipOff+3])]
	cut := p.FragOff * 8
	if cut <= 0 || cut >= len(body) {
		return nil, fmt.Errorf("fragment offset %d outside the datagram of %d bytes", cut, len(body))
	}
	ip := &layers.IPv4{Version: 4, IHL: 5, TTL: 64, Id: p.FragID, Protocol: proto, SrcIP: src.To4(), DstIP: dst.To4()}
	part := body[:cut]
	if p.FragPart == 1 {
		ip.Flags = layers.IPv4MoreFragments
	} else {
		ip.FragOffset = uint16(p.FragOff)
		part = body[cut:]
	}
	var fl []gopacket.SerializableLayer
	fl = append(fl, ls[:linkLayers]...)
	fl = append(fl, ip, gopacket.Payload(part))
	fbuf := gopacket.NewSerializeBuffer()
	if err := gopacket.SerializeLayers(fbuf, gopacket.SerializeOptions{FixLengths: true, ComputeChecksums: true}, fl...); err != nil {
		return nil, err
	}
	return append([]byte{}, fbuf.Bytes()...), nil
}

// LinkType resolves the case's link name for this set ("raw" needs a single address family).
func (c *Capture) LinkType() (layers.LinkType, error) {
	switch c.Case.Link {
	case "eth", "", "vlan", "qinq":
		return layers.LinkTypeEthernet, nil
	case "raw":
		v6 := 0
		for _, s := range c.Set.Convs {
			if net.ParseIP(s.CIP).To4() == nil {
				v6++
			}
		}
		switch v6 {
		case 0:
			return layers.LinkTypeIPv4, nil
		case len(c.Set.Convs):
			return layers.LinkTypeIPv6, nil
		}
		return 0, fmt.Errorf("raw link type needs one address family")
	}
	return 0, fmt.Errorf("unknown link %q", c.Case.Link)
}

// WriteFiles writes the capture files (classic pcap, microsecond timestamps) into dir.
func (c *Capture) WriteFiles(dir string) error {
	lt, err := c.LinkType()
	if err != nil {
		return err
	}
	files := map[int]*os.File{}
	writers := map[int]*pcapgo.Writer{}
	closeAll := func() error {
		var first error
		for _, f := range files {
			if err := f.Close(); err != nil && first == nil {
				first = err
			}
		}
		return first
	}
	// a file is written in the order of the indexes of its packets (the capture order, unless the case asks for a
	// file that is not sorted by time)
	order := make([]int, len(c.Packets))
	for i := range order {
		order[i] = i
	}
	if c.Case.Unsorted != "" {
		sort.SliceStable(order, func(a, b int) bool {
			pa, pb := c.Packets[order[a]], c.Packets[order[b]]
			if pa.File != pb.File {
				return pa.File < pb.File
			}
			return pa.Index < pb.Index
		})
	}
	for _, i := range order {
		p := c.Packets[i]
		w := writers[p.File]
		if w == nil {
			f, err := os.Create(filepath.Join(dir, c.Files[p.File]))
			if err != nil {
				closeAll()
				return err
			}
			files[p.File] = f
			w = pcapgo.NewWriter(f)
			writers[p.File] = w
			if err := w.WriteFileHeader(65535, lt); err != nil {
				closeAll()
				return err
			}
		}
		data, err := c.serialize(p, lt, uint16(i+1))
		if err != nil {
			closeAll()
			return err
		}
		if err := w.WritePacket(gopacket.CaptureInfo{Timestamp: p.TS, CaptureLength: len(data), Length: len(data)}, data); err != nil {
			closeAll()
			return err
		}
	}
	return closeAll()
}

// Describe lists the packets of the capture (for messages and samples).
func (c *Capture) Describe() string {
	var sb strings.Builder
	for _, p := range c.Packets {
		fmt.Fprintf(&sb, "%s:%d +%v %s\n", c.Files[p.File], p.Index, p.TS.Sub(TrafficBase), p)
	}
	return sb.String()
}

// Affected returns the capture positions of the two packets a single deviation is about (the two
// halves of a split, the swapped pair, original and copy of a retransmission, the tied pair).
func Affected(set *ConvSet, devs []Dev, il string) (int, int, bool) {
	if len(devs) != 1 {
		return 0, 0, false
	}
	all, lists, err := render(set, devs, il)
	if err != nil {
		return 0, 0, false
	}
	d := devs[0]
	if d.Kind == "tie" {
		return d.I, d.I + 1, true
	}
	a, b := d.I, d.I+1
	if d.Kind == "retx" {
		b = d.P + 1
	}
	if d.Kind == "exthdr" {
		// one packet is concerned: cut before and behind it
		b = a
	}
	pa, pb := lists[d.Conv][a], lists[d.Conv][b]
	ga, gb := -1, -1
	for i, p := range all {
		if p == pa {
			ga = i
		}
		if p == pb {
			gb = i
		}
	}
	return ga, gb, ga >= 0 && (gb > ga || (a == b && gb == ga))
}

// SnapshotCuts returns, for a snapshot set, the two cut positions that put the filler into a file
// of its own: head | filler | rest for "wrap:k" with k>0, filler | first four packets | rest for k=0.
func SnapshotCuts(set *ConvSet) ([]int, error) {
	if !set.Huge {
		return nil, fmt.Errorf("%s is no snapshot set", set.Name)
	}
	k := -1
	fmt.Sscanf(set.Interleaves[0], "wrap:%d", &k)
	if strings.HasPrefix(set.Interleaves[0], "mid:") {
		mk, pos, mn := 0, 0, 0
		fmt.Sscanf(set.Interleaves[0], "mid:%d:%d:%d", &mk, &pos, &mn)
		if mk == 0 {
			// two files: the first ends with the packet(s) placed in the middle
			return []int{pos + mn}, nil
		}
		return []int{mk, mk + FillerConns*9 + mn}, nil
	}
	if k < 0 {
		return nil, fmt.Errorf("%s: interleaving %q", set.Name, set.Interleaves[0])
	}
	fill := FillerConns * 9
	n := NumPackets(set, nil, set.Interleaves[0])
	cuts := []int{k, k + fill}
	if k == 0 {
		cuts = []int{fill, fill + 4}
	}
	if cuts[1] >= n {
		return nil, fmt.Errorf("%s: cuts %v beyond %d packets", set.Name, cuts, n)
	}
	return cuts, nil
}
