// Package ref holds reference models and generators shared by several drivers.
package ref

import (
	"sort"

	"rsc.io/binaryregexp/syntax"
)

// RegexGrammar describes the regular expressions enumerated by C18 and C04.
type RegexGrammar struct {
	Atoms  []string
	Unary  []string // %s is replaced by the (grouped) operand
	Binary []string // two %s
}

var FullRegexGrammar = RegexGrammar{
	Atoms: []string{"a", "b", ".", "[ab]", "[^a]", "^", "$", `\b`, "(?i:a)", `\x00`, ""},
	Unary: []string{"%s*", "%s+", "%s?", "%s{2}", "%s{0,2}", "%s{1,}", "%s{2,3}", "%s*?", "%s+?", "%s??",
		"(%s)", "(?P<v>%s)", "(?i:%s)", "(?s:%s)"},
	Binary: []string{"%s%s", "%s|%s"},
}

var SmallRegexGrammar = RegexGrammar{
	Atoms:  []string{"a", "b", ".", "[ab]", "^", "$", `\b`, "(?i:a)", ""},
	Unary:  []string{"%s*", "%s+", "%s?", "%s{2}", "%s{0,2}", "%s{2,3}", "%s+?", "(%s)", "(?i:%s)"},
	Binary: []string{"%s%s", "%s|%s"},
}

// TinyRegexGrammar reaches deeper nestings of repetition and alternation than the other two can
// within the same budget (C18 enumerates it two sizes further).
var TinyRegexGrammar = RegexGrammar{
	Atoms:  []string{"a", "b"},
	Unary:  []string{"%s*", "%s+", "%s?"},
	Binary: []string{"%s%s", "%s|%s"},
}

// HighByteRegexGrammar: literals above 0x7f stand for single bytes in binaryregexp, not for the UTF-8
// encoding of the rune with that number.
var HighByteRegexGrammar = RegexGrammar{
	Atoms:  []string{"a", `\xe9`, "[ab]"},
	Unary:  []string{"%s*", "%s+", "%s?", "%s{2}"},
	Binary: []string{"%s%s", "%s|%s"},
}

func subst(pat string, args ...string) string {
	out := make([]byte, 0, len(pat)+16)
	ai := 0
	for i := 0; i < len(pat); i++ {
		if pat[i] == '%' && i+1 < len(pat) && pat[i+1] == 's' {
			out = append(out, "(?:"...)
			out = append(out, args[ai]...)
			out = append(out, ')')
			ai++
			i++
			continue
		}
		out = append(out, pat[i])
	}
	return string(out)
}

// Enumerate returns every regex with at most maxSize grammar nodes, de-duplicated by compiled
// program (two texts with the same program are the same case).  Texts that do not parse (e.g.
// repetition of an empty-width operator nested too deep) are skipped and counted.
func (g RegexGrammar) Enumerate(maxSize int) (res []string, rejected int) {
	bySize := make([][]string, maxSize+1)
	if maxSize >= 1 {
		bySize[1] = append(bySize[1], g.Atoms...)
	}
	for n := 2; n <= maxSize; n++ {
		for _, u := range g.Unary {
			for _, x := range bySize[n-1] {
				bySize[n] = append(bySize[n], subst(u, x))
			}
		}
		for l := 1; l <= n-2; l++ {
			r := n - 1 - l
			for _, b := range g.Binary {
				for _, x := range bySize[l] {
					for _, y := range bySize[r] {
						bySize[n] = append(bySize[n], subst(b, x, y))
					}
				}
			}
		}
	}
	seen := map[string]bool{}
	for n := 1; n <= maxSize; n++ {
		for _, t := range bySize[n] {
			re, err := syntax.Parse(t, syntax.Perl)
			if err != nil {
				rejected++
				continue
			}
			p, err := syntax.Compile(re.Simplify())
			if err != nil {
				rejected++
				continue
			}
			k := p.String()
			if seen[k] {
				continue
			}
			seen[k] = true
			res = append(res, t)
		}
	}
	return res, rejected
}

// Strings returns all strings over alphabet with length <= maxLen, grouped by length.
func Strings(alphabet string, maxLen int) [][]string {
	out := make([][]string, maxLen+1)
	out[0] = []string{""}
	for n := 1; n <= maxLen; n++ {
		for _, s := range out[n-1] {
			for i := 0; i < len(alphabet); i++ {
				out[n] = append(out[n], s+alphabet[i:i+1])
			}
		}
		sort.Strings(out[n])
	}
	return out
}
