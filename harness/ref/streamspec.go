package ref

import (
	"bytes"
	"fmt"
	"net"
	"sort"
	"time"

	"github.com/gopacket/gopacket"
	"github.com/gopacket/gopacket/reassembly"
	"github.com/spq/pkappa2/internal/index"
	"github.com/spq/pkappa2/internal/index/streams"
	pcapmetadata "github.com/spq/pkappa2/internal/tools/pcapMetadata"
)

// PktSpec is one captured packet of a stream.
type PktSpec struct {
	Dir      int   // DirC2S / DirS2C
	OffsetUs int64 // capture time relative to the stream's Start, microseconds
	File     string
	Index    uint64
	Data     []byte // nil/empty: packet without payload
	// DataRank orders the payload chunks (reassembly order); 0 = packet order
	DataRank int
	// EmptyChunk: the packet has no payload and the stream nevertheless lists a payload chunk of size 0 for it
	EmptyChunk bool
}

// StreamSpec is the ground truth of one stream handed to the index writer.
type StreamSpec struct {
	Name           string
	ID             uint64
	Client, Server net.IP
	CPort, SPort   uint16
	UDP            bool
	Start          time.Time
	Pkts           []PktSpec
}

var pcapInfos = map[string]*pcapmetadata.PcapInfo{}

func pcapInfo(name string) *pcapmetadata.PcapInfo {
	// callers build streams single-threaded per spec list; the map is pre-filled by InternFiles
	return pcapInfos[name]
}

// InternFiles must be called (single-threaded) with every capture name before ToStream is used concurrently.
func InternFiles(names ...string) {
	for _, n := range names {
		if pcapInfos[n] == nil {
			pcapInfos[n] = &pcapmetadata.PcapInfo{Filename: n}
		}
	}
}

// ToStream builds the reassembler output the writer consumes.
func (s *StreamSpec) ToStream() *streams.Stream {
	st := &streams.Stream{
		ClientAddr: []byte(s.Client), ServerAddr: []byte(s.Server),
		ClientPort: s.CPort, ServerPort: s.SPort,
		Flags: streams.StreamFlagsProtocolTCP,
	}
	if s.UDP {
		st.Flags = streams.StreamFlagsProtocolUDP
	}
	type d struct {
		rank, pkt int
	}
	var ds []d
	for i, p := range s.Pkts {
		ci := gopacket.CaptureInfo{Timestamp: s.Start.Add(time.Duration(p.OffsetUs) * time.Microsecond), CaptureLength: len(p.Data) + 40, Length: len(p.Data) + 40}
		pcapmetadata.AddPcapMetadata(&ci, pcapInfo(p.File), p.Index)
		st.Packets = append(st.Packets, ci)
		dir := reassembly.TCPDirClientToServer
		if p.Dir == DirS2C {
			dir = reassembly.TCPDirServerToClient
		}
		st.PacketDirections = append(st.PacketDirections, dir)
		if len(p.Data) != 0 || p.EmptyChunk {
			ds = append(ds, d{p.DataRank, i})
		}
	}
	sort.SliceStable(ds, func(i, j int) bool { return ds[i].rank < ds[j].rank })
	for _, x := range ds {
		st.Data = append(st.Data, streams.StreamData{Bytes: s.Pkts[x.pkt].Data, PacketIndex: uint64(x.pkt)})
	}
	return st
}

// DataOrder returns the payload chunks in reassembly order.
func (s *StreamSpec) DataOrder() []Chunk {
	type d struct {
		rank, pkt int
	}
	var ds []d
	for i, p := range s.Pkts {
		if len(p.Data) != 0 {
			ds = append(ds, d{p.DataRank, i})
		}
	}
	sort.SliceStable(ds, func(i, j int) bool { return ds[i].rank < ds[j].rank })
	var out []Chunk
	for _, x := range ds {
		out = append(out, Chunk{s.Pkts[x.pkt].Dir, s.Pkts[x.pkt].Data})
	}
	return out
}

// Runs merges adjacent chunks of one direction and drops empty ones: the order of direction
// changes, which is what the property promises (chunking inside a run is presentation).
func Runs(chunks []Chunk) []Chunk {
	var out []Chunk
	for _, c := range chunks {
		if len(c.Data) == 0 {
			continue
		}
		if n := len(out); n != 0 && out[n-1].Dir == c.Dir {
			out[n-1].Data = append(append([]byte{}, out[n-1].Data...), c.Data...)
			continue
		}
		out = append(out, Chunk{c.Dir, append([]byte{}, c.Data...)})
	}
	return out
}

func (s *StreamSpec) Bytes(dir int) uint64 {
	n := uint64(0)
	for _, p := range s.Pkts {
		if p.Dir == dir {
			n += uint64(len(p.Data))
		}
	}
	return n
}

func (s *StreamSpec) First() time.Time { return s.Start.Add(time.Duration(s.Pkts[0].OffsetUs) * time.Microsecond) }
func (s *StreamSpec) Last() time.Time {
	return s.Start.Add(time.Duration(s.Pkts[len(s.Pkts)-1].OffsetUs) * time.Microsecond)
}

// TimesRepresentable: packet times are non-decreasing and consecutive gaps stay below 2^32 µs – the
// regime in which the format can store per-packet times (outside it only order/source/direction are compared).
func (s *StreamSpec) TimesRepresentable() bool {
	for i := 1; i < len(s.Pkts); i++ {
		d := s.Pkts[i].OffsetUs - s.Pkts[i-1].OffsetUs
		if d < 0 || d >= 1<<32 {
			return false
		}
	}
	return true
}

func (s *StreamSpec) Proto() string {
	if s.UDP {
		return "UDP"
	}
	return "TCP"
}

// Rec converts the spec into the abstract record used by the query evaluator.
func (s *StreamSpec) Rec() *Rec {
	r := &Rec{ID: s.ID, CPort: s.CPort, SPort: s.SPort, CBytes: s.Bytes(DirC2S), SBytes: s.Bytes(DirS2C), CHost: s.Client, SHost: s.Server,
		Proto: ProtoTCP, FTime: s.First(), LTime: s.Last(), Tags: map[string]TagState{}, Reps: map[string][]Chunk{"": s.DataOrder()}}
	if s.UDP {
		r.Proto = ProtoUDP
	}
	return r
}

// CompareStream checks everything C01 promises about one stored stream; it returns a list of
// (symptom, message) pairs.
func CompareStream(got *index.Stream, want *StreamSpec) [][2]string {
	var out [][2]string
	bad := func(sym, f string, a ...any) { out = append(out, [2]string{sym, fmt.Sprintf(f, a...)}) }
	if got.ID() != want.ID {
		bad("stream.id", "id %d, want %d", got.ID(), want.ID)
	}
	if g, w := got.ClientHostIP(), want.Client.String(); g != w {
		bad("stream.client-host", "client host %s, want %s", g, w)
	}
	if g, w := got.ServerHostIP(), want.Server.String(); g != w {
		bad("stream.server-host", "server host %s, want %s", g, w)
	}
	if got.ClientPort != want.CPort || got.ServerPort != want.SPort {
		bad("stream.ports", "ports %d/%d, want %d/%d", got.ClientPort, got.ServerPort, want.CPort, want.SPort)
	}
	if got.Protocol() != want.Proto() {
		bad("stream.protocol", "protocol %s, want %s", got.Protocol(), want.Proto())
	}
	if !got.FirstPacket().Equal(want.First()) {
		bad("stream.first-time", "first packet %s, want %s", got.FirstPacket().UTC(), want.First().UTC())
	}
	if !got.LastPacket().Equal(want.Last()) {
		bad("stream.last-time", "last packet %s, want %s", got.LastPacket().UTC(), want.Last().UTC())
	}
	if got.ClientBytes != want.Bytes(DirC2S) || got.ServerBytes != want.Bytes(DirS2C) {
		bad("stream.bytes", "bytes %d/%d, want %d/%d", got.ClientBytes, got.ServerBytes, want.Bytes(DirC2S), want.Bytes(DirS2C))
	}
	// payload
	var data []index.Data
	var err error
	if pt := tryCall(func() { data, err = got.Data() }); pt != "" {
		bad("data.panic", "Data() panicked: %s", pt)
	} else if err != nil {
		bad("data.error", "Data(): %v", err)
	} else {
		var gc []Chunk
		for _, d := range data {
			gc = append(gc, Chunk{int(d.Direction), d.Content})
		}
		gr, wr := Runs(gc), Runs(want.DataOrder())
		if len(gr) != len(wr) {
			bad("data.runs", "payload has %d direction runs, want %d (%s vs %s)", len(gr), len(wr), descChunks(gr), descChunks(wr))
		} else {
			for i := range gr {
				if gr[i].Dir != wr[i].Dir || !bytes.Equal(gr[i].Data, wr[i].Data) {
					bad("data.content", "direction run %d is %s, want %s", i, descChunks(gr[i:i+1]), descChunks(wr[i:i+1]))
					break
				}
			}
		}
		if want.TimesRepresentable() {
			// every returned chunk carries the time of a payload packet of its direction, non-decreasing per direction
			valid := map[int]map[int64]bool{0: {}, 1: {}}
			for _, p := range want.Pkts {
				if len(p.Data) != 0 {
					valid[p.Dir][want.Start.Add(time.Duration(p.OffsetUs)*time.Microsecond).UnixNano()/1000] = true
				}
			}
			for _, d := range data {
				if !valid[int(d.Direction)][d.Time.UnixNano()/1000] {
					bad("data.time", "chunk time %s is not the time of any payload packet of that direction", d.Time.UTC())
					break
				}
			}
		}
	}
	// packets
	var pk []index.Packet
	if pt := tryCall(func() { pk, err = got.Packets() }); pt != "" {
		bad("packets.panic", "Packets() panicked: %s", pt)
	} else if err != nil {
		bad("packets.error", "Packets(): %v", err)
	} else if len(pk) != len(want.Pkts) {
		bad("packets.count", "%d packets, want %d", len(pk), len(want.Pkts))
	} else {
		rep := want.TimesRepresentable()
		first := want.First()
		for i, p := range want.Pkts {
			g := pk[i]
			if g.PcapFilename != p.File || g.PcapIndex != p.Index || int(g.Direction) != p.Dir {
				bad("packets.source", "packet %d is %s#%d dir %d, want %s#%d dir %d", i, g.PcapFilename, g.PcapIndex, g.Direction, p.File, p.Index, p.Dir)
				break
			}
			if rep {
				// stored with microsecond resolution relative to the first packet
				w := first.Add(time.Duration(p.OffsetUs-want.Pkts[0].OffsetUs) * time.Microsecond)
				if !g.Timestamp.Equal(w) {
					bad("packets.time", "packet %d time %s, want %s", i, g.Timestamp.UTC(), w.UTC())
					break
				}
			}
		}
	}
	return out
}

func tryCall(f func()) (p string) {
	defer func() {
		if r := recover(); r != nil {
			p = fmt.Sprint(r)
		}
	}()
	f()
	return
}

func descChunks(c []Chunk) string {
	s := ""
	for _, x := range c {
		d := x.Data
		if len(d) > 12 {
			s += fmt.Sprintf("%c[%d bytes %q…]", "CS"[x.Dir], len(d), d[:8])
		} else {
			s += fmt.Sprintf("%c%q", "CS"[x.Dir], d)
		}
	}
	if s == "" {
		return "(none)"
	}
	return s
}
