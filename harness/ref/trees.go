package ref

// Trees enumerates all expression trees with exactly n leaves over atoms with at most nots
// negations, calling f for each.  THEN operands that the reference semantics does not define are
// skipped by the caller (WellDefined).
func Trees(atoms []AtomDef, n, nots int, f func(*Node)) {
	var gen func(n, nots int) []*Node
	memo := map[[2]int][]*Node{}
	gen = func(n, nots int) []*Node {
		k := [2]int{n, nots}
		if r, ok := memo[k]; ok {
			return r
		}
		var out []*Node
		if n == 1 {
			for _, a := range atoms {
				out = append(out, A(a.Atom))
			}
		} else {
			for l := 1; l < n; l++ {
				for nl := 0; nl <= nots; nl++ {
					for _, L := range gen(l, nl) {
						if exactNots(L) != nl {
							continue
						}
						for _, R := range gen(n-l, nots-nl) {
							out = append(out, And(L, R), Or(L, R), Then(L, R))
						}
					}
				}
			}
		}
		if nots > 0 {
			for _, t := range gen(n, nots-1) {
				if t.Kind != KNot { // no double negation at the same node (covered by 2-not trees through groups)
					out = append(out, Not(t))
				}
			}
		}
		memo[k] = out
		return out
	}
	for _, t := range gen(n, nots) {
		f(t)
	}
}

func exactNots(n *Node) int {
	c := 0
	if n.Kind == KNot {
		c = 1
	}
	for _, k := range n.Kids {
		c += exactNots(k)
	}
	return c
}


// shape estimates the DNF shape (disjuncts w of c conditions) of the translation of n and the
// total work spent in negations (c^w per negated node).
func Shape(n *Node, atoms map[*Atom][2]int) (w, c int, cost float64) {
	switch n.Kind {
	case KAtom:
		s := atoms[n.Atom]
		return s[0], s[1], 0
	case KNot:
		w1, c1, k := Shape(n.Kids[0], atoms)
		p := 1.0
		for i := 0; i < w1; i++ {
			p *= float64(c1)
			if p > 1e9 {
				break
			}
		}
		nw := int(p)
		if nw < 1 {
			nw = 1
		}
		return nw, w1, k + p
	case KOr:
		for _, k := range n.Kids {
			w1, c1, k1 := Shape(k, atoms)
			w += w1
			if c1 > c {
				c = c1
			}
			cost += k1
		}
		return
	default:
		w = 1
		for _, k := range n.Kids {
			w1, c1, k1 := Shape(k, atoms)
			w *= w1
			c += c1
			cost += k1
		}
		return
	}
}
