package ref

import (
	"github.com/spq/pkappa2/internal/index"
)

// FakeConverter is a harness-side implementation of the exported ConverterAccess interface:
// cached converter output per stream id.
type FakeConverter map[uint64][]Chunk

func (f FakeConverter) Data(stream *index.Stream, moreDetails bool) ([]index.Data, uint64, uint64, bool, error) {
	ch, ok := f[stream.ID()]
	if !ok {
		return nil, 0, 0, false, nil
	}
	var out []index.Data
	var cb, sb uint64
	for _, c := range ch {
		out = append(out, index.Data{Direction: index.Direction(c.Dir), Content: c.Data})
		if c.Dir == DirC2S {
			cb += uint64(len(c.Data))
		} else {
			sb += uint64(len(c.Data))
		}
	}
	return out, cb, sb, true, nil
}

func (f FakeConverter) DataForSearch(streamID uint64) ([2][]byte, [][2]int, uint64, uint64, bool, error) {
	ch, ok := f[streamID]
	if !ok {
		return [2][]byte{}, [][2]int{}, 0, 0, false, nil
	}
	var buf [2][]byte
	sizes := [][2]int{{}}
	for _, c := range ch {
		if len(c.Data) == 0 {
			continue
		}
		buf[c.Dir] = append(buf[c.Dir], c.Data...)
		last := sizes[len(sizes)-1]
		last[c.Dir] += len(c.Data)
		sizes = append(sizes, last)
	}
	return buf, sizes, uint64(len(buf[0])), uint64(len(buf[1])), true, nil
}
