// Package c11: tag management calls are total, atomic and keep the tag graph well-formed.
// Breadth-first search over sequences of tag API calls on the real service (4 streams imported,
// background jobs drained after every call); every transition runs in a supervised worker process
// because a defect here kills or wedges the service goroutine.
package c11

import (
	"encoding/json"
	"fmt"
	"os"
	"os/exec"
	"path/filepath"
	"regexp"
	"sort"
	"strconv"
	"strings"
	"time"

	"github.com/spq/pkappa2/internal/index/manager"
	"github.com/spq/pkappa2/verifx/mc"
	"github.com/spq/pkappa2/verifx/svc"
)

var menu = []string{
	"addtag:tag/a=cport:1", "addtag:tag/b=tag:a", "addtag:tag/c=-tag:b sport:53", "addtag:tag/a=cdata:foo", "addtag:mark/m=id:0",
	"addtag:mark/x=cport:1", "addtag:bad=cport:1", "addtag:tag/=cport:1", "addtag:tag/s=tag:s", "addtag:tag/d=tag:zz", "addtag:tag/e=cport:(",
	"addtag:service/v=sport:80", "addtag:tag/t=ltime:-1h:",
	// references made inside a sub-query are references too
	// an edit that makes a reference chain of depth two / three (the edit walks the graph, adding a tag does not)
	"updtag:tag/t=tag:b", "updtag:tag/t=-tag:c", "updtag:tag/c=tag:b",
	// a definition that refers to an existing and to a missing tag (the order in which the service visits them is a map order)
	"addtag:tag/e2=tag:a tag:zz", "addtag:tag/e3=-tag:zz tag:b", "updtag:tag/c=tag:a tag:zz",
	"addtag:tag/q=@x:tag:a", "updtag:tag/a=tag:q", "updtag:tag/q=@x:tag:b", "deltag:tag/q",
	"updtag:tag/a=tag:b", "updtag:tag/a=tag:zz", "updtag:tag/a=sport:80", "updtag:tag/b=cport:2", "updtag:tag/zz=cport:1", "updtag:tag/a=tag:a", "updtag:tag/b=tag:c", "updtag:mark/m=cport:1",
	"color:tag/a=#123456", "color:tag/zz=#123456",
	"rename:tag/a=tag/a2", "rename:tag/b=tag/a", "rename:tag/a=service/a", "rename:tag/b=tag/b2", "rename:tag/a=tag/",
	// calls that ask for what already is: a rename to the tag's own name, the definition it already has
	"rename:tag/b=tag/b", "rename:tag/a=tag/a", "updtag:tag/b=tag:a",
	"deltag:tag/a", "deltag:tag/b", "deltag:tag/zz", "deltag:mark/m",
	"markadd:mark/m=1", "markadd:mark/m=99", "markadd:tag/a=1", "markdel:mark/m=0", "markadd:mark/m=", "markadd:mark/zz=1",
	// a tag that refers to a mark, a mark that is emptied, deleted or extended while referenced
	"addtag:mark/n=id:1", "addtag:tag/rm=mark:n", "markdel:mark/n=1", "markadd:mark/n=2", "deltag:mark/n", "rename:mark/n=mark/n2",
	"converters:tag/a=conv", "converters:tag/a=nope", "converters:tag/b=conv", "converters:tag/a=", "converters:tag/zz=conv",
	// selections of two converters, a selection that names one converter twice, a known next to an unknown one
	"converters:tag/a=conv,conv2", "converters:tag/a=conv,conv", "converters:tag/a=conv2,nope",
	// a tag that carries a converter gets a definition that may not carry one (data filter); the selection is changed afterwards
	"updtag:tag/a=cdata:foo", "converters:tag/a=conv2",
}

type caseIn struct {
	Path []int `json:"p"`
}

type caseOut struct {
	Canon string `json:"canon"`
}

func tagDump(st manager.VerifState) string {
	var sb strings.Builder
	for _, t := range st.Tags {
		fmt.Fprintf(&sb, "%s|%s|%s|%v|m%v|u%v|r%v\n", t.Name, t.Definition, t.Color, t.Converters, t.Matches, t.Uncertain, t.ReferencedBy)
	}
	return sb.String()
}

var refRe = regexp.MustCompile(`(?:^|[^A-Za-z0-9_])(tag|service|mark|generated):([A-Za-z0-9_]+)`)

// refsOfDefinition reads the tags a definition refers to from its text (the menu's definitions are
// simple enough for a token scan), independent of the feature lists the service keeps per tag.
func refsOfDefinition(def string) []string {
	seen := map[string]bool{}
	var out []string
	for _, m := range refRe.FindAllStringSubmatch(def, -1) {
		n := m[1] + "/" + m[2]
		if !seen[n] {
			seen[n] = true
			out = append(out, n)
		}
	}
	sort.Strings(out)
	return out
}

// graphCheck: no dangling reference, no cycle, referencedBy mirrors the definitions.
func graphCheck(st manager.VerifState, infos []manager.TagInfo) []string {
	var out []string
	byName := map[string]manager.VerifTag{}
	for i, t := range st.Tags {
		// the references are those of the definition as written; what the service derived from it must agree
		fromText := refsOfDefinition(t.Definition)
		if strings.Join(fromText, ",") != strings.Join(t.ReferencedTags, ",") {
			out = append(out, fmt.Sprintf("referenced-tags: tag %s is defined as %q, which refers to %v; the service works with the references %v", t.Name, t.Definition, fromText, t.ReferencedTags))
		}
		st.Tags[i].ReferencedTags = fromText
		t.ReferencedTags = fromText
		byName[t.Name] = t
	}
	refBy := map[string][]string{}
	for _, t := range st.Tags {
		for _, r := range t.ReferencedTags {
			if _, ok := byName[r]; !ok {
				out = append(out, fmt.Sprintf("dangling: tag %s (%s) references missing tag %s", t.Name, t.Definition, r))
			}
			refBy[r] = append(refBy[r], t.Name)
		}
	}
	// cycles
	state := map[string]int{}
	var visit func(n string) bool
	visit = func(n string) bool {
		switch state[n] {
		case 1:
			return true
		case 2:
			return false
		}
		state[n] = 1
		for _, r := range byName[n].ReferencedTags {
			if _, ok := byName[r]; ok && visit(r) {
				return true
			}
		}
		state[n] = 2
		return false
	}
	for n := range byName {
		if visit(n) {
			out = append(out, fmt.Sprintf("cycle: tag %s is part of a reference cycle", n))
			break
		}
	}
	for _, t := range st.Tags {
		want := append([]string{}, refBy[t.Name]...)
		sort.Strings(want)
		if strings.Join(want, ",") != strings.Join(t.ReferencedBy, ",") {
			out = append(out, fmt.Sprintf("referenced-by: tag %s records being referenced by %v, the definitions say %v", t.Name, t.ReferencedBy, want))
		}
	}
	for _, ti := range infos {
		if ti.Referenced != (len(refBy[ti.Name]) != 0) {
			out = append(out, fmt.Sprintf("referenced-flag: ListTags shows %s with Referenced=%v, the definitions say %v", ti.Name, ti.Referenced, refBy[ti.Name]))
		}
	}
	return out
}

func pathName(p []int) string {
	n := make([]string, len(p))
	for i, x := range p {
		n[i] = menu[x]
	}
	return strings.Join(n, " ; ")
}

func drain(w *svc.World) error {
	for i := 0; len(w.ParkedNames()) != 0; i++ {
		if i > 80 {
			return fmt.Errorf("jobs do not settle: %v", w.ParkedNames())
		}
		if err := w.Step(w.ParkedNames()[0]); err != nil {
			return err
		}
	}
	return nil
}

// modes of the exploration: what happens to the background jobs between two calls
var modes = []string{
	"jobs drained after every call",
	"jobs held where they start (no job makes a step until the sequence ends)",
	"jobs held before their completion (every job that starts runs its body, its completion is delivered only when the sequence ends)",
}

func parkedDump(w *svc.World) string {
	var sb strings.Builder
	for _, k := range w.ParkedNames() {
		j := w.Parked(k)
		if j == nil {
			continue
		}
		fmt.Fprintf(&sb, "job %s.%s", j.Kind, j.Gate)
		for _, a := range j.Args {
			if s, ok := a.(string); ok {
				sb.WriteString(" " + s)
			}
		}
		sb.WriteString("\n")
	}
	return sb.String()
}

// runCase replays a call sequence on a fresh service and checks the last call.
func runCase(convBin string, path []int, mode int) mc.CaseResult {
	var res mc.CaseResult
	name := pathName(path)
	if mode != 0 {
		name = "[" + modes[mode] + "] " + name
	}
	bad := func(sym, f string, a ...any) {
		key := menu[path[len(path)-1]] + " after [" + pathName(path[:len(path)-1]) + "]"
		if mode != 0 {
			key += fmt.Sprintf(" mode %d", mode)
		}
		res.Violations = append(res.Violations, mc.Violation{Symptom: sym, Key: key,
			Msg: fmt.Sprintf("after [%s]: ", name) + fmt.Sprintf(f, a...), Replay: map[string]any{"calls": strings.Split(pathName(path), " ; "), "mode": modes[mode]}})
	}
	w, err := svc.NewWorld(convBin)
	if err != nil {
		mc.Fatal("%v", err)
	}
	defer w.Destroy()
	if err := w.ApplyAPI("import:P1+P2"); err != nil {
		mc.Fatal("%v", err)
	}
	if err := drain(w); err != nil {
		mc.Fatal("setup: %v", err)
	}
	canonHeld := ""
	for i, c := range path {
		last := i == len(path)-1
		before := ""
		if last {
			before = tagDump(w.Mgr.VerifDump())
		}
		nEv := len(w.Events)
		if err := w.ApplyAPI(menu[c]); err != nil {
			mc.Fatal("%s: %v", menu[c], err)
		}
		result := w.Events[nEv]
		failed := strings.Contains(result, "-> error")
		if last {
			st := w.Mgr.VerifDump()
			after := tagDump(st)
			if failed && before != after {
				bad("c11.error-but-changed", "call %s returned an error but the tags changed:\n--- before\n%s--- after\n%s", result, before, after)
			}
			if failed && before == after {
				// a rejected call left everything as it was, so it can be made again: the order in which the
				// service walks its maps while validating differs from call to call
				for rep := 0; rep < 7 && before == after; rep++ {
					if err := w.ApplyAPI(menu[c]); err != nil {
						mc.Fatal("%s: %v", menu[c], err)
					}
					st = w.Mgr.VerifDump()
					after = tagDump(st)
					if before != after {
						bad("c11.error-but-changed", "call %s returned an error, repeated %d more times it changed the tags:\n--- before\n%s--- after\n%s", result, rep+1, before, after)
					}
				}
			}
			if !failed {
				res.Counters = map[string]int64{"applied": 1}
				checkApplied(menu[c], st, bad)
			}
			for _, g := range graphCheck(st, w.Mgr.ListTags()) {
				bad("c11.graph."+strings.SplitN(g, ":", 2)[0], "%s", g)
			}
			res.Outcome = fmt.Sprint(failed)
		}
		switch mode {
		case 1:
			// nothing moves
		case 2:
			for _, k := range w.ParkedNames() {
				if j := w.Parked(k); j != nil && j.Gate == "begin" {
					if err := w.Step(k); err != nil {
						if last {
							bad("c11.does-not-settle", "%v", err)
							return res
						}
						mc.Fatal("%s: %v", name, err)
					}
				}
			}
		}
		if mode != 0 && !last {
			continue
		}
		if mode != 0 {
			// the state successors are built on: tags and parked jobs before anything is drained
			canonHeld = tagDump(w.Mgr.VerifDump()) + parkedDump(w)
		}
		if err := drain(w); err != nil {
			if last {
				bad("c11.does-not-settle", "%v", err)
				return res
			}
			mc.Fatal("%s: %v", name, err)
		}
	}
	st := w.Mgr.VerifDump()
	for _, g := range graphCheck(st, w.Mgr.ListTags()) {
		bad("c11.graph."+strings.SplitN(g, ":", 2)[0], "(after the background jobs ran) %s", g)
	}
	canon := tagDump(st)
	if mode != 0 {
		canon = canonHeld
	}
	out, _ := json.Marshal(caseOut{Canon: canon})
	res.Sample = string(out)
	return res
}

// checkApplied: a call that returned nil must have had its effect.
func checkApplied(call string, st manager.VerifState, bad func(string, string, ...any)) {
	op, arg, _ := strings.Cut(call, ":")
	name, val, _ := strings.Cut(arg, "=")
	find := func(n string) *manager.VerifTag {
		for i := range st.Tags {
			if st.Tags[i].Name == n {
				return &st.Tags[i]
			}
		}
		return nil
	}
	switch op {
	case "addtag", "updtag":
		if t := find(name); t == nil || (!strings.HasPrefix(name, "mark/") && t.Definition != val) {
			bad("c11.applied-without-effect", "%s returned nil but tag %s is %v", call, name, t)
		}
	case "color":
		if t := find(name); t == nil || t.Color != val {
			bad("c11.applied-without-effect", "%s returned nil but tag %s is %v", call, name, t)
		}
	case "rename":
		if name == val {
			if find(name) == nil {
				bad("c11.applied-without-effect", "%s returned nil but the tag does not exist", call)
			}
		} else if find(name) != nil || find(val) == nil {
			bad("c11.applied-without-effect", "%s returned nil but old name present=%v new name present=%v", call, find(name) != nil, find(val) != nil)
		}
	case "markadd", "markdel":
		t := find(name)
		if t == nil {
			bad("c11.applied-without-effect", "%s returned nil but tag %s does not exist", call, name)
			break
		}
		for _, f := range strings.Split(val, ",") {
			id, err := strconv.Atoi(f)
			if err != nil {
				continue
			}
			in := false
			for _, m := range t.Matches {
				if int(m) == id {
					in = true
				}
			}
			if in != (op == "markadd") {
				bad("c11.applied-without-effect", "%s returned nil but stream %d marked=%v (tag %s: %s, matches %v)", call, id, in, name, t.Definition, t.Matches)
			}
		}
	case "deltag":
		if find(arg) != nil {
			bad("c11.applied-without-effect", "%s returned nil but the tag still exists", call)
		}
	case "converters":
		t := find(name)
		if t == nil {
			bad("c11.applied-without-effect", "%s returned nil but tag %s does not exist", call, name)
			break
		}
		want := map[string]bool{}
		for _, c := range strings.Split(val, ",") {
			if c != "" {
				want[c] = true
			}
		}
		got := map[string]bool{}
		for _, c := range t.Converters {
			got[c] = true
		}
		same := len(want) == len(got)
		for c := range want {
			if !got[c] {
				same = false
			}
		}
		if !same {
			bad("c11.applied-without-effect", "%s returned nil but tag %s has the converters %v", call, name, t.Converters)
		}
	}
}

func Run(tier string) int {
	depth := 4
	budget := 110 * time.Second
	if tier == "thorough" {
		depth = 5
		budget = 14 * time.Minute
	}
	convBin := mc.VerifDir + "/bin/vconv"
	frontierFile := os.Getenv("VERIF_C11_FRONTIER")
	mode, _ := strconv.Atoi(os.Getenv("VERIF_C11_MODE"))
	if mc.IsWorker() {
		var frontier [][]int
		b, err := os.ReadFile(frontierFile)
		if err != nil {
			mc.Fatal("%v", err)
		}
		json.Unmarshal(b, &frontier)
		job := mc.ShardedJob{N: len(frontier), CaseName: func(i int) string { return pathName(frontier[i]) }, Run: func(i int) mc.CaseResult { return runCase(convBin, frontier[i], mode) }}
		job.Execute(nil)
		return 0
	}
	rep := mc.NewReporter("C11", tier, "model_checking")
	rep.Driver = "c11"
	deadline := time.Now().Add(budget)
	tmp, err := os.MkdirTemp("", "verif-c11-")
	if err != nil {
		mc.Fatal("%v", err)
	}
	defer os.RemoveAll(tmp)
	var states, transitions, applied int64
	outcomes := map[string]int{}
	var samples []string
	complete := true
	depthDone := depth
	perMode := map[string]any{}
	end := deadline
	for mode = 0; mode < len(modes); mode++ {
		os.Setenv("VERIF_C11_MODE", strconv.Itoa(mode))
		// what earlier modes did not use is available to the later ones
		deadline = time.Now().Add(time.Until(end) / time.Duration(len(modes)-mode))
		seen := map[string]bool{}
		parents := [][]int{{}}
		modeStates, modeDepth := int64(0), 0
		for d := 1; d <= depth && len(parents) != 0; d++ {
			var frontier [][]int
			for _, p := range parents {
				for c := range menu {
					frontier = append(frontier, append(append([]int{}, p...), c))
				}
			}
			ff := fmt.Sprintf("%s/frontier%d.json", tmp, d)
			b, _ := json.Marshal(frontier)
			os.WriteFile(ff, b, 0o644)
			os.Setenv("VERIF_C11_FRONTIER", ff)
			results := make([]string, len(frontier))
			job := mc.ShardedJob{N: len(frontier), Timeout: 45 * time.Second, Deadline: deadline, CaseName: func(i int) string { return pathName(frontier[i]) }}
			st := job.ExecuteCollect(rep, func(i int, r mc.CaseResult) { results[i] = r.Sample })
			transitions += st.Done
			applied += st.Counters["applied"]
			modeName := modes[mode]
			for k, v := range st.Outcomes {
				outcomes[k] += v
			}
			for _, i := range st.Hangs {
				rep.Report(mc.Violation{Symptom: "c11.hang", Key: menu[frontier[i][len(frontier[i])-1]] + " after [" + pathName(frontier[i][:len(frontier[i])-1]) + "]",
					Msg: fmt.Sprintf("[%s] after [%s] the service does not answer any more (no result within 45 s; a call or a background job never returns)", modeName, pathName(frontier[i])), Replay: map[string]any{"calls": strings.Split(pathName(frontier[i]), " ; "), "mode": modeName}})
			}
			for _, i := range st.Crashes {
				rep.Report(mc.Violation{Symptom: "c11.crash", Key: menu[frontier[i][len(frontier[i])-1]] + " after [" + pathName(frontier[i][:len(frontier[i])-1]) + "]",
					Msg: fmt.Sprintf("[%s] after [%s] the process died: %s", modeName, pathName(frontier[i]), firstLines(st.CrashText[i], 6)), Replay: map[string]any{"calls": strings.Split(pathName(frontier[i]), " ; "), "mode": modeName}})
			}
			if st.TimedOut {
				complete = false
				break
			}
			modeDepth = d
			var next [][]int
			for i, s := range results {
				if s == "" {
					continue // crashed / hung / violating without canon: not expanded
				}
				var o caseOut
				json.Unmarshal([]byte(s), &o)
				if seen[o.Canon] {
					continue
				}
				seen[o.Canon] = true
				states++
				modeStates++
				next = append(next, frontier[i])
				if len(samples) < 8 && states%17 == 1 {
					samples = append(samples, pathName(frontier[i]))
				}
			}
			parents = next
		}
		if modeDepth < depthDone {
			depthDone = modeDepth
		}
		perMode[modes[mode]] = map[string]any{"states": modeStates, "depth_completed": modeDepth}
	}
	cv := rep.Coverage
	cv["modes"] = perMode
	cv["states"] = states
	cv["transitions"] = transitions
	cv["traces_validated_against_impl"] = transitions
	cv["evaluations"] = transitions
	cv["distinct_nontrivial"] = applied
	cv["rule"] = "BFS over sequences of tag API calls (65-call menu: valid and invalid names, definitions, references to existing/missing/self/cycle-closing tags, query/colour/name updates, marks with known/unknown ids, converter attach/detach, deletes) on the real service holding 3 imported streams, in three modes (background jobs drained after every call / every job held where it starts until the sequence ends / every job held before its completion until the sequence ends; in the held modes the references and flags are checked while the jobs are parked and again after they ran); a state is the complete tag table plus the parked jobs; every transition runs in a supervised worker process; non-trivial = the call was applied (returned nil)"
	cv["menu"] = len(menu)
	cv["depth_completed"] = depthDone
	cv["depth_bound"] = depth
	cv["distinct_outcomes"] = len(outcomes) + int(states)
	cv["samples"] = samples
	cv["exhaustive"] = complete
	if !complete {
		cv["caps_hit"] = []string{"deadline"}
	}
	httpLayer(rep)
	rep.Assumptions = []string{"each call takes one UpdateTagOperation, as the HTTP API does (the HTTP family sends requests that name two)", "liveness is judged by a 45 s watchdog on calls that normally take milliseconds"}
	if states < 5 {
		mc.Fatal("vacuous: %d states", states)
	}
	return rep.Finish()
}

func firstLines(s string, n int) string {
	l := strings.Split(s, "\n")
	if len(l) > n {
		l = l[:n]
	}
	return strings.Join(l, " / ")
}

// httpLayer runs the HTTP family (overlay test TestVerifC11HTTP in package main, compiled into bin/c19.test): the
// tag routes of the real router with one and with two `method` values per PATCH request, add and delete requests
// with missing, repeated and contradictory parameters; a request that is not answered 2xx must leave the tags unchanged.
func httpLayer(rep *mc.Reporter) {
	bin := filepath.Join(mc.VerifDir, "bin", "c19.test")
	if _, err := os.Stat(bin); err != nil {
		rep.Coverage["http_layer"] = "not run: bin/c19.test is missing"
		return
	}
	tmp, err := os.MkdirTemp("", "verif-c11h-")
	if err != nil {
		mc.Fatal("%v", err)
	}
	defer os.RemoveAll(tmp)
	out := filepath.Join(tmp, "c11h.json")
	cmd := exec.Command(bin, "-test.run", "^TestVerifC11HTTP$", "-test.timeout", "10m", "-test.count", "1")
	cmd.Dir = tmp
	cmd.Env = append(os.Environ(), "VERIF_C11H_OUT="+out, "TZ=UTC", "TMPDIR="+tmp)
	b, runErr := cmd.CombinedOutput()
	var r struct {
		Requests, Rejected, Accepted int
		Outcomes                     map[string]int
		Violations                   []struct{ Symptom, Key, Msg string }
		Error                        string
	}
	jb, err := os.ReadFile(out)
	if err != nil {
		// the test binary ended before it could write its result: when the Go runtime ended it inside repository code
		// (a panic of the service under these requests), that is what C11 forbids
		text := string(b)
		if i := strings.Index(text, "panic:"); i >= 0 && (strings.Contains(text[i:], "/internal/index/manager/") || strings.Contains(text[i:], "/internal/query/") || strings.Contains(text[i:], "/cmd/pkappa2/main.go")) {
			rep.Report(mc.Violation{Symptom: "c11.http-process-died", Key: firstLines(text[i:], 1), Msg: "the service died while the tag routes were being driven:\n" + firstLines(text[i:], 25),
				Replay: map[string]any{"run": "VERIF_C11H_OUT=/tmp/c11h.json /verif/bin/c19.test -test.run '^TestVerifC11HTTP$'"}})
			rep.Coverage["http_layer"] = "ended by a panic of the service (reported)"
			return
		}
		mc.Fatal("HTTP family wrote no result: %v %v\n%s", err, runErr, firstLines(text, 30))
	}
	if err := json.Unmarshal(jb, &r); err != nil {
		mc.Fatal("HTTP family: %v", err)
	}
	if r.Error != "" || (runErr != nil && len(r.Violations) == 0) {
		mc.Fatal("HTTP family: %s %v\n%s", r.Error, runErr, firstLines(string(b), 30))
	}
	for _, v := range r.Violations {
		rep.Report(mc.Violation{Symptom: v.Symptom, Key: v.Key, Msg: v.Msg, Replay: map[string]any{"request": v.Key, "run": "VERIF_C11H_OUT=/tmp/c11h.json /verif/bin/c19.test -test.run '^TestVerifC11HTTP$'"}})
	}
	rep.Coverage["http_requests"] = r.Requests
	rep.Coverage["http_requests_rejected"] = r.Rejected
	rep.Coverage["http_requests_accepted"] = r.Accepted
	rep.Coverage["http_status_counts"] = r.Outcomes
	rep.Coverage["http_rule"] = "PATCH /api/tags on four tag names x every one and every ordered pair of 14 (method, parameter) variants (acceptable and unacceptable values of change_color, change_query, change_name, converter_set, mark_add, mark_del) on a freshly restored tag set, PUT and DELETE with missing, repeated and contradictory parameters, through the real router; a request that is not answered 2xx must leave GET /api/tags unchanged"
}
