// c08run runs the C08 driver stand-alone: c08run [quick|thorough] | c08run -count [tier] | c08run -case '<json>'
package main

import (
	"encoding/json"
	"fmt"
	"os"

	"github.com/spq/pkappa2/verifx/c08"
	"github.com/spq/pkappa2/verifx/ref"
)

func main() {
	args := os.Args[1:]
	if len(args) >= 1 && args[0] == "-count" {
		tier := "quick"
		if len(args) > 1 {
			tier = args[1]
		}
		sets, _, snap := c08.EnumFileSets(tier)
		per := map[string]int{}
		hists, imports := 0, 0
		for _, s := range sets {
			per[s.Files.Set]++
			hists += len(s.Hists) + 1
			imports += 1<<(len(s.Files.Cuts)+1) - 1
			for _, h := range s.Hists {
				imports += len(h.Batches)
			}
		}
		fmt.Println("file sets", len(sets), "histories", hists, "imports<=", imports, "snapshot histories", snap, per)
		return
	}
	if len(args) >= 2 && args[0] == "-case" {
		var c c08.Case
		if err := json.Unmarshal([]byte(args[1]), &c); err != nil {
			fmt.Fprintln(os.Stderr, err)
			os.Exit(2)
		}
		cp, err := ref.Build(c.Files)
		if err != nil {
			fmt.Fprintln(os.Stderr, err)
			os.Exit(2)
		}
		if len(cp.Packets) < 200 {
			fmt.Print(cp.Describe())
		}
		for _, l := range c08.Replay(c) {
			fmt.Println(l)
		}
		return
	}
	tier := "quick"
	if len(args) > 0 {
		tier = args[0]
	}
	os.Exit(c08.Run(tier))
}
