// Package c08: the import result does not depend on how and when captures arrive.
//
// For every file set of the menu (captures of ref/traffic.go cut into two or three files) every
// ordered set partition of the files into import batches (this covers one call, one by one, batches
// and every arrival order), with and without builder restarts between the batches, is run through
// the real builder the way manager.importPcapJob drives it.  After every batch the visible set is
// compared with the one-call import of the same files; stream ids are tracked along the history.
// Thorough tier: captures large enough to make the importer write a reassembly snapshot, with the
// snapshot file kept or deleted before the next import.
package c08

import (
	"fmt"
	"io"
	"log"
	"math/bits"
	"os"
	"sort"
	"strings"
	"sync"
	"sync/atomic"
	"time"

	"github.com/spq/pkappa2/verifx/c05"
	"github.com/spq/pkappa2/verifx/mc"
	"github.com/spq/pkappa2/verifx/ref"
)

// History is one way the files of a set reach the importer.
type History struct {
	Batches  [][]int `json:"batches"`             // file numbers per FromPcap call
	Restart  []bool  `json:"restart,omitempty"`   // [i]: new builder before batch i+1
	DropSnap []bool  `json:"drop_snap,omitempty"` // [i]: snapshot files deleted (and new builder) before batch i+1
}

func (h History) String() string {
	var sb strings.Builder
	for i, b := range h.Batches {
		if i > 0 {
			switch {
			case h.DropSnap != nil && h.DropSnap[i-1]:
				sb.WriteString(" nosnap ")
			case h.Restart != nil && h.Restart[i-1]:
				sb.WriteString(" restart ")
			default:
				sb.WriteString(" ")
			}
		}
		sb.WriteString(strings.ReplaceAll(fmt.Sprint(b), " ", ","))
	}
	return sb.String()
}

type Case struct {
	Files ref.Case `json:"files"`
	Hist  History  `json:"history"`
}

func (c Case) Key() string { return c.Files.Key() + " hist=" + c.Hist.String() }

// FileSet is a capture with all histories to run on it.
type FileSet struct {
	Files ref.Case
	Hists []History
	Snap  bool
}

// orderedPartitions returns every ordered set partition of {0..n-1}; the files inside a batch
// are in chronological order.
func orderedPartitions(n int) [][][]int {
	var out [][][]int
	var rec func(rest []int, acc [][]int)
	rec = func(rest []int, acc [][]int) {
		if len(rest) == 0 {
			out = append(out, append([][]int{}, acc...))
			return
		}
		// choose a non-empty subset of rest as the next batch
		for m := 1; m < 1<<len(rest); m++ {
			var b, r []int
			for i, f := range rest {
				if m&(1<<i) != 0 {
					b = append(b, f)
				} else {
					r = append(r, f)
				}
			}
			rec(r, append(acc, b))
		}
	}
	all := make([]int, n)
	for i := range all {
		all[i] = i
	}
	rec(all, nil)
	sort.SliceStable(out, func(i, j int) bool { return len(out[i]) < len(out[j]) })
	return out
}

func histories(nfiles int, allRestartMasks bool) []History {
	var out []History
	for _, p := range orderedPartitions(nfiles) {
		gaps := len(p) - 1
		if gaps == 0 {
			continue // the one-call import is the reference itself
		}
		masks := []int{0, 1<<gaps - 1}
		if allRestartMasks {
			masks = nil
			for m := 0; m < 1<<gaps; m++ {
				masks = append(masks, m)
			}
		}
		for _, m := range masks {
			h := History{Batches: p}
			if m != 0 {
				h.Restart = make([]bool, gaps)
				for i := range h.Restart {
					h.Restart[i] = m&(1<<i) != 0
				}
			}
			out = append(out, h)
		}
	}
	return out
}

// EnumFileSets lists the file sets of a tier.
func EnumFileSets(tier string) (sets []FileSet, rule string, snapshotCases int) {
	thorough := tier == "thorough"
	touching, overlapping, unsorted := 0, 0, 0
	threeFileQuick := map[string]bool{"tcp4": true, "udp4": true, "reuse-slow": true, "tcp-idle": true, "udp-idle": true, "tcp+udp": true, "udp-late-starter": true}
	if thorough {
		// snapshot sets first: they are the long-running items
		for _, set := range ref.Sets() {
			if !set.Huge {
				continue
			}
			il := set.Interleaves[0]
			cuts, err := ref.SnapshotCuts(set)
			if err != nil {
				mc.Fatal("%v", err)
			}
			fs := FileSet{Files: ref.Case{Set: set.Name, Interleave: il, Link: "eth", Cuts: cuts}, Snap: true}
			if len(cuts) == 1 {
				for _, b := range [][][]int{{{0}, {1}}, {{1}, {0}}} {
					fs.Hists = append(fs.Hists, History{Batches: b}, History{Batches: b, Restart: []bool{true}}, History{Batches: b, DropSnap: []bool{true}})
				}
				snapshotCases += len(fs.Hists)
				sets = append(sets, fs)
				continue
			}
			for _, b := range [][][]int{
				{{0}, {1}, {2}}, {{0, 1}, {2}}, {{0}, {1, 2}}, {{1}, {0}, {2}}, {{0}, {2}, {1}}, {{2}, {1}, {0}}, {{1}, {2}, {0}},
			} {
				gaps := len(b) - 1
				fs.Hists = append(fs.Hists, History{Batches: b})
				all := make([]bool, gaps)
				for i := range all {
					all[i] = true
				}
				fs.Hists = append(fs.Hists, History{Batches: b, Restart: all})
				fs.Hists = append(fs.Hists, History{Batches: b, DropSnap: all})
				if gaps == 2 {
					fs.Hists = append(fs.Hists, History{Batches: b, DropSnap: []bool{false, true}})
				}
			}
			snapshotCases += len(fs.Hists)
			sets = append(sets, fs)
			// the same files with frames that carry no stream in front of and between the first packets
			nfs := FileSet{Files: ref.Case{Set: set.Name, Interleave: il, Link: "eth", Cuts: cuts, Noise: "arp@0,lldp@1"}, Snap: true}
			nfs.Hists = append(nfs.Hists, History{Batches: [][]int{{0}, {1}, {2}}}, History{Batches: [][]int{{0, 1}, {2}}}, History{Batches: [][]int{{0}, {1}, {2}}, Restart: []bool{true, true}})
			snapshotCases += len(nfs.Hists)
			sets = append(sets, nfs)
		}
	}
	if !thorough {
		// one snapshot set in the quick tier: a packet of the observed flow carries exactly the
		// timestamp of the snapshot and the flow continues in the next capture
		for _, set := range ref.Sets() {
			if set.Name == "snap-mid" {
				// a late capture (older than the newest snapshot) with a restart after every import: the
				// snapshots on disk must be the ones the running service worked with
				cuts, err := ref.SnapshotCuts(set)
				if err != nil {
					mc.Fatal("%v", err)
				}
				fs := FileSet{Files: ref.Case{Set: set.Name, Interleave: set.Interleaves[0], Link: "eth", Cuts: cuts}, Snap: true}
				fs.Hists = append(fs.Hists, History{Batches: [][]int{{1}, {0}, {2}}, Restart: []bool{true, true}})
				snapshotCases += len(fs.Hists)
				sets = append(sets, fs)
				// frames that carry no stream (an ARP request first, an ICMP echo between the packets of the observed
				// connection) in the capture a later import has to go back to through the snapshot's packet references
				nfs := FileSet{Files: ref.Case{Set: set.Name, Interleave: set.Interleaves[0], Link: "eth", Cuts: cuts, Noise: "arp@0,icmp@2"}, Snap: true}
				nfs.Hists = append(nfs.Hists, History{Batches: [][]int{{0}, {1}, {2}}}, History{Batches: [][]int{{0, 1}, {2}}})
				snapshotCases += len(nfs.Hists)
				sets = append(sets, nfs)
				continue
			}
			if set.Name != "snap-trigger" && set.Name != "snap-longlived" && set.Name != "snap-boundary-last" && set.Name != "snap-handshake" {
				continue
			}
			cuts, err := ref.SnapshotCuts(set)
			if err != nil {
				mc.Fatal("%v", err)
			}
			fs := FileSet{Files: ref.Case{Set: set.Name, Interleave: set.Interleaves[0], Link: "eth", Cuts: cuts}, Snap: true}
			if len(cuts) == 1 {
				fs.Hists = append(fs.Hists, History{Batches: [][]int{{0}, {1}}}, History{Batches: [][]int{{0}, {1}}, Restart: []bool{true}})
				snapshotCases += len(fs.Hists)
				sets = append(sets, fs)
				continue
			}
			fs.Hists = append(fs.Hists, History{Batches: [][]int{{0, 1}, {2}}}, History{Batches: [][]int{{0}, {1}, {2}}, Restart: []bool{true, true}})
			snapshotCases += len(fs.Hists)
			sets = append(sets, fs)
		}
	}
	for _, set := range ref.Sets() {
		if set.Huge {
			continue
		}
		ils := set.Interleaves[:1]
		if thorough {
			ils = set.Interleaves
		}
		for _, il := range ils {
			n := ref.NumPackets(set, nil, il)
			// two files: every cut, plain and with equal timestamps across the cut
			for c := 1; c < n; c++ {
				for _, tie := range []bool{false, true} {
					fc := ref.Case{Set: set.Name, Interleave: il, Link: "eth", Cuts: []int{c}}
					if tie {
						fc.Devs = []ref.Dev{{Kind: "tie", I: c - 1}}
						if _, err := ref.Build(fc); err != nil {
							continue // tie across an idle gap
						}
					}
					sets = append(sets, FileSet{Files: fc, Hists: histories(2, true)})
				}
			}
			// three files: quick = six sets at every third position pair; thorough = every set and
			// every position pair under the default interleaving
			if (!thorough && !threeFileQuick[set.Name]) || il != set.Interleaves[0] {
				continue
			}
			for c1 := 1; c1 < n; c1++ {
				for c2 := c1 + 1; c2 < n; c2++ {
					if !thorough && !(c1%3 == 1 && (c2-c1)%3 == 0) && !(set.Name == "udp-idle" || set.Name == "udp4" || set.Name == "udp-late-starter") {
						continue
					}
					sets = append(sets, FileSet{Files: ref.Case{Set: set.Name, Interleave: il, Link: "eth", Cuts: []int{c1, c2}}, Hists: histories(3, thorough && threeFileQuick[set.Name])})
					// the same with two of the files touching (equal timestamps across a cut)
					for _, tieAt := range []int{c1, c2} {
						fc := ref.Case{Set: set.Name, Interleave: il, Link: "eth", Cuts: []int{c1, c2}, Devs: []ref.Dev{{Kind: "tie", I: tieAt - 1}}}
						if _, err := ref.Build(fc); err != nil {
							continue // tie across an idle gap
						}
						sets = append(sets, FileSet{Files: fc, Hists: histories(3, false)})
						touching++
					}
				}
			}
			// two sensors: captures that overlap in time (packets of the first k alternate between two
			// files), the rest in a third file
			for _, kind := range []string{"ovl", "ovlp"} {
				for k := 2; k < n; k++ {
					if !thorough && k%2 == 1 && k != n-1 {
						continue
					}
					fc := ref.Case{Set: set.Name, Interleave: il, Link: "eth", Assign: fmt.Sprintf("%s:%d", kind, k)}
					if _, err := ref.Build(fc); err != nil {
						continue
					}
					sets = append(sets, FileSet{Files: fc, Hists: histories(3, false)})
					overlapping++
					// one of the two overlapping captures is not sorted by time (written newest packet first)
					if kind == "ovl" && (thorough || k == n-1 || k == 4) {
						for _, u := range []string{"rev:0", "rev:1"} {
							uc := fc
							uc.Unsorted = u
							sets = append(sets, FileSet{Files: uc, Hists: histories(3, false)})
							unsorted++
						}
					}
				}
			}
		}
		if thorough {
			// renderings with one deviation (default interleaving), cut between the affected packets
			il := set.Interleaves[0]
			for _, devs := range ref.EnumDevLists(set, il, 1) {
				if len(devs) == 0 || devs[0].Kind == "tie" {
					continue
				}
				a, b, ok := ref.Affected(set, devs, il)
				if !ok {
					continue
				}
				for c := a + 1; c <= b; c++ {
					sets = append(sets, FileSet{Files: ref.Case{Set: set.Name, Devs: devs, Interleave: il, Link: "eth", Cuts: []int{c}}, Hists: histories(2, false)})
				}
			}
		}
	}
	rule = "file sets: every conversation set of the menu (default rendering; default interleaving in quick, every permitted interleaving in thorough) cut into two files at every position, " +
		"plain and with equal timestamps on both sides of the cut; cut into three files (quick: sets tcp4, udp4, tcp+udp, reuse-slow, tcp-idle, udp-idle at every third position pair; thorough: every set, every position pair, default interleaving); " +
		fmt.Sprintf("every three-file cut also with two of the files touching (equal timestamps across the first or the second cut; %d sets) and, instead of cuts, two overlapping captures (the first k packets alternate singly or in pairs between two files, the rest in a third; %d sets); ", touching, overlapping) +
		fmt.Sprintf("overlapping captures of which one is written newest packet first (a capture file that is not sorted by time; %d sets); ", unsorted) +
		"thorough also every rendering with one deviation cut between the two affected packets. histories: every ordered set partition of the files into batches " +
		"(= every batching x every arrival order) x builder restart between batches (two files: every subset of gaps; three files: none/all, thorough every subset for the six quick sets). " +
		"After every batch the visible set is compared with the one-call import of the same subset of files. " +
		"thorough: 4 snapshot sets (11120 short closed TCP connections as filler = 100080 packets, before / in the middle of / before the last ACK of the observed conversation) x 7 batchings x {plain, restart, snapshot file deleted before every / the last batch}. " +
		"non-trivial = history with at least two batches"
	return
}

type result struct {
	findings []finding
	states   []string
	finals   []string
	imports  int
	hists    int
	nontriv  int
}

type finding struct {
	sym, key, msg string
	replay        any
}

func diffCanon(want, got string) string {
	w, g := map[string]bool{}, map[string]bool{}
	for _, l := range strings.Split(want, "\n") {
		w[l] = true
	}
	for _, l := range strings.Split(got, "\n") {
		g[l] = true
	}
	var sb strings.Builder
	n := 0
	for _, l := range strings.Split(want, "\n") {
		if !g[l] && n < 6 {
			sb.WriteString("\n  only in one-call import: " + l)
			n++
		}
	}
	for _, l := range strings.Split(got, "\n") {
		if !w[l] && n < 12 {
			sb.WriteString("\n  only in this history:    " + l)
			n++
		}
	}
	return sb.String()
}

func short(s string, n int) string {
	if len(s) > n {
		return s[:n] + "…"
	}
	return s
}

// gapFilledLate: some batch holds a packet of a conversation whose timestamp lies strictly between two packets of the
// same conversation that earlier batches imported and that are more than five minutes apart with nothing of that
// conversation imported in between.
func gapFilledLate(cp *ref.Capture, batches [][]int) bool {
	batchOf := map[int]int{}
	for bi, b := range batches {
		for _, f := range b {
			batchOf[f] = bi
		}
	}
	for bi := 1; bi < len(batches); bi++ {
		earlier := map[int][]time.Time{} // conversation -> sorted packet times of batches < bi
		var now []*ref.Pkt
		for _, p := range cp.Packets {
			if p.Conv < 0 {
				continue
			}
			switch b := batchOf[p.File]; {
			case b < bi:
				earlier[p.Conv] = append(earlier[p.Conv], p.TS)
			case b == bi:
				now = append(now, p)
			}
		}
		for _, ts := range earlier {
			sort.Slice(ts, func(i, j int) bool { return ts[i].Before(ts[j]) })
		}
		for _, p := range now {
			ts := earlier[p.Conv]
			for i := 1; i < len(ts); i++ {
				if ts[i].Sub(ts[i-1]) > 5*time.Minute && p.TS.After(ts[i-1]) && p.TS.Before(ts[i]) {
					return true
				}
			}
		}
	}
	return false
}

// RunFileSet runs the references and all histories of one file set.
func RunFileSet(fs FileSet, deadline time.Time) (res result, timedOut bool) {
	cp, err := ref.Build(fs.Files)
	if err != nil {
		mc.Fatal("generator: %s: %v", fs.Files.Key(), err)
	}
	shared, err := c05.NewEnv()
	if err != nil {
		mc.Fatal("%v", err)
	}
	defer shared.Close()
	if err := shared.StageCapture(cp, ""); err != nil {
		mc.Fatal("writing captures: %v", err)
	}
	names := func(b []int) []string {
		out := make([]string, len(b))
		for i, f := range b {
			out[i] = cp.Files[f]
		}
		return out
	}
	maskOf := func(b []int) int {
		m := 0
		for _, f := range b {
			m |= 1 << f
		}
		return m
	}
	// references: one-call import of every subset of files that occurs as a prefix union
	type refResult struct {
		canon string
		nconv map[int]int // streams per conversation in the one-call import
	}
	refs := map[int]*refResult{}
	reference := func(mask int) (*refResult, *finding) {
		if c, ok := refs[mask]; ok {
			return c, nil
		}
		var b []int
		for f := range cp.Files {
			if mask&(1<<f) != 0 {
				b = append(b, f)
			}
		}
		env, err := c05.NewEnv()
		if err != nil {
			mc.Fatal("%v", err)
		}
		defer env.Close()
		if err := env.StageCapture(cp, shared.Stage); err != nil {
			mc.Fatal("%v", err)
		}
		res.imports++
		c := Case{Files: fs.Files, Hist: History{Batches: [][]int{b}}}
		if err := env.Import(names(b)); err != nil {
			return nil, &finding{"import.error", c.Key(), err.Error(), c}
		}
		vs, err := env.Visible()
		if err != nil {
			return nil, &finding{"import.error", c.Key(), "reading back: " + err.Error(), c}
		}
		r := &refResult{canon: c05.CanonSet(vs), nconv: map[int]int{}}
		for _, v := range vs {
			if ci, ok := cp.Owner(v.First()); ok {
				r.nconv[ci]++
			}
		}
		refs[mask] = r
		res.states = append(res.states, r.canon)
		return r, nil
	}
	full := 1<<len(cp.Files) - 1
	if _, f := reference(full); f != nil {
		res.findings = append(res.findings, *f)
		return
	}
	res.hists++ // the one-call history
	res.finals = append(res.finals, refs[full].canon)
	for _, h := range fs.Hists {
		if time.Now().After(deadline) {
			return res, true
		}
		c := Case{Files: fs.Files, Hist: h}
		func() {
			// a fact about the rendered capture that the case text does not show: the two fragments of one
			// datagram lie in different files and the file with the later fragment is imported first
			n0 := len(res.findings)
			defer func() {
				batchOf := map[int]int{}
				for bi, b := range h.Batches {
					for _, f := range b {
						batchOf[f] = bi
					}
				}
				// a batch brings packets of a conversation that lie inside an idle period of more than five minutes
				// (the importer's inactivity timeout) between packets of that conversation imported by earlier batches
				if gapFilledLate(cp, h.Batches) {
					for i := n0; i < len(res.findings); i++ {
						res.findings[i].key += " a-later-batch-fills-an-idle-period-of-more-than-five-minutes"
					}
				}
				for _, pr := range cp.SplitPairs() {
					if batchOf[pr[1]] < batchOf[pr[0]] {
						for i := n0; i < len(res.findings); i++ {
							res.findings[i].key += " later-fragment-of-a-datagram-imported-before-the-earlier-one"
						}
						break
					}
				}
			}()
			defer func() {
				if r := recover(); r != nil {
					res.findings = append(res.findings, finding{"panic", c.Key(), fmt.Sprint(r), c})
				}
			}()
			env, err := c05.NewEnv()
			if err != nil {
				mc.Fatal("%v", err)
			}
			defer env.Close()
			defer func() { res.imports += env.Imports }()
			if err := env.StageCapture(cp, shared.Stage); err != nil {
				mc.Fatal("%v", err)
			}
			res.hists++
			res.nontriv++
			seen := 0
			differed := false
			idConv := map[uint64]int{}
			for bi, b := range h.Batches {
				if bi > 0 {
					if h.DropSnap != nil && h.DropSnap[bi-1] {
						if _, err := env.DropSnapshots(); err != nil {
							mc.Fatal("%v", err)
						}
						if err := env.Restart(); err != nil {
							res.findings = append(res.findings, finding{"import.error", c.Key(), "restart: " + err.Error(), c})
							return
						}
					} else if h.Restart != nil && h.Restart[bi-1] {
						if err := env.Restart(); err != nil {
							res.findings = append(res.findings, finding{"import.error", c.Key(), "restart: " + err.Error(), c})
							return
						}
					}
				}
				if err := env.Import(names(b)); err != nil {
					res.findings = append(res.findings, finding{"import.error", c.Key(), err.Error(), c})
					return
				}
				seen |= maskOf(b)
				vs, err := env.Visible()
				if err != nil {
					res.findings = append(res.findings, finding{"import.error", c.Key(), "reading back: " + err.Error(), c})
					return
				}
				cs := c05.CanonSet(vs)
				res.states = append(res.states, cs)
				step := fmt.Sprintf("after batch %d (%v)", bi+1, names(b))
				wantRef, f := reference(seen)
				if f != nil {
					res.findings = append(res.findings, *f)
					return
				}
				want := wantRef.canon
				if f := idCheck(cp, c, vs, idConv, wantRef.nconv); f != nil {
					f.msg = step + ": " + f.msg
					res.findings = append(res.findings, *f)
				}
				if cs != want && !differed {
					differed = true // one report per history, at the first batch after which it shows
					res.findings = append(res.findings, finding{"c08.result-differs", c.Key(),
						fmt.Sprintf("%s the visible streams differ from importing the same %d file(s) in one call:%s", step, bits.OnesCount(uint(seen)), short(diffCanon(want, cs), 1500)), c})
				}
				if seen == full {
					res.finals = append(res.finals, cs)
				}
			}
		}()
	}
	return res, false
}

// idCheck verifies on one visible set that no conversation has two ids and that every id seen
// earlier still denotes the same conversation; idConv is updated.  A conversation whose imported
// part has an idle hole longer than the inactivity timeout (the file in between has not arrived
// yet) legitimately looks like two connections: two ids are only an error where the one-call
// import of the same files shows the conversation as one stream (refCount).
func idCheck(cp *ref.Capture, c Case, vs []*c05.VStream, idConv map[uint64]int, refCount map[int]int) *finding {
	convIDs := map[int][]uint64{}
	now := map[uint64]int{}
	for _, v := range vs {
		ci, ok := cp.Owner(v.First())
		if !ok {
			ci = -1
		}
		now[v.ID] = ci
		convIDs[ci] = append(convIDs[ci], v.ID)
	}
	var cis []int
	for ci := range convIDs {
		cis = append(cis, ci)
	}
	sort.Ints(cis)
	for _, ci := range cis {
		if ids := convIDs[ci]; len(ids) > 1 && ci >= 0 && refCount[ci] == 1 {
			var d []string
			for _, v := range vs {
				if o, _ := cp.Owner(v.First()); o == ci {
					d = append(d, fmt.Sprintf("id %d: %s", v.ID, short(v.Canon(), 300)))
				}
			}
			return &finding{"c08.two-ids", c.Key(), fmt.Sprintf("conversation %s is visible under ids %v: %s", cp.Truth[ci].Name, ids, strings.Join(d, " ; ")), c}
		}
	}
	var olds []uint64
	for id := range idConv {
		olds = append(olds, id)
	}
	sort.Slice(olds, func(i, j int) bool { return olds[i] < olds[j] })
	for _, id := range olds {
		ci, ok := now[id]
		if !ok {
			return &finding{"c08.id-changed", c.Key(), fmt.Sprintf("id %d (conversation %s) is no longer visible", id, cp.Truth[idConv[id]].Name), c}
		}
		if ci != idConv[id] {
			nn := "none"
			if ci >= 0 {
				nn = cp.Truth[ci].Name
			}
			return &finding{"c08.id-changed", c.Key(), fmt.Sprintf("id %d denoted conversation %s and now denotes %s", id, cp.Truth[idConv[id]].Name, nn), c}
		}
	}
	// a conversation that had an id keeps it
	had := map[int]uint64{}
	for id, ci := range idConv {
		had[ci] = id
	}
	for id, ci := range now {
		if old, ok := had[ci]; ok && old != id && ci >= 0 && len(convIDs[ci]) == 1 {
			return &finding{"c08.id-changed", c.Key(), fmt.Sprintf("conversation %s had id %d and is now visible as id %d", cp.Truth[ci].Name, old, id), c}
		}
	}
	for id, ci := range now {
		if ci >= 0 {
			idConv[id] = ci
		}
	}
	return nil
}

func Run(tier string) int {
	log.SetOutput(io.Discard)
	rep := mc.NewReporter("C08", tier, "model_checking")
	rep.Driver = "c08"
	budget := 120 * time.Second
	if tier == "thorough" {
		budget = 13 * time.Minute
	}
	deadline := time.Now().Add(budget)
	sets, rule, snapCases := EnumFileSets(tier)
	only := os.Getenv("VERIF_C08_ONLY")
	if only != "" {
		// debugging aid: restrict to file sets whose conversation set name starts with the value
		var f []FileSet
		for _, s := range sets {
			if strings.HasPrefix(s.Files.Set, only) {
				f = append(f, s)
			}
		}
		sets = f
		rule = "RESTRICTED to sets " + only + "*: " + rule
	}
	var evals, nontrivial, imports, filesets int64
	var timedOut int32
	var mu sync.Mutex
	outcomes := map[string]bool{}
	states := map[string]bool{}
	symptoms := map[string]int{}
	var samples []string
	sampleEvery := len(sets)/8 + 1
	var dump *os.File
	if p := os.Getenv("VERIF_ALL_FINDINGS"); p != "" {
		dump, _ = os.Create(p)
		defer dump.Close()
	}
	mc.ParFor(len(sets), func(i int) {
		if time.Now().After(deadline) {
			atomic.StoreInt32(&timedOut, 1)
			return
		}
		res, to := RunFileSet(sets[i], deadline)
		if to {
			atomic.StoreInt32(&timedOut, 1)
		}
		atomic.AddInt64(&filesets, 1)
		atomic.AddInt64(&evals, int64(res.hists))
		atomic.AddInt64(&nontrivial, int64(res.nontriv))
		atomic.AddInt64(&imports, int64(res.imports))
		for _, f := range res.findings {
			rep.Report(mc.Violation{Symptom: f.sym, Key: f.key, Msg: f.msg, Replay: f.replay})
		}
		mu.Lock()
		if dump != nil {
			for _, f := range res.findings {
				fmt.Fprintf(dump, "%s\t%s\t%s\n", f.sym, f.key, strings.ReplaceAll(f.msg, "\n", " "))
			}
		}
		for _, f := range res.findings {
			symptoms[f.sym]++
		}
		for _, s := range res.states {
			states[s] = true
		}
		for _, s := range res.finals {
			outcomes[s] = true
		}
		if i%sampleEvery == 0 && len(res.finals) > 0 {
			samples = append(samples, fmt.Sprintf("%s: %d histories, %d findings; one-call result: %s", sets[i].Files.Key(), res.hists, len(res.findings),
				short(strings.ReplaceAll(res.finals[0], "\n", " || "), 600)))
		}
		mu.Unlock()
	}, func(i int, text string) {
		c := Case{Files: sets[i].Files}
		rep.Report(mc.Violation{Symptom: "panic", Key: c.Key(), Msg: "panic: " + short(text, 1500), Replay: c})
	})
	sort.Strings(samples)
	c := rep.Coverage
	c["evaluations"] = evals
	c["distinct_nontrivial"] = nontrivial
	c["file_sets"] = filesets
	c["file_sets_enumerated"] = len(sets)
	c["imports"] = imports
	c["states"] = len(states)
	c["transitions"] = imports
	c["traces_validated_against_impl"] = evals
	c["distinct_outcomes"] = len(outcomes)
	c["snapshot_cases"] = snapCases
	c["rule"] = rule
	c["samples"] = samples
	c["symptom_counts"] = symptoms
	c["exhaustive"] = timedOut == 0
	if timedOut != 0 {
		c["caps_hit"] = []string{"deadline"}
	}
	rep.Assumptions = []string{
		"a capture file appears in the capture directory when it is uploaded, i.e. immediately before the FromPcap call that imports it (a restarted builder therefore knows exactly the imported files)",
		"restart = builder.New on the same directories; the index readers are kept (the manager re-opens the same files)",
		"stream identity across imports is defined by the ground-truth conversation the stream's first packet belongs to",
		"idle periods inside a conversation are 4 minutes at most (importer's inactivity timeout: 5); a conversation whose imported part has a longer hole (file in between not yet imported) may show as two streams until the hole is filled",
		"snapshot dimension only in the thorough tier (an import that creates a snapshot needs >= 100000 packets); snapshot_cases histories",
	}
	if len(outcomes) < 5 && timedOut == 0 && only == "" {
		mc.Fatal("vacuous: %d outcomes", len(outcomes))
	}
	return rep.Finish()
}

// Replay runs one case and prints what happens (used by c08run -case).
func Replay(c Case) []string {
	log.SetOutput(io.Discard)
	res, _ := RunFileSet(FileSet{Files: c.Files, Hists: []History{c.Hist}}, time.Now().Add(time.Hour))
	var out []string
	for _, f := range res.findings {
		out = append(out, fmt.Sprintf("FINDING %s [%s]: %s", f.sym, f.key, f.msg))
	}
	for i, s := range res.finals {
		out = append(out, fmt.Sprintf("final visible set %d (0 = one call):\n%s", i, s))
	}
	return out
}
