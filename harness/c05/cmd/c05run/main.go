// c05run runs the C05 driver stand-alone: c05run [quick|thorough] | c05run -count [tier] | c05run -case '<json>'
package main

import (
	"encoding/json"
	"fmt"
	"io"
	"log"
	"os"

	"github.com/spq/pkappa2/verifx/c05"
	"github.com/spq/pkappa2/verifx/ref"
)

func main() {
	args := os.Args[1:]
	if len(args) >= 1 && args[0] == "-count" {
		tier := "quick"
		if len(args) > 1 {
			tier = args[1]
		}
		cases, _ := c05.EnumCases(tier)
		per := map[string]int{}
		imports := 0
		for _, c := range cases {
			per[c.Case.Set]++
			imports += c.NumImports()
		}
		fmt.Println("cases", len(cases), "imports", imports, per)
		return
	}
	if len(args) >= 2 && args[0] == "-case" {
		log.SetOutput(io.Discard)
		var ic c05.ImportCase
		if err := json.Unmarshal([]byte(args[1]), &ic); err != nil {
			fmt.Fprintln(os.Stderr, err)
			os.Exit(2)
		}
		cp, err := ref.Build(ic.Case)
		if err != nil {
			fmt.Fprintln(os.Stderr, err)
			os.Exit(2)
		}
		fmt.Print(cp.Describe())
		fs, canon := c05.Replay(ic)
		fmt.Println("visible:\n" + canon)
		for _, f := range fs {
			fmt.Printf("FINDING %s: %s\n", f.Symptom, f.Msg)
		}
		return
	}
	tier := "quick"
	if len(args) > 0 {
		tier = args[0]
	}
	os.Exit(c05.Run(tier))
}
