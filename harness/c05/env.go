package c05

import (
	"bytes"
	"fmt"
	"os"
	"path/filepath"
	"sort"
	"strings"

	"github.com/spq/pkappa2/internal/index"
	"github.com/spq/pkappa2/internal/index/builder"
	"github.com/spq/pkappa2/internal/tools/bitmask"
	"github.com/spq/pkappa2/verifx/ref"
)

// Env is one private instance of the importer: its own pcap/index/snapshot directories, a
// builder and the stack of index readers produced so far.  It drives the builder exactly like
// manager.importPcapJob does: every FromPcap call receives the accumulated list of readers and
// the readers it returns are stacked on top (a stream id is served by the last reader holding it).
type Env struct {
	Root, Stage, PcapDir, IndexDir, SnapDir string
	B                                       *builder.Builder
	Readers                                 []*index.Reader
	Imports                                 int
	LastAdded, LastUpdated, LastReset       []uint64
}

// scratchBase is the parent of all scratch directories: a memory file system when there is one
// (the many small index files make the disk journal a bottleneck), else the default temp dir.
var scratchBase = func() string {
	if os.Getenv("TMPDIR") == "" {
		if d, err := os.MkdirTemp("/dev/shm", "verif-probe-"); err == nil {
			os.Remove(d)
			return "/dev/shm"
		}
	}
	return ""
}()

func NewEnv() (*Env, error) {
	root, err := os.MkdirTemp(scratchBase, "verif-imp-")
	if err != nil {
		return nil, err
	}
	e := &Env{Root: root, Stage: filepath.Join(root, "stage"), PcapDir: filepath.Join(root, "pcap"),
		IndexDir: filepath.Join(root, "index"), SnapDir: filepath.Join(root, "snapshots")}
	for _, d := range []string{e.Stage, e.PcapDir, e.IndexDir, e.SnapDir} {
		if err := os.Mkdir(d, 0o755); err != nil {
			os.RemoveAll(root)
			return nil, err
		}
	}
	if err := e.Restart(); err != nil {
		os.RemoveAll(root)
		return nil, err
	}
	return e, nil
}

// Restart models a service restart: a new builder is created over the same directories (it
// re-reads the capture directory and the newest snapshot file); the index readers survive
// (the manager re-opens the same index files).
func (e *Env) Restart() error {
	b, err := builder.New(e.PcapDir, e.IndexDir, e.SnapDir, nil)
	if err != nil {
		return err
	}
	e.B = b
	return nil
}

// DropSnapshots removes all reassembly snapshot files (they are an optimisation only).
func (e *Env) DropSnapshots() (int, error) {
	es, err := os.ReadDir(e.SnapDir)
	if err != nil {
		return 0, err
	}
	n := 0
	for _, f := range es {
		if strings.HasSuffix(f.Name(), ".snap") {
			if err := os.Remove(filepath.Join(e.SnapDir, f.Name())); err != nil {
				return n, err
			}
			n++
		}
	}
	return n, nil
}

// StageFrom makes the capture files available for later Import calls.  If shared is non-empty
// the files are hard-linked from that directory instead of being written again.
func (e *Env) StageCapture(cp *ref.Capture, shared string) error {
	if shared == "" {
		return cp.WriteFiles(e.Stage)
	}
	for _, f := range cp.Files {
		if err := os.Link(filepath.Join(shared, f), filepath.Join(e.Stage, f)); err != nil {
			return err
		}
	}
	return nil
}

// Import uploads the named files (they appear in the capture directory only now, like an upload
// through the web API) and imports them with one FromPcap call.
func (e *Env) Import(files []string) error {
	for _, f := range files {
		if err := os.Link(filepath.Join(e.Stage, f), filepath.Join(e.PcapDir, f)); err != nil {
			return err
		}
	}
	e.Imports++
	n, _, created, updated, reset, added, err := e.B.FromPcap(e.PcapDir, files, e.Readers)
	if err != nil {
		return fmt.Errorf("FromPcap(%v): %w", files, err)
	}
	if n != len(files) {
		return fmt.Errorf("FromPcap(%v) processed %d files", files, n)
	}
	e.Readers = append(e.Readers, created...)
	e.LastAdded, e.LastUpdated, e.LastReset = bits(added), bits(updated), bits(reset)
	return nil
}

func bits(bm *bitmask.LongBitmask) []uint64 {
	var out []uint64
	if bm == nil {
		return nil
	}
	for b := uint(0); bm.Next(&b); b++ {
		out = append(out, uint64(b))
	}
	return out
}

func (e *Env) Close() {
	for _, r := range e.Readers {
		r.Close()
	}
	e.Readers = nil
	os.RemoveAll(e.Root)
}

// VStream is one visible stream as a user of the index sees it.
type VStream struct {
	ID         uint64
	Proto      string
	ClientIP   string
	ServerIP   string
	ClientPort uint16
	ServerPort uint16
	Bytes      [2][]byte
	Runs       []ref.Run
	Packets    []ref.TruthPkt // Payload unused
}

func (v *VStream) First() ref.PktRef {
	if len(v.Packets) == 0 {
		return ref.PktRef{}
	}
	return v.Packets[0].Ref
}

// Visible reads the visible version of every stream id through the stack of readers.
func (e *Env) Visible() ([]*VStream, error) {
	owner := map[uint64]*index.Reader{}
	for _, r := range e.Readers {
		for id := range r.StreamIDs() {
			owner[id] = r
		}
	}
	ids := make([]uint64, 0, len(owner))
	for id := range owner {
		ids = append(ids, id)
	}
	sort.Slice(ids, func(i, j int) bool { return ids[i] < ids[j] })
	var out []*VStream
	for _, id := range ids {
		s, err := owner[id].StreamByID(id)
		if err != nil {
			return nil, err
		}
		if s == nil {
			return nil, fmt.Errorf("stream %d listed but not returned", id)
		}
		v := &VStream{ID: id, Proto: s.Protocol(), ClientIP: s.ClientHostIP(), ServerIP: s.ServerHostIP(),
			ClientPort: s.ClientPort, ServerPort: s.ServerPort}
		data, err := s.Data()
		if err != nil {
			return nil, fmt.Errorf("stream %d Data(): %w", id, err)
		}
		for _, d := range data {
			if len(d.Content) == 0 {
				continue
			}
			dir := int(d.Direction)
			v.Bytes[dir] = append(v.Bytes[dir], d.Content...)
			if n := len(v.Runs); n > 0 && v.Runs[n-1].Dir == dir {
				v.Runs[n-1].Data = append(v.Runs[n-1].Data, d.Content...)
			} else {
				v.Runs = append(v.Runs, ref.Run{Dir: dir, Data: append([]byte{}, d.Content...)})
			}
		}
		pk, err := s.Packets()
		if err != nil {
			return nil, fmt.Errorf("stream %d Packets(): %w", id, err)
		}
		for _, p := range pk {
			v.Packets = append(v.Packets, ref.TruthPkt{Ref: ref.PktRef{File: p.PcapFilename, Index: int(p.PcapIndex)}, Dir: int(p.Direction)})
		}
		out = append(out, v)
	}
	return out, nil
}

func RunsString(rs []ref.Run) string {
	var sb strings.Builder
	for i, r := range rs {
		if i > 0 {
			sb.WriteByte(' ')
		}
		fmt.Fprintf(&sb, "%s%q", map[int]string{0: "C", 1: "S"}[r.Dir], r.Data)
	}
	return sb.String()
}

func runsEqual(a, b []ref.Run) bool {
	if len(a) != len(b) {
		return false
	}
	for i := range a {
		if a[i].Dir != b[i].Dir || !bytes.Equal(a[i].Data, b[i].Data) {
			return false
		}
	}
	return true
}

// Canon renders one visible stream without its id.
func (v *VStream) Canon() string {
	refs := make([]string, len(v.Packets))
	for i, p := range v.Packets {
		refs[i] = p.Ref.String()
	}
	first := ""
	if len(refs) > 0 {
		first = refs[0]
	}
	sort.Strings(refs)
	return fmt.Sprintf("%s %s:%d>%s:%d first=%s C=%q S=%q runs=[%s] pkts=%s", v.Proto, v.ClientIP, v.ClientPort, v.ServerIP, v.ServerPort,
		first, v.Bytes[0], v.Bytes[1], RunsString(v.Runs), strings.Join(refs, ","))
}

// CanonSet is the canonical form of a visible set, ignoring stream numbering.
func CanonSet(vs []*VStream) string {
	l := make([]string, len(vs))
	for i, v := range vs {
		l[i] = v.Canon()
	}
	sort.Strings(l)
	return strings.Join(l, "\n")
}
