// Package c05: indexed payload equals what the endpoints exchanged on the wire.
//
// Exhaustive deviation-bounded enumeration: every conversation set of the menu in ref/traffic.go,
// every rendering with at most N local deviations (split, one-byte overlap, adjacent swap,
// retransmission full/head/tail at every later position, timestamp tie), every permitted
// interleaving, every cut of the packet sequence into two capture files, imported through the real
// builder (libpcap reader, gopacket reassembly, index writer) and read back through the real
// index reader.  The oracle is the generator's ground truth.
package c05

import (
	"bytes"
	"fmt"
	"io"
	"log"
	"os"
	"sort"
	"strings"
	"sync"
	"sync/atomic"
	"time"

	"github.com/spq/pkappa2/verifx/mc"
	"github.com/spq/pkappa2/verifx/ref"
)

// ImportCase is one capture plus the way its files are handed to the importer.
type ImportCase struct {
	Case  ref.Case `json:"case"`
	Batch string   `json:"batch"` // "all" = one FromPcap call with every file | "each" = one call per file, chronological | "rev" = one call per file, newest first
}

func (c ImportCase) Key() string { return c.Case.Key() + " batch=" + c.Batch }

func (c ImportCase) nontrivial() bool { return len(c.Case.Devs) > 0 || len(c.Case.Cuts) > 0 }

// Finding is one failed observation of the oracle.
type Finding struct {
	Symptom string
	Msg     string
}

// CheckTruth compares a visible set with the ground truth of a capture.
func CheckTruth(cp *ref.Capture, vs []*VStream) []Finding {
	var fs []Finding
	add := func(sym, format string, a ...any) { fs = append(fs, Finding{sym, fmt.Sprintf(format, a...)}) }
	byConv := map[int][]*VStream{}
	for _, v := range vs {
		if len(v.Packets) == 0 {
			add("stream.extra", "stream %d has no packets", v.ID)
			continue
		}
		ci, ok := cp.Owner(v.First())
		if !ok {
			add("stream.extra", "stream %d starts at %v which is no packet of the captures", v.ID, v.First())
			continue
		}
		byConv[ci] = append(byConv[ci], v)
	}
	for _, t := range cp.Truth {
		l := byConv[t.Conv]
		desc := fmt.Sprintf("conversation %s (%s %s:%d>%s:%d)", t.Name, t.Proto, t.ClientIP, t.ClientPort, t.ServerIP, t.ServerPort)
		if len(l) == 0 {
			add("stream.missing", "%s is not visible as a stream", desc)
			continue
		}
		if len(l) > 1 {
			ids := []string{}
			for _, v := range l {
				ids = append(ids, fmt.Sprintf("%d{%s}", v.ID, v.Canon()))
			}
			add("stream.duplicate-conversation", "%s is visible as %d streams: %s", desc, len(l), strings.Join(ids, " ; "))
			continue
		}
		v := l[0]
		if v.Proto != t.Proto || v.ClientIP != t.ClientIP || v.ServerIP != t.ServerIP || v.ClientPort != t.ClientPort || v.ServerPort != t.ServerPort {
			add("endpoint.mismatch", "%s is indexed as %s %s:%d>%s:%d", desc, v.Proto, v.ClientIP, v.ClientPort, v.ServerIP, v.ServerPort)
			continue
		}
		okBytes := true
		if !bytes.Equal(v.Bytes[ref.C2S], t.Bytes[ref.C2S]) {
			add("payload.client-bytes", "%s: client sent %q, index has %q", desc, t.Bytes[ref.C2S], v.Bytes[ref.C2S])
			okBytes = false
		}
		if !bytes.Equal(v.Bytes[ref.S2C], t.Bytes[ref.S2C]) {
			add("payload.server-bytes", "%s: server sent %q, index has %q", desc, t.Bytes[ref.S2C], v.Bytes[ref.S2C])
			okBytes = false
		}
		if okBytes && t.OrderClaimed && !runsEqual(v.Runs, t.Runs) {
			add("payload.direction-order", "%s: exchanged [%s], index has [%s]", desc, RunsString(t.Runs), RunsString(v.Runs))
		}
		have := map[ref.PktRef]bool{}
		for _, p := range v.Packets {
			have[p.Ref] = true
			if o, ok := cp.Owner(p.Ref); !ok || o != t.Conv {
				add("packets.foreign", "%s: stream %d references packet %v which belongs to another conversation", desc, v.ID, p.Ref)
				break
			}
		}
		for _, p := range t.Packets {
			if p.Payload && !have[p.Ref] {
				add("packets.missing", "%s: stream %d does not reference payload packet %v", desc, v.ID, p.Ref)
				break
			}
		}
	}
	return fs
}

type outcome struct {
	keyNote  string // appended to the case key: facts about the rendered capture that the case text does not show
	findings []Finding
	canon    string
	states   []string
	imports  int
}

// RunImportCase renders, imports and checks one case.
func RunImportCase(ic ImportCase) (out outcome) {
	cp, err := ref.Build(ic.Case)
	if err != nil {
		mc.Fatal("generator: %s: %v", ic.Key(), err)
	}
	env, err := NewEnv()
	if err != nil {
		mc.Fatal("%v", err)
	}
	defer env.Close()
	defer func() { out.imports = env.Imports }()
	if n := cp.SplitDatagrams(); n > 0 {
		out.keyNote = fmt.Sprintf(" fragments-of-one-datagram-in-two-files=%d", n)
	}
	if err := env.StageCapture(cp, ""); err != nil {
		mc.Fatal("writing captures: %v", err)
	}
	var batches [][]string
	switch ic.Batch {
	case "all":
		batches = [][]string{cp.Files}
	case "each":
		for _, f := range cp.Files {
			batches = append(batches, []string{f})
		}
	case "rev":
		// one call per file, newest capture first: every later import brings packets that precede what is indexed
		for i := len(cp.Files) - 1; i >= 0; i-- {
			batches = append(batches, []string{cp.Files[i]})
		}
	default:
		mc.Fatal("batch %q", ic.Batch)
	}
	var vs []*VStream
	for _, b := range batches {
		if err := env.Import(b); err != nil {
			out.findings = append(out.findings, Finding{"import.error", err.Error()})
			return
		}
		vs, err = env.Visible()
		if err != nil {
			out.findings = append(out.findings, Finding{"import.error", "reading back: " + err.Error()})
			return
		}
		out.states = append(out.states, CanonSet(vs))
	}
	out.canon = CanonSet(vs)
	out.findings = CheckTruth(cp, vs)
	return
}

func (c ImportCase) NumImports() int {
	if c.Batch == "each" || c.Batch == "rev" {
		if c.Case.Assign != "" {
			return 3
		}
		return len(c.Case.Cuts) + 1
	}
	return 1
}

// EnumCases lists the cases of a tier.
//
// quick:    <=1 deviation.  Deviations are enumerated under the set's default interleaving; a
//
//	rendering with a deviation is imported as one file and cut at every position from
//	just before the first to just after the second packet the deviation is about
//	(imported one by one).  Default
//	renderings: every interleaving, every cut, one by one and in one call, plus raw link.
//
// thorough: <=1 deviation under every interleaving x every cut x {one by one, one call};
//
//	2 deviations under the default interleaving as one file.
func EnumCases(tier string) (cases []ImportCase, rule string) {
	thorough := tier == "thorough"
	threeTouching, noiseCases, stretched, contradicting := 0, 0, 0, 0
	if thorough {
		// the long-running items first: captures large enough to make the importer use snapshots
		for _, set := range ref.Sets() {
			if !set.Huge {
				continue
			}
			cuts, err := ref.SnapshotCuts(set)
			if err != nil {
				mc.Fatal("%v", err)
			}
			for _, b := range []string{"each", "all"} {
				cases = append(cases, ImportCase{Case: ref.Case{Set: set.Name, Interleave: set.Interleaves[0], Link: "eth", Cuts: cuts}, Batch: b})
			}
		}
	}
	for _, set := range ref.Sets() {
		if set.Huge {
			continue
		}
		for ili, il := range set.Interleaves {
			maxDevs := 0
			switch {
			case thorough && ili == 0:
				maxDevs = 2
			case thorough || ili == 0:
				maxDevs = 1
			}
			defaultSilence := time.Duration(0)
			if cp, err := ref.Build(ref.Case{Set: set.Name, Interleave: il, Link: "eth"}); err == nil {
				defaultSilence = cp.MaxSilence()
			}
			for _, devs := range ref.EnumDevLists(set, il, maxDevs) {
				if len(devs) > 1 && defaultSilence < 5*time.Minute {
					// deviations that delay a packet across an idle period (a fragment captured before, its sibling after
					// the next idle period) can stretch a silence of four minutes beyond the importer's inactivity
					// timeout of five: the endpoints' conversation is then, by the importer's own definition of a flow,
					// two flows - such renderings say nothing about the property and are left out
					if cp, err := ref.Build(ref.Case{Set: set.Name, Devs: devs, Interleave: il, Link: "eth"}); err == nil && cp.MaxSilence() >= 5*time.Minute {
						stretched++
						continue
					}
				}
				if len(devs) > 1 && hasKind(devs, "ka") {
					// a keep-alive probe that another deviation moved in front of the data it repeats (see ProbeBeforeData)
					if cp, err := ref.Build(ref.Case{Set: set.Name, Devs: devs, Interleave: il, Link: "eth"}); err == nil && cp.ProbeBeforeData() {
						contradicting++
						continue
					}
				}
				n := ref.NumPackets(set, devs, il)
				links := []string{"eth"}
				if len(devs) == 0 && (ili == 0 || thorough) {
					links = append(links, "vlan", "qinq")
				}
				if len(devs) == 0 {
					if _, err := (&ref.Capture{Case: ref.Case{Link: "raw"}, Set: set}).LinkType(); err == nil {
						links = append(links, "raw")
					}
				}
				for _, link := range links {
					base := ref.Case{Set: set.Name, Devs: devs, Interleave: il, Link: link}
					cases = append(cases, ImportCase{Case: base, Batch: "all"})
					if len(devs) >= 2 {
						continue
					}
					lo, hi := 1, n-1
					if len(devs) == 1 && !thorough {
						a, b, ok := ref.Affected(set, devs, il)
						if !ok {
							mc.Fatal("generator: no affected packets for %v", devs)
						}
						lo, hi = max(1, a), min(n-1, b+1)
					}
					// three files, the first two touching (equal timestamps across the first cut), imported
					// one by one: the third import has to replay two known captures whose time ranges meet
					if len(devs) == 0 && link == "eth" && (ili == 0 || thorough) {
						for c1 := 1; c1 < n-1; c1++ {
							for c2 := c1 + 1; c2 < n; c2++ {
								if !thorough && (c2-c1 > 3 && c2 != n-1) {
									continue
								}
								cc := base
								cc.Devs = []ref.Dev{{Kind: "tie", I: c1 - 1}}
								cc.Cuts = []int{c1, c2}
								if _, err := ref.Build(cc); err != nil {
									continue // tie across an idle gap
								}
								cases = append(cases, ImportCase{Case: cc, Batch: "each"})
								threeTouching++
							}
						}
					}
					// frames that carry no stream (ARP, LLDP, ICMP, an IPv4 frame cut inside its TCP header) in front of
					// the first packet / in the middle of the capture: one file, and cut directly in front of the frame
					if len(devs) == 0 && link == "eth" && (ili == 0 || thorough) {
						for _, kind := range []string{"arp", "lldp", "icmp", "v4junk", "udpjunk"} {
							for _, pos := range []int{0, n / 2} {
								cc := base
								cc.Noise = fmt.Sprintf("%s@%d", kind, pos)
								if _, err := ref.Build(cc); err != nil {
									continue // in front of a packet tied to its predecessor
								}
								cases = append(cases, ImportCase{Case: cc, Batch: "all"})
								noiseCases++
								if pos > 0 {
									cc.Cuts = []int{pos}
									cases = append(cases, ImportCase{Case: cc, Batch: "each"}, ImportCase{Case: cc, Batch: "rev"})
									noiseCases += 2
								}
							}
						}
					}
					for c := lo; c <= hi; c++ {
						cc := base
						cc.Cuts = []int{c}
						cases = append(cases, ImportCase{Case: cc, Batch: "each"})
						if len(devs) == 0 || thorough {
							cases = append(cases, ImportCase{Case: cc, Batch: "all"})
						}
						if len(devs) == 0 && link == "eth" {
							cases = append(cases, ImportCase{Case: cc, Batch: "rev"})
						}
					}
				}
			}
		}
	}
	nsets := 0
	for _, s := range ref.Sets() {
		if !s.Huge {
			nsets++
		}
	}
	rule = fmt.Sprintf("every conversation set of the menu (%d sets: TCP v4/v6 client-first/server-first/open/FIN/RST/with empty ACKs/sequence wrap, UDP v4/v6, "+
		"two TCP flows, TCP+UDP on equal endpoints, colliding port pairs, 4-tuple reuse after 6 idle minutes and 90 s after a clean close, 4 minute idle periods inside a conversation) x renderings with bounded deviations "+
		"(split at every position, one-byte overlap, swap of adjacent packets except SYN/SYN-ACK/RST, retransmission full at every later position and head/tail half, "+
		"UDP datagram duplicate, equal timestamps of neighbours, an IPv4 packet with payload travelling as two IP fragments cut at every multiple of 8 bytes of the IP payload - inside the TCP header too - in order and last fragment first; de-duplicated by resulting packet sequence); "+
		"three sets in which EVERY datagram / data segment travels as two fragments, so that the deviations reorder and interleave fragments of several datagrams and the cuts separate the fragments of one datagram. ", nsets)
	if thorough {
		rule += "thorough: <=1 deviation x every permitted interleaving x {one file; cut into two files at every position, imported one by one in order and in one call; default renderings also one by one newest first}; " +
			"2 deviations under the default interleaving as one file; default renderings also with raw IPv4/IPv6 link type; 4 snapshot sets (observed conversation around/after a filler of 11120 closed connections, three files) one by one and in one call. "
	} else {
		rule += "quick: default rendering x every permitted interleaving x {eth, raw link; default interleaving also with one and two 802.1Q tags} x {one file; cut at every position, imported one by one, one by one newest first, and in one call}; " +
			"every rendering with 1 deviation (default interleaving) x {one file; cut at every position from just before the first to just after the second of the two packets the deviation is about, imported one by one}. "
	}
	rule += fmt.Sprintf("Both tiers: default renderings cut into three files whose first two touch (equal timestamps across the first cut), imported one by one (%d cases; quick: second cut at most 3 packets after the first, or before the last packet). ", threeTouching)
	rule += fmt.Sprintf("Default renderings with a frame that carries no stream (ARP, LLDP, ICMP echo, IPv4 frames that end inside their TCP / UDP header) in front of the first packet and in the middle, as one file and cut in front of the frame (%d cases). ", noiseCases)
	if contradicting != 0 {
		rule += fmt.Sprintf("%d renderings with two deviations are left out because the second deviation moves a keep-alive probe (one garbage byte at the sequence number of the last byte sent) in front of the data it repeats: two contradicting copies of one byte, which one a monitor keeps is its policy. ", contradicting)
	}
	if stretched != 0 {
		rule += fmt.Sprintf("%d renderings with two deviations are left out because the deviations stretch an idle period of a conversation beyond the importer's inactivity timeout. ", stretched)
	}
	rule += "non-trivial = at least one deviation or at least two files"
	return
}

func Run(tier string) int {
	log.SetOutput(io.Discard)
	rep := mc.NewReporter("C05", tier, "model_checking")
	rep.Driver = "c05"
	budget := 120 * time.Second
	if tier == "thorough" {
		budget = 13 * time.Minute
	}
	deadline := time.Now().Add(budget)
	cases, rule := EnumCases(tier)
	only := os.Getenv("VERIF_C05_ONLY")
	if only != "" {
		// debugging aid: restrict to conversation sets whose name starts with the value
		var f []ImportCase
		for _, c := range cases {
			if strings.HasPrefix(c.Case.Set, only) {
				f = append(f, c)
			}
		}
		cases = f
		rule = "RESTRICTED to sets " + only + "*: " + rule
	}
	// cheap cases first is not needed; keep enumeration order (deterministic)
	var evals, nontrivial, imports, clean int64
	var timedOut int32
	var mu sync.Mutex
	outcomes := map[string]int{}
	states := map[string]bool{}
	symptoms := map[string]int{}
	var samples []string
	sampleEvery := len(cases)/8 + 1
	var dump *os.File
	if p := os.Getenv("VERIF_ALL_FINDINGS"); p != "" {
		dump, _ = os.Create(p)
		defer dump.Close()
	}
	mc.ParFor(len(cases), func(i int) {
		if time.Now().After(deadline) {
			atomic.StoreInt32(&timedOut, 1)
			return
		}
		ic := cases[i]
		out := RunImportCase(ic)
		atomic.AddInt64(&evals, 1)
		atomic.AddInt64(&imports, int64(out.imports))
		if ic.nontrivial() {
			atomic.AddInt64(&nontrivial, 1)
		}
		if len(out.findings) == 0 {
			atomic.AddInt64(&clean, 1)
		}
		for _, f := range out.findings {
			rep.Report(mc.Violation{Symptom: f.Symptom, Key: ic.Key() + out.keyNote, Msg: f.Msg, Replay: ic})
		}
		mu.Lock()
		for _, f := range out.findings {
			symptoms[f.Symptom]++
			if dump != nil {
				fmt.Fprintf(dump, "%s\t%s\t%s\n", f.Symptom, ic.Key()+out.keyNote, strings.ReplaceAll(f.Msg, "\n", " "))
			}
		}
		outcomes[out.canon]++
		for _, s := range out.states {
			states[s] = true
		}
		if i%sampleEvery == 0 {
			samples = append(samples, fmt.Sprintf("%s -> %d findings; visible: %s", ic.Key(), len(out.findings), strings.ReplaceAll(out.canon, "\n", " || ")))
		}
		mu.Unlock()
	}, func(i int, text string) {
		rep.Report(mc.Violation{Symptom: "panic", Key: cases[i].Key(), Msg: "panic importing/reading: " + firstLines(text, 14), Replay: cases[i]})
		mu.Lock()
		symptoms["panic"]++
		mu.Unlock()
		atomic.AddInt64(&evals, 1)
	})
	sort.Strings(samples)
	c := rep.Coverage
	c["evaluations"] = evals
	c["distinct_nontrivial"] = nontrivial
	c["cases_enumerated"] = len(cases)
	c["cases_without_finding"] = clean
	c["imports"] = imports
	c["states"] = len(states)
	c["transitions"] = imports
	c["traces_validated_against_impl"] = evals
	c["distinct_outcomes"] = len(outcomes)
	c["rule"] = rule
	c["samples"] = samples
	c["symptom_counts"] = symptoms
	c["exhaustive"] = timedOut == 0
	if timedOut != 0 {
		c["caps_hit"] = []string{"deadline"}
	}
	rep.Assumptions = []string{
		"well-formed traffic: SYN, SYN-ACK and RST keep their capture position (a capture showing the SYN-ACK before the SYN, or data after a reset, is not claimed)",
		"a swap of two payload packets of opposite directions changes the observable order of direction changes: only per-direction bytes are claimed there",
		"UDP has no retransmission: a duplicated or swapped datagram is a different exchange and the expectation follows the capture order; the client of a UDP flow is the sender of the first captured datagram",
		"a 4-tuple is reused only after the earlier connection was closed by FIN from both sides (sets reuse-slow: 6 minutes later, reuse-fast: 90 s later); idle periods inside a conversation are 4 minutes at most",
		"capture files are named in chronological order (equal timestamps across files are ordered by file name)",
	}
	if len(outcomes) < 5 && timedOut == 0 && only == "" {
		mc.Fatal("vacuous: %d outcomes", len(outcomes))
	}
	return rep.Finish()
}

func firstLines(s string, n int) string {
	l := strings.Split(s, "\n")
	if len(l) > n {
		l = l[:n]
	}
	return strings.Join(l, "\n")
}

// Replay runs one case and returns its findings and the canonical visible set.
func Replay(ic ImportCase) ([]Finding, string) {
	out := RunImportCase(ic)
	return out.findings, out.canon
}

func hasKind(devs []ref.Dev, kind string) bool {
	for _, d := range devs {
		if d.Kind == kind {
			return true
		}
	}
	return false
}
