package csvc

// Names of index, snapshot and state files (tools.MakeFilename) under every interleaving of concurrent callers and
// every reading of the clock (engine E6): a name handed out twice means that an import and a merge of one service can
// create the same index file, the second create overwriting a file that is being served.

import (
	"fmt"
	"sort"
	"strings"

	"github.com/spq/pkappa2/internal/tools"
	"github.com/spq/pkappa2/verifx/mc"
)

func exploreFilenames(rep *mc.Reporter, tier string) map[string]any {
	bound := 3
	shapes := [][]int{{1, 1}, {2, 1}, {2, 2}, {1, 1, 1}, {2, 1, 1}}
	if tier == "thorough" {
		bound = 4
		shapes = append(shapes, []int{2, 2, 1}, []int{2, 2, 2}, []int{1, 1, 1, 1})
	}
	var st mc.SchedStats
	orders := map[string]bool{}
	for _, shape := range shapes {
		name := fmt.Sprintf("%d callers with %v calls of MakeFilename each", len(shape), shape)
		mk := func() ([]func(), any) {
			tools.VerifResetFilename()
			got := make([][]string, len(shape))
			var bodies []func()
			for ti, n := range shape {
				ti, n := ti, n
				bodies = append(bodies, func() {
					for i := 0; i < n; i++ {
						got[ti] = append(got[ti], tools.MakeFilename("d", "idx"))
					}
				})
			}
			return bodies, &got
		}
		check := func(r *mc.SchedRun, ctx any) bool {
			got := *ctx.(*[][]string)
			if r.Deadlock || len(r.Panics) != 0 {
				rep.Report(mc.Violation{Symptom: "c13.filename.stuck", Key: name, Msg: fmt.Sprintf("%s: schedule %s: deadlock=%v panics=%v", name, r.Schedule(), r.Deadlock, r.Panics), Replay: map[string]any{"scenario": name, "choices": r.Choices()}})
				return true
			}
			seen := map[string]string{}
			var all []string
			for ti, l := range got {
				for ci, n := range l {
					who := fmt.Sprintf("T%d call %d", ti, ci+1)
					if other, dup := seen[n]; dup {
						rep.Report(mc.Violation{Symptom: "c13.filename.handed-out-twice", Key: name,
							Msg:    fmt.Sprintf("%s: under schedule %s (threads in the order they were given the processor at clock readings and lock acquisitions; clock+1ms = the clock had moved on at that reading) the name %s was handed to %s and to %s", name, r.Schedule(), n, other, who),
							Replay: map[string]any{"scenario": name, "choices": r.Choices(), "bound": bound}})
					}
					seen[n] = who
					all = append(all, n)
				}
			}
			sort.Strings(all)
			orders[strings.Join(all, ",")] = true
			return true
		}
		// the same schedule twice gives the same names
		b1, c1 := mk()
		r1 := mc.RunSchedule(b1, nil)
		n1 := fmt.Sprint(*c1.(*[][]string))
		b2, c2 := mk()
		r2 := mc.RunSchedule(b2, r1.Choices())
		if n2 := fmt.Sprint(*c2.(*[][]string)); n1 != n2 || r1.Schedule() != r2.Schedule() {
			mc.Fatal("filename exploration: %s: the default schedule run twice gave %s and %s", name, n1, n2)
		}
		mc.ExploreSchedules(bound, mk, check, &st)
	}
	tools.VerifResetFilename()
	return map[string]any{
		"filename_interleaving_executions":        st.Executions,
		"filename_interleaving_scheduling_points": st.Points,
		"filename_interleaving_preemption_bound":  bound,
		"filename_interleaving_distinct_outcomes": len(orders),
		"filename_interleaving_rule":              "2-4 concurrent callers with 1-2 calls of tools.MakeFilename each (the file is built with sync and time.Now rewritten to the scheduling shim): every schedule of clock readings and lock acquisitions with at most the bound of preemptions, at every clock reading the clock shows the same or the next millisecond; all names handed out in one execution are distinct",
	}
}
