// Package csvc runs the service explorer (package svc) over a set of scenarios and judges the five
// properties that share it: C06, C09, C10, C13 and C16.  One run writes all five evidence files;
// the property given on the command line selects whose verdict is the exit code.
package csvc

import (
	"fmt"
	"os"
	"path/filepath"
	"slices"
	"sort"
	"strings"
	"sync"
	"sync/atomic"
	"time"

	"github.com/spq/pkappa2/verifx/mc"
	"github.com/spq/pkappa2/verifx/svc"
)

var Props = []string{"C06", "C09", "C10", "C13", "C16"}

func scenarios(tier string) []svc.Scenario {
	sc := []svc.Scenario{
		{Name: "data-tag", Program: []string{"addtag:tag/d=cdata:foo", "import:P1", "import:P2", "view.open:v1", "import:P3"}},
		{Name: "tag-reference", Program: []string{"import:P1", "addtag:tag/p=cport:1", "addtag:tag/r=-tag:p", "import:P2", "import:P3"}},
		// the referenced tag's answer for stream 0 changes when P3 extends it; the referring tag reads data only through it
		{Name: "tag-reference-through-data-tag", Program: []string{"import:P1", "addtag:tag/d=cdata:foo3", "addtag:tag/r=tag:d sport:53", "import:P3", "import:P2"}},
		{Name: "marks", Program: []string{"import:P1+P2", "addtag:mark/m=id:0", "markadd:mark/m=1", "view.open:v1", "import:P3", "markdel:mark/m=0", "view.release:v1"}},
		{Name: "id-tag", Program: []string{"import:P1", "addtag:tag/i=id:1:", "import:P2", "import:P3"}},
		{Name: "views-and-merges", Program: []string{"import:P1", "import:P2", "view.open:v1", "import:P3", "view.open:v2", "view.release:v1", "import:P4"}},
		{Name: "tag-edit", Program: []string{"addtag:tag/p=cport:1", "import:P1", "updtag:tag/p=sport:80", "import:P2", "deltag:tag/p"}},
		{Name: "out-of-order-reset", Program: []string{"import:P1", "addtag:tag/p=cport:1", "import:P0", "import:P2"}},
		// a cached stream is queued again (new match of the tag) and extended while that job waits
		{Name: "converter-requeue-then-extension", Converter: true, Program: []string{"import:P1", "addtag:tag/p=cport:1", "converters:tag/p=conv", "import:P2", "import:P3"}},
		{Name: "converter", Converter: true, Program: []string{"import:P1", "addtag:tag/p=cport:1", "converters:tag/p=conv", "import:P3", "converters:tag/p="}},
		// two tags wait for evaluation at the same time: which one the service takes first is an explored choice
		// reference chains of depth two: an edit of the root (marks, query) and an import that changes the root's answer
		// must reach the tag that uses the root only through another tag
		{Name: "mark-reference-chain", Program: []string{"import:P1+P2", "addtag:mark/m=id:0", "addtag:tag/b=mark:m", "addtag:tag/c=-tag:b", "markadd:mark/m=1", "markdel:mark/m=0"}},
		{Name: "data-reference-chain", Program: []string{"import:P1", "addtag:tag/d=cdata:foo3", "addtag:tag/b=tag:d", "addtag:tag/c=-tag:b", "import:P3", "updtag:tag/d=cdata:bar"}},
		// an import job that ends without an index (unreadable first file) while more files are queued behind it,
		// and a capture without packets
		{Name: "bad-capture", Program: []string{"import:P1", "import:BAD+P2", "view.open:v1", "import:EMPTY+P3"}},
		// a tag is waiting while the last import job of a chain produces nothing (the unreadable file is last)
		{Name: "bad-capture-last", Program: []string{"addtag:tag/d=cdata:foo", "import:P1+BAD", "import:P2+BAD"}},
		// a converter is attached while imports, tagging and a merge are in flight
		{Name: "converter-attached-late", Converter: true, Program: []string{"import:P1", "addtag:tag/p=cport:1", "import:P2", "converters:tag/p=conv"}},
		// a tag that refers to another tag from a sub-query: evaluated for all streams or none
		{Name: "subquery-tag", Program: []string{"import:P1+P2", "addtag:tag/b=cport:1", "addtag:tag/t=@sub:tag:b sport:@sub:sport@", "import:P3", "import:P4"}},
		// a conversion job that finds everything cached already (its tag was re-evaluated without a new match)
		// while more work is queued behind it
		{Name: "converter-fruitless-job", Converter: true, Program: []string{"import:P1+P2", "addtag:tag/p=cport:1", "converters:tag/p=conv", "import:P5", "import:P4"}},
		// the converter executable is deleted / rewritten while its conversion job is in flight
		{Name: "converter-removed", Converter: true, Program: []string{"import:P1", "addtag:tag/p=cport:1", "converters:tag/p=conv", "convdel:conv", "import:P2"}},
		{Name: "converter-restarted", Converter: true, Program: []string{"import:P1", "addtag:tag/p=cport:1", "converters:tag/p=conv", "convrestart:conv", "import:P3"}},
		// a view is held while an import changes a tag's answer for a stream it shows and younger views evaluate the tag
		{Name: "view-tag-snapshot", Program: []string{"addtag:tag/d=cdata:foo[23]", "import:P1+P2", "view.open:v1", "import:P3", "view.open:v2"}},
		// one converter attached to two tags with different matches, then its executable is rewritten
		{Name: "converter-two-tags-restarted", Converter: true, Program: []string{"import:P1+P2", "addtag:tag/p=cport:1", "converters:tag/p=conv", "addtag:service/q=sport:80", "converters:service/q=conv", "convrestart:conv"}},
		// two invalidation sources inside one tagging-job window: a mark edit and an import that adds streams
		// both land while the job of a tag that refers to the mark is in flight
		{Name: "mark-edit-and-import-during-job", Program: []string{"import:P1+P2", "addtag:mark/m=id:0", "addtag:tag/t=mark:m", "markadd:mark/m=1", "import:P4"}},
		// one converter attached to a mark tag and to a query tag that match the same stream; the mark is taken away
		{Name: "converter-on-mark-and-tag-unmark", Converter: true, Program: []string{"import:P1", "addtag:mark/m=id:0", "converters:mark/m=conv", "addtag:tag/p=cport:1", "converters:tag/p=conv", "markdel:mark/m=0"}},
		// two converters on one tag, the second attached after the first has converted: an import extends the
		// stream while the job of the second converter is in flight
		{Name: "converter-pair-on-one-tag", Converter: true, Program: []string{"import:P1", "addtag:tag/p=cport:1", "converters:tag/p=conv", "converters:tag/p=conv,conv2", "import:P3"}},
		// a capture that only continues a stored stream: the newest index file holds nothing but an old, low id
		{Name: "extension-only-capture", Program: []string{"import:P1+P2", "import:P6", "view.open:v1", "import:P4", "view.open:v2"}},
		// a client reads converter output through a view that was opened before an import extended the stream
		{Name: "converter-data-through-held-view", Converter: true, Program: []string{"import:P1", "addtag:tag/p=cport:1", "view.open:v1", "converters:tag/p=conv", "import:P3", "view.data:v1=0/conv"}},
		// a tag that uses a mark list inside a sub-query: a mark edit changes its answer for OTHER streams than the marked ones
		// one call that names a capture twice, on an idle service
		{Name: "same-capture-twice-in-one-call", Program: []string{"import:P1+P1", "view.open:v1", "import:P2"}},
		// a period in which the importer cannot save its reassembly snapshots
		{Name: "snapshot-directory-gone-for-a-while", Program: []string{"import:P1", "fault:snapdir-gone", "import:P2", "fault:snapdir-back", "import:P3", "import:P4"}},
		{Name: "subquery-mark-tag", Program: []string{"import:P1+P2", "addtag:mark/m=id:0", "addtag:tag/t=@sub:mark:m id:@sub:id@+1", "markadd:mark/m=1", "markdel:mark/m=0"}},
		// a converter whose process dies on the first attempt at every stream: the job tries once more
		{Name: "converter-fails-once", Converter: true, Program: []string{"import:P1", "addtag:tag/p=cport:1", "converters:tag/p=convflaky", "import:P3"}},
		// a data tag whose alternatives read the output of different converters, decided before the second converter ran
		{Name: "data-tag-on-two-converters", Converter: true, Program: []string{"import:P1", "addtag:tag/p=cport:1", "addtag:tag/x=cdata.conv:ZZZ or cdata.conv2:FOO1", "converters:tag/p=conv2"}},
		// a converter on a mark list, the service restarted at every point of the conversion
		{Name: "restart-converter-on-mark", Converter: true, Workers: 3, Program: []string{"import:P1", "addtag:mark/m=id:0", "converters:mark/m=conv", "restart"}},
		// the id list of a mark tag is replaced by a query edit (the only way a mark tag gets a tagging job) and
		// marks are added / removed while that job is in flight
		// (the streams exist when the service starts: marks on ids that do not exist yet are KF-C16-3's business)
		{Name: "mark-query-edit-then-mark-edit", Prebuilt: []int{5}, Program: []string{"addtag:mark/m=id:0", "addtag:tag/t=mark:m", "updtag:mark/m=id:1", "markadd:mark/m=2", "markdel:mark/m=1"}},
		{Name: "mark-query-edit-with-converter", Converter: true, Prebuilt: []int{5}, Program: []string{"addtag:mark/m=id:0", "converters:mark/m=conv", "updtag:mark/m=id:1,2", "markdel:mark/m=1"}},
		// two converters on one tag, both of which die on their first attempt at every stream
		{Name: "converter-answers-with-unreadable-time-once", Converter: true, Program: []string{"import:P1+P2", "addtag:tag/p=cport:1", "converters:tag/p=convoddtime", "import:P3"}},
		{Name: "converter-pair-fails-once", Converter: true, Program: []string{"import:P1", "addtag:tag/p=cport:1", "converters:tag/p=convflaky,convflaky2", "import:P3"}},
		// a tag over a closed id range that imports fill up and pass
		{Name: "bounded-id-range-tag", Program: []string{"import:P1", "addtag:service/r=id:0:3", "import:P2", "import:P3"}},
		// a client that has opened the event stream and does not read it while 120 events are emitted
		{Name: "stalled-listener", Program: []string{"import:P1", "addtag:tag/p=cport:1", "listen.stall:l1", "storm:tag/x=60", "import:P2", "listen.close:l1"}},
		// a chain mark <- tag <- tag in which the last definition names the middle tag in its main query AND from inside a sub-query
		// (the streams exist when the service starts)
		{Name: "chain-main-and-subquery-reference", Prebuilt: []int{5}, Program: []string{"addtag:mark/m=id:0,1", "addtag:tag/b=mark:m", "addtag:tag/c=tag:b @p:tag:b id:@p:id@+1", "markdel:mark/m=0", "markadd:mark/m=2"}},
		// output produced on demand while the converter is attached to no tag, the executable removed and another one
		// installed under its name, the converter attached afterwards
		{Name: "converter-replaced-while-detached", Converter: true, Program: []string{"import:P1", "addtag:tag/p=cport:1", "view.open:v1", "view.data:v1=0/conv", "convdel:conv", "convreplace:conv", "converters:tag/p=conv"}},
		// a view held while a converter that is not the last one of a tag's list is detached and another one attached
		{Name: "view-held-across-converter-changes", Converter: true, Program: []string{"import:P1", "addtag:tag/p=cport:1", "converters:tag/p=conv,conv2", "view.open:v1", "converters:tag/p=conv2", "converters:tag/p=conv2,convflaky"}},
		{Name: "two-tags", Program: []string{"addtag:tag/p=cport:1", "addtag:tag/d=cdata:foo3", "import:P1", "import:P3"}},
	}
	if tier == "thorough" {
		sc = append(sc,
			svc.Scenario{Name: "queued-imports", Program: []string{"addtag:service/s=sport:53", "import:P1", "import:P2", "import:P3", "import:P4", "view.open:v1"}},
			svc.Scenario{Name: "data-tag-and-reference", Program: []string{"addtag:tag/d=data:foo", "addtag:tag/r=tag:d sport:53", "import:P1", "import:P3", "import:P2", "view.open:v1"}},
			// only one tag at a time may be waiting for evaluation: which of several pending tags the
			// service evaluates first depends on Go's map iteration order, which the harness does not own
			svc.Scenario{Name: "converter-on-mark-and-data-tag", Converter: true, Program: []string{"import:P1", "addtag:mark/m=id:0", "converters:mark/m=conv", "addtag:tag/d=cdata:FOO", "import:P3", "import:P2"}},
			svc.Scenario{Name: "converter-reattach", Converter: true, Program: []string{"import:P1", "addtag:tag/p=cport:1", "converters:tag/p=conv", "import:P3", "converters:tag/p=", "import:P2", "converters:tag/p=conv"}},
			// several tags waiting at once: every order in which the service can evaluate them
			svc.Scenario{Name: "two-tags-and-reference", Program: []string{"import:P1", "addtag:tag/d=cdata:foo3", "addtag:tag/p=sport:53", "addtag:tag/r=tag:d -tag:p", "import:P3"}},
			svc.Scenario{Name: "two-tags-edit", Program: []string{"import:P1", "addtag:tag/p=cport:1", "addtag:tag/q=sport:53", "updtag:tag/p=cport:2000", "import:P2", "deltag:tag/q"}},
			svc.Scenario{Name: "three-tags", Program: []string{"addtag:tag/p=cport:1", "addtag:tag/d=cdata:foo3", "addtag:service/s=sport:53", "import:P1", "import:P3"}},
			svc.Scenario{Name: "converter-fruitless-job-two-tags", Converter: true, Program: []string{"import:P1+P2", "addtag:tag/p=cport:1", "addtag:tag/q=sport:80", "converters:tag/p=conv", "import:P5", "converters:tag/q=conv"}},
			svc.Scenario{Name: "restart", Workers: 3, Program: []string{"import:P1", "addtag:tag/d=cdata:foo", "import:P2", "restart", "import:P3", "view.open:v1"}},
		)
	}
	// start-up on existing index files of every size pattern, a period in which merges fail, one more
	// import: the merge eligibility rule with its count of files it has given up on
	sizes := []int{1, 5}
	maxFiles := 3
	if tier == "thorough" {
		sizes, maxFiles = []int{1, 2, 5}, 4
	}
	var gen func(cur []int)
	gen = func(cur []int) {
		if len(cur) >= 2 {
			sc = append(sc, svc.Scenario{Name: "prebuilt" + fmt.Sprint(cur), Prebuilt: append([]int{}, cur...), Program: []string{"fault:mergedir-gone", "import:P4", "fault:mergedir-back", "import:P5"}})
		}
		if len(cur) == maxFiles {
			return
		}
		for _, n := range sizes {
			gen(append(cur, n))
		}
	}
	gen(nil)
	if only := os.Getenv("VERIF_ONLY_SCENARIO"); only != "" {
		// development aid: the evidence of such a run names the filter
		var f []svc.Scenario
		for _, x := range sc {
			if strings.Contains(","+only+",", ","+x.Name+",") {
				f = append(f, x)
			}
		}
		sc = f
	}
	return sc
}

// Run explores all scenarios; prop selects the exit code.
func Run(prop, tier string) int {
	budget := 150 * time.Second
	var cap int64 = 1500
	if tier == "thorough" {
		budget = 14 * time.Minute
		cap = 60000
	}
	start := time.Now()
	reps := map[string]*mc.Reporter{}
	for _, p := range Props {
		reps[p] = mc.NewReporter(p, tier, "model_checking")
		reps[p].Driver = "csvc"
	}
	convBin := filepath.Join(mc.VerifDir, "bin", "vconv")
	if _, err := os.Stat(convBin); err != nil {
		mc.Fatal("converter binary %s missing (build.sh builds it): %v", convBin, err)
	}
	rows := exploreAll(tier, budget, cap, convBin, func(sc *svc.Scenario, path []string, v svc.V) {
		r := reps[v.Prop]
		if r == nil {
			return
		}
		r.Report(violationOf(sc, path, v))
	})
	var states, trans, drains, pickPoints, forced int64
	outcomes := 0
	complete := true
	var caps, samples []string
	perScenario := map[string]any{}
	for _, r := range rows {
		states += r.st.States
		trans += r.st.Transitions
		drains += r.st.DrainSteps
		pickPoints += r.st.PickPoints
		forced += r.st.ForcedPicks
		outcomes += len(r.st.Quiescent)
		if !r.st.Complete {
			complete = false
			caps = append(caps, r.name+": "+r.st.CapHit)
		}
		perScenario[r.name] = map[string]any{"states": r.st.States, "transitions": r.st.Transitions, "max_depth": r.st.MaxDepth, "tag_pick_points": r.st.PickPoints, "merge_deliveries": r.st.MergeDeliveries, "quiescent_outcomes": len(r.st.Quiescent), "complete": r.st.Complete}
		for _, s := range r.st.Samples {
			if len(samples) < 10 {
				samples = append(samples, r.name+": "+s)
			}
		}
	}
	if states < 20 {
		mc.Fatal("vacuous exploration: %d states", states)
	}
	if only := os.Getenv("VERIF_ONLY_SCENARIO"); only != "" {
		complete = false
		caps = append(caps, "development run restricted to scenarios "+only)
	}
	// C13 also: the names of the files the service creates, under every interleaving of concurrent callers (E6)
	fnCov := exploreFilenames(reps["C13"], tier)
	code := 0
	for _, p := range Props {
		r := reps[p]
		cv := r.Coverage
		if p == "C13" {
			for k, v := range fnCov {
				cv[k] = v
			}
		}
		cv["states"] = states
		cv["transitions"] = trans
		cv["traces_validated_against_impl"] = trans
		cv["evaluations"] = trans
		cv["waiting_verdicts_not_reproduced_by_a_second_run"] = atomic.LoadInt64(&svc.WaitVerdictsNotReproduced)
		cv["distinct_nontrivial"] = states
		cv["rule"] = "explicit-state search over every interleaving of a client program (API calls in program order) with the steps of the real background jobs (import, tagging, merge, conversion; two gates each) on the real manager; histories reaching the same canonical service state are merged; every state is obtained by replaying its history on a fresh service; in every state the invariants of C06/C10/C13/C16 are evaluated, then the parked jobs are drained (C09) and the quiescent state is judged again; non-trivial = every state (each has at least one job parked or one API call pending against shared tags/indexes)"
		cv["scenarios"] = perScenario
		cv["drain_steps"] = drains
		cv["tag_pick_points"] = pickPoints
		cv["tag_pick_histories_forced"] = forced
		if only := os.Getenv("VERIF_ONLY_SCENARIO"); only != "" {
			cv["scenario_filter"] = only
		}
		cv["distinct_outcomes"] = outcomes
		cv["samples"] = samples
		cv["exhaustive"] = complete
		if !complete {
			cv["caps_hit"] = caps
		}
		cv["shared_run_wall_s"] = time.Since(start).Seconds()
		r.Assumptions = []string{
			"a job body between two gates runs atomically with respect to the service loop (physical overlap of job bodies is C20's subject)",
			"the stream's current data is read back from the service's own index stack (C01/C05 decide that it equals the capture)",
			"file names enter the canonical state only through their rank",
		}
		c := r.Finish()
		if p == prop {
			code = c
		}
	}
	return code
}

type row struct {
	name string
	st   svc.ExploreStats
}

func violationOf(sc *svc.Scenario, path []string, v svc.V) mc.Violation {
	msg := v.Msg
	if len(msg) > 160 {
		msg = msg[:160]
	}
	return mc.Violation{Symptom: v.Symptom, Key: sc.Name + " | " + firstLine(msg),
		Msg:    fmt.Sprintf("scenario %s, after [%s]: %s", sc.Name, strings.Join(path, " ; "), v.Msg),
		Replay: map[string]any{"scenario": sc.Name, "program": sc.Program, "path": path}}
}

func exploreAll(tier string, budget time.Duration, cap int64, convBin string, onV func(sc *svc.Scenario, path []string, v svc.V), only ...string) []row {
	scs := scenarios(tier)
	if len(only) != 0 {
		var f []svc.Scenario
		for _, x := range scs {
			if slices.Contains(only, x.Name) {
				f = append(f, x)
			}
		}
		scs = f
	}
	end := time.Now().Add(budget)
	// the levels of one scenario's search are often narrower than the machine: several scenarios are
	// explored at the same time (each world is a service of its own; the hooks are keyed by the service)
	rows := make([]row, len(scs))
	sem := make(chan struct{}, scenarioParallelism())
	var wg sync.WaitGroup
	var mu sync.Mutex
	for i := range scs {
		if scs[i].Workers != 0 {
			continue // explored alone afterwards
		}
		wg.Add(1)
		sem <- struct{}{}
		go func(i int) {
			defer wg.Done()
			defer func() { <-sem }()
			sc := &scs[i]
			st := svc.Explore(sc, convBin, cap, end, func(path []string, v svc.V) {
				mu.Lock()
				defer mu.Unlock()
				onV(sc, path, v)
			})
			rows[i] = row{sc.Name, st}
		}(i)
	}
	wg.Wait()
	for i := range scs {
		if scs[i].Workers == 0 {
			continue
		}
		sc := &scs[i]
		st := svc.Explore(sc, convBin, cap, end.Add(3*time.Minute), func(path []string, v svc.V) { onV(sc, path, v) })
		rows[i] = row{sc.Name, st}
	}
	return rows
}

// ExploreFor runs the same exploration for a property judged by another driver (C20: what a
// parked job was handed must not change) and reports that property's violations to rep.
func ExploreFor(prop, tier string, budget time.Duration, rep *mc.Reporter, only ...string) (states, transitions int64, complete bool, caps []string) {
	var cap int64 = 1500
	if tier == "thorough" {
		cap = 60000
	}
	convBin := filepath.Join(mc.VerifDir, "bin", "vconv")
	rows := exploreAll(tier, budget, cap, convBin, func(sc *svc.Scenario, path []string, v svc.V) {
		if v.Prop == prop {
			rep.Report(violationOf(sc, path, v))
		}
	}, only...)
	complete = true
	for _, r := range rows {
		states += r.st.States
		transitions += r.st.Transitions
		if !r.st.Complete {
			complete = false
			caps = append(caps, r.name+": "+r.st.CapHit)
		}
	}
	return
}

func firstLine(s string) string {
	if i := strings.IndexByte(s, '\n'); i >= 0 {
		return s[:i]
	}
	return s
}

var _ = sort.Strings

// Replay runs one history step by step and prints the canonical state after every event.
func Replay(tier, scenario string, path []string) int {
	convBin := filepath.Join(mc.VerifDir, "bin", "vconv")
	for _, sc := range scenarios("thorough") {
		if sc.Name != scenario {
			continue
		}
		bin := ""
		if sc.Converter {
			bin = convBin
		}
		w, err := svc.NewWorldPrebuilt(bin, sc.Prebuilt)
		if err != nil {
			mc.Fatal("%v", err)
		}
		defer w.Destroy()
		pc := 0
		show := func(label string) {
			s, err := w.Snapshot(pc)
			if err != nil {
				fmt.Println("snapshot error:", err)
				return
			}
			fmt.Printf("=== %s\n%s\n", label, s.Canon())
			for _, v := range svc.CheckC06(w, s) {
				fmt.Println("  !", v.Prop, v.Symptom, v.Msg)
			}
			for _, v := range svc.CheckC10(w, s) {
				fmt.Println("  !", v.Prop, v.Symptom, v.Msg)
			}
			for _, v := range svc.CheckC13(w, s, false) {
				fmt.Println("  !", v.Prop, v.Symptom, v.Msg)
			}
			if sc.Converter {
				for _, v := range svc.CheckC16(w, s, false) {
					fmt.Println("  !", v.Prop, v.Symptom, v.Msg)
				}
			}
		}
		lastOnly := os.Getenv("VERIF_REPLAY_LAST_ONLY") != ""
		if !lastOnly {
			show("initial")
		}
		for ei, ev := range path {
			if ev == "drain" {
				for len(w.ParkedNames()) != 0 {
					k := w.ParkedNames()[0]
					if err := w.Step(k); err != nil {
						fmt.Println("error:", err)
						return 2
					}
					show("drain step:" + k)
				}
				continue
			}
			if err := w.Apply(ev); err != nil {
				fmt.Println("error:", err)
				return 2
			}
			if strings.HasPrefix(ev, "api:") {
				pc++
			}
			if !lastOnly || ei == len(path)-1 {
				show(ev)
			}
		}
		return 0
	}
	fmt.Println("unknown scenario", scenario)
	return 2
}

// scenarioParallelism: how many scenarios are explored at the same time (VERIF_SCENARIO_PAR overrides).
func scenarioParallelism() int {
	if s := os.Getenv("VERIF_SCENARIO_PAR"); s != "" {
		var n int
		if _, err := fmt.Sscan(s, &n); err == nil && n >= 1 {
			return n
		}
	}
	return 4
}
