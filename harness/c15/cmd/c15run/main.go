// c15run runs the C15 driver alone (development helper; vcheck is the registered entry point).
//
//	c15run -tier quick
//	c15run -replay 'store(0,c1);invalidate(0);reopen'
package main

import (
	"flag"
	"os"
	"runtime"
	"runtime/pprof"
	"strings"

	"github.com/spq/pkappa2/verifx/c15"
)

func main() {
	tier := flag.String("tier", "quick", "quick|thorough")
	replay := flag.String("replay", "", "semicolon separated operation names to apply step by step")
	flag.Parse()
	if *replay != "" {
		var ops []string
		for _, o := range strings.Split(*replay, ";") {
			ops = append(ops, strings.TrimSpace(o))
		}
		os.Exit(c15.Replay(*tier, ops))
	}
	if p := os.Getenv("C15_BLOCKPROFILE"); p != "" {
		runtime.SetBlockProfileRate(10000)
		runtime.SetMutexProfileFraction(10)
		code := c15.Run(*tier)
		f, _ := os.Create(p)
		pprof.Lookup("block").WriteTo(f, 0)
		f.Close()
		f, _ = os.Create(p + ".mutex")
		pprof.Lookup("mutex").WriteTo(f, 0)
		f.Close()
		os.Exit(code)
	}
	if p := os.Getenv("C15_CPUPROFILE"); p != "" {
		f, err := os.Create(p)
		if err == nil {
			pprof.StartCPUProfile(f)
			code := c15.Run(*tier)
			pprof.StopCPUProfile()
			f.Close()
			os.Exit(code)
		}
	}
	os.Exit(c15.Run(*tier))
}
