package c15

import (
	"fmt"
	"os"
	"runtime"
	"sort"
	"strings"
	"sync"
	"sync/atomic"
	"syscall"
	"time"

	"github.com/spq/pkappa2/verifx/mc"
)

// crashStats counts the crash-point work of a run (shared by all worlds).
type crashStats struct {
	seen               sync.Map // file signature -> checked
	files              int64
	points             int64
	opensOK            int64
	opensFailed        int64
	contentChecks      int64
	continuations      int64
	weakFiles          int64
	sharedPoints       int64
	capped             int32
	filesOpenFailed    int64
	filesResurrected   int64
	failPattern        sync.Map // one-record file -> failing lengths relative to the record start
	resPattern         sync.Map // one-record file with an invalidated record that is served again
	runtimeCompactions int64
	mu                 sync.Mutex
	sample             []string
}

func (s *crashStats) fill(c map[string]any) {
	c["truncation_files"] = atomic.LoadInt64(&s.files)
	c["truncation_points"] = atomic.LoadInt64(&s.points)
	c["truncation_opens_ok"] = atomic.LoadInt64(&s.opensOK)
	c["truncation_opens_failed"] = atomic.LoadInt64(&s.opensFailed)
	c["truncation_content_comparisons"] = atomic.LoadInt64(&s.contentChecks)
	c["truncation_continuations"] = atomic.LoadInt64(&s.continuations)
	c["truncation_points_identical_to_smaller_file"] = atomic.LoadInt64(&s.sharedPoints)
	c["truncation_files_with_failing_open"] = atomic.LoadInt64(&s.filesOpenFailed)
	c["truncation_files_serving_invalidated_record"] = atomic.LoadInt64(&s.filesResurrected)
	c["truncation_files_layout_unverified"] = atomic.LoadInt64(&s.weakFiles)
}

func (s *crashStats) addSample(x string) {
	s.mu.Lock()
	defer s.mu.Unlock()
	s.sample = append(s.sample, x)
	sort.Slice(s.sample, func(i, j int) bool {
		if len(s.sample[i]) != len(s.sample[j]) {
			return len(s.sample[i]) > len(s.sample[j]) // prefer the longer (more records) descriptions
		}
		return s.sample[i] < s.sample[j]
	})
	if len(s.sample) > 3 {
		s.sample = s.sample[:3]
	}
}

func (s *crashStats) samples() []string {
	s.mu.Lock()
	defer s.mu.Unlock()
	return append([]string(nil), s.sample...)
}

func ranges(ns []int) string {
	sort.Ints(ns)
	var parts []string
	for i := 0; i < len(ns); {
		j := i
		for j+1 < len(ns) && ns[j+1] == ns[j]+1 {
			j++
		}
		if j == i {
			parts = append(parts, fmt.Sprint(ns[i]))
		} else {
			parts = append(parts, fmt.Sprintf("%d-%d", ns[i], ns[j]))
		}
		i = j + 1
	}
	return strings.Join(parts, ",")
}

// cutLengths selects the truncation lengths for a file of n bytes whose records end at ends
// (ends[0] is the end of the header): every length for files below 4 KiB, otherwise the header,
// every record boundary ±1 and the last record (every byte if it is below 4 KiB, else its first
// and last 64 bytes plus 16 evenly spaced lengths).
//
// lastOnly: the file without its last record has been checked before.  Because records are only
// appended, every truncation up to the start of the last record is byte for byte a truncation of
// that smaller file, so only lengths inside and at the end of the last record are cut.
func cutLengths(n int, ends []int, lastOnly bool) []int {
	set := map[int]bool{}
	add := func(x int) {
		if x >= 0 && x <= n {
			set[x] = true
		}
	}
	start := 0
	if len(ends) >= 2 {
		start = ends[len(ends)-2]
	}
	lastRecord := func() {
		if n-start <= 4096 {
			for i := start + 1; i <= n; i++ {
				add(i)
			}
		} else {
			for i := 0; i <= 64; i++ {
				add(start + 1 + i)
				add(n - i)
			}
			for i := 1; i <= 16; i++ {
				add(start + (n-start)/17*i)
			}
		}
	}
	switch {
	case lastOnly:
		lastRecord()
	case n < 4096:
		for i := 0; i <= n; i++ {
			add(i)
		}
	default:
		for i := 0; i <= 9; i++ {
			add(i)
		}
		for _, b := range ends {
			add(b - 1)
			add(b)
			add(b + 1)
		}
		lastRecord()
	}
	r := make([]int, 0, len(set))
	for x := range set {
		r = append(r, x)
	}
	sort.Sort(sort.Reverse(sort.IntSlice(r)))
	return r
}

// A failed NewCacheFile does not close the file it opened; the descriptor is only released when
// the garbage collector finalises the os.File.  Millions of failing opens would exhaust the
// descriptor table, so a janitor goroutine watches the number of open descriptors and forces
// collections while it is high; the crash point workers only pause if the table is nearly full.
var (
	leakedFDs int64 // upper estimate of descriptors waiting for finalisation
	fdHigh    int64 = 600
)

func openFDs() int {
	d, err := os.Open("/proc/self/fd")
	if err != nil {
		return -1
	}
	defer d.Close()
	names, _ := d.Readdirnames(-1)
	return len(names)
}

// startJanitor returns a function that stops the janitor.
func startJanitor() func() {
	var rl syscall.Rlimit
	if err := syscall.Getrlimit(syscall.RLIMIT_NOFILE, &rl); err == nil && rl.Cur >= 1024 {
		lim := int64(1 << 16)
		if rl.Cur < 1<<16 {
			lim = int64(rl.Cur)
		}
		atomic.StoreInt64(&fdHigh, lim*6/10)
	}
	stop := make(chan struct{})
	done := make(chan struct{})
	go func() {
		defer close(done)
		for {
			select {
			case <-stop:
				return
			default:
			}
			if atomic.LoadInt64(&leakedFDs) < atomic.LoadInt64(&fdHigh)/4 {
				time.Sleep(time.Millisecond)
				continue
			}
			runtime.GC()
			time.Sleep(time.Millisecond) // finalisers run on their own goroutine
			if n := openFDs(); n >= 0 {
				atomic.StoreInt64(&leakedFDs, int64(n))
			} else {
				time.Sleep(20 * time.Millisecond)
				atomic.StoreInt64(&leakedFDs, 0)
			}
		}
	}()
	return func() { close(stop); <-done }
}

func waitForDescriptors() {
	for i := 0; atomic.LoadInt64(&leakedFDs) >= atomic.LoadInt64(&fdHigh) && i < 100000; i++ {
		time.Sleep(200 * time.Microsecond)
	}
}

// crashCheck opens every selected truncation of the current file in a scratch copy and compares
// what is served with the records that lie completely below the cut.  Violations are reported
// directly (one per file and symptom) and do not stop the exploration of the state.
//
// Keys: a failure that shows on a file of several records exactly as it showed on the file made
// of its last record alone (same failing lengths relative to the start of that record) is filed
// under the one-record file, the minimal counterexample; likewise an invalidated record that is
// served again is filed under the file holding only that record.
func (w *world) crashCheck() {
	e := w.e
	sig := w.physSig()
	if _, dup := e.stats.seen.LoadOrStore(sig, true); dup {
		return
	}
	data, err := os.ReadFile(w.path)
	if err != nil {
		mc.Fatal("c15: read %s: %v", w.path, err)
	}
	strict := w.physOK && int64(len(data)) == w.physSize()
	zero := w.zero
	ends := []int{int(e.headerSize)}
	if strict {
		zero = false
		for _, r := range w.phys {
			ends = append(ends, ends[len(ends)-1]+int(r.size))
			zero = zero || e.lists[r.list].zero
		}
	} else {
		atomic.AddInt64(&e.stats.weakFiles, 1)
	}
	sym := func(s string) string {
		if zero {
			return "zerochunk." + s
		}
		return s
	}
	atomic.AddInt64(&e.stats.files, 1)
	lastOnly := false
	if strict && len(w.phys) >= 2 {
		_, lastOnly = e.stats.seen.Load(e.sig(w.phys[:len(w.phys)-1]))
	}
	cuts := cutLengths(len(data), ends, lastOnly)
	if lastOnly {
		atomic.AddInt64(&e.stats.sharedPoints, int64(len(cutLengths(len(data), ends, false))-len(cuts)))
	}
	tmp := w.path + ".cut"
	defer os.Remove(tmp)
	curLen, dirty := -1, true
	var headerFail, openFail, wrong, contWrong []int
	var firstCont string
	resurrected := map[string][]int{} // "[id:list!]" -> lengths
	var firstErr, firstWrong string
	for _, n := range cuts {
		if time.Now().After(e.deadline) {
			atomic.StoreInt32(&e.stats.capped, 1)
			break
		}
		if dirty || curLen < n {
			if err := os.WriteFile(tmp, data[:n], 0o644); err != nil {
				mc.Fatal("c15: write scratch copy: %v", err)
			}
		} else if err := os.Truncate(tmp, int64(n)); err != nil {
			mc.Fatal("c15: truncate scratch copy: %v", err)
		}
		curLen, dirty = n, false
		atomic.AddInt64(&e.stats.points, 1)
		waitForDescriptors()
		c, err := openCache(tmp)
		if err != nil {
			// the failed open leaves its file descriptor to the garbage collector
			atomic.AddInt64(&e.stats.opensFailed, 1)
			atomic.AddInt64(&leakedFDs, 1)
			if n < int(e.headerSize) {
				headerFail = append(headerFail, n)
			} else {
				openFail = append(openFail, n)
				firstErr = fmt.Sprintf("length %d: %v", n, err)
			}
			if fileSize(tmp) != int64(n) {
				dirty = true
			}
			continue
		}
		atomic.AddInt64(&e.stats.opensOK, 1)
		dirty = true
		contained := 0
		matched := [numIDs]int{-1, -1, -1}
		allMatched := true
		for id := 0; id < numIDs; id++ {
			if c.Contains(uint64(id)) {
				contained++
			}
			atomic.AddInt64(&e.stats.contentChecks, 1)
			var accept []int
			var invalidated *rec // newest complete record of the id, if it was invalidated
			if strict {
				primary, alsoNothing := -1, false
				for i := range w.phys {
					r := &w.phys[i]
					if r.id != id {
						continue
					}
					if ends[i+1] <= n {
						if r.invalidated {
							primary, invalidated = -1, r
						} else {
							primary, invalidated = r.list, nil
						}
					} else if r.invalidated {
						// the cut record was invalidated later: the older complete record and
						// nothing are both defensible
						alsoNothing = true
					}
				}
				accept = []int{primary}
				if alsoNothing && primary >= 0 {
					accept = append(accept, -1)
				}
			} else {
				accept = []int{-1}
				for li := range w.hist[id] {
					accept = append(accept, li)
				}
				sort.Ints(accept)
			}
			var d *diff
			for _, li := range accept {
				if d = e.observeID(c, id, li); d == nil {
					matched[id] = li
					break
				}
			}
			if d == nil {
				continue
			}
			allMatched = false
			if invalidated != nil && e.observeID(c, id, invalidated.list) == nil {
				k := e.sig([]rec{*invalidated})
				resurrected[k] = append(resurrected[k], n)
				continue
			}
			wrong = append(wrong, n)
			firstWrong = fmt.Sprintf("length %d: %s", n, d.msg)
		}
		if got := c.StreamCount(); got != uint64(contained) {
			wrong = append(wrong, n)
			firstWrong = fmt.Sprintf("length %d: StreamCount()=%d but Contains is true for %d ids", n, got, contained)
		}
		// continuation: the recovered cache must keep working - one more store, read back, reopen.
		// Done for the cuts around the start of the last record (boundary, every byte of its 8-byte
		// header, one byte into its body) and for the full length.
		lastStart := ends[0]
		if len(ends) >= 2 {
			lastStart = ends[len(ends)-2]
		}
		if strict && !zero && allMatched && (n == len(data) || (n >= lastStart && n <= lastStart+9)) {
			atomic.AddInt64(&e.stats.continuations, 1)
			expect := matched
			expect[0] = 0
			if err := c.SetData(e.streams[0], e.data[0][0]); err != nil {
				contWrong = append(contWrong, n)
				firstCont = fmt.Sprintf("length %d: store after recovery fails: %v", n, err)
			} else if ds := e.observe(c, expect); len(ds) != 0 {
				contWrong = append(contWrong, n)
				firstCont = fmt.Sprintf("length %d: after recovery and one more store(0,%s): %s", n, e.lists[0].name, ds[0].msg)
			}
			c.Close()
			if c2, err := openCache(tmp); err != nil {
				contWrong = append(contWrong, n)
				firstCont = fmt.Sprintf("length %d: after recovery, one more store and a reopen NewCacheFile fails: %v", n, err)
				atomic.AddInt64(&leakedFDs, 1)
			} else {
				if ds := e.observe(c2, expect); len(ds) != 0 {
					contWrong = append(contWrong, n)
					firstCont = fmt.Sprintf("length %d: after recovery, store(0,%s) and a second reopen: %s", n, e.lists[0].name, ds[0].msg)
				}
				c2.Close()
			}
			continue
		}
		c.Close()
	}
	if len(contWrong) != 0 {
		e.report(mc.Violation{Symptom: "truncated.continuation-wrong", Key: "file=" + w.physSig(),
			Msg:    fmt.Sprintf("file %s (%d bytes): the cache recovered from truncation lengths %s does not keep working; %s", w.physSig(), len(data), ranges(uniq(contWrong)), firstCont),
			Replay: map[string]any{"file": w.physSig(), "lengths": contWrong}})
	}
	var bounds []string
	for _, b := range ends {
		bounds = append(bounds, fmt.Sprint(b))
	}
	desc := fmt.Sprintf("file %s, %d bytes, records end at [%s]", sig, len(data), strings.Join(bounds, " "))
	opsOf := w.names
	if strict {
		// canonical operation sequence producing this file (independent of which path got here first)
		opsOf = nil
		for _, r := range w.phys {
			opsOf = append(opsOf, fmt.Sprintf("store(%d,%s)", r.id, e.lists[r.list].name))
			if r.invalidated {
				opsOf = append(opsOf, fmt.Sprintf("invalidate(%d)", r.id))
			}
		}
	}
	replay := map[string]any{"file": sig, "ops": opsOf, "size": len(data), "record_ends": ends}
	single := strict && len(w.phys) == 1
	if len(headerFail) != 0 {
		e.report(mc.Violation{Symptom: "truncated.header.open-failed", Key: "file header",
			Msg:    fmt.Sprintf("a cache file cut inside its %d-byte file header (lengths %s) is refused by NewCacheFile instead of being opened as an empty cache (seen on %s)", e.headerSize, ranges(headerFail), desc),
			Replay: map[string]any{"file": sig, "lengths": headerFail}})
	}
	if len(openFail) != 0 {
		atomic.AddInt64(&e.stats.filesOpenFailed, 1)
		key := "file=" + sig
		if strict && len(w.phys) >= 1 {
			// failing lengths relative to the start of the last record
			lastStart := ends[len(ends)-2]
			var rel []int
			inLast := true
			for _, n := range openFail {
				rel = append(rel, n-lastStart)
				inLast = inLast && n > lastStart
			}
			last := w.phys[len(w.phys)-1]
			last.invalidated = false // a later invalidation does not change the bytes of the record
			lastSig := e.sig([]rec{last})
			pattern := sym("") + ranges(rel)
			if single && !w.phys[0].invalidated {
				e.stats.failPattern.Store(lastSig, pattern)
			} else if p, ok := e.stats.failPattern.Load(lastSig); ok && inLast && p.(string) == pattern {
				key = "file=" + lastSig
			}
		}
		e.report(mc.Violation{Symptom: sym("truncated.open-failed"), Key: key,
			Msg:    fmt.Sprintf("%s: NewCacheFile fails for %d of %d truncation lengths (%s); %s", desc, len(openFail), len(cuts), ranges(openFail), firstErr),
			Replay: replay})
	}
	var rkeys []string
	for k := range resurrected {
		rkeys = append(rkeys, k)
	}
	sort.Strings(rkeys)
	for _, k := range rkeys {
		atomic.AddInt64(&e.stats.filesResurrected, 1)
		key := "file=" + sig
		if single {
			e.stats.resPattern.Store(k, sym(""))
		} else if p, ok := e.stats.resPattern.Load(k); ok && p.(string) == sym("") {
			key = "file=" + k
		}
		e.report(mc.Violation{Symptom: sym("truncated.invalidated-served"), Key: key,
			Msg:    fmt.Sprintf("%s ('!' = invalidated): opened at truncation lengths %s the invalidated record %s is served again", desc, ranges(uniq(resurrected[k])), k),
			Replay: replay})
	}
	if len(wrong) != 0 {
		e.report(mc.Violation{Symptom: sym("truncated.wrong-content"), Key: "file=" + sig,
			Msg:    fmt.Sprintf("%s: at truncation lengths %s the opened file does not serve the newest complete record of every id; %s", desc, ranges(uniq(wrong)), firstWrong),
			Replay: replay})
	}
	if len(w.phys) >= 2 {
		e.stats.addSample(fmt.Sprintf("%s: %d truncation lengths, open failed for %d", desc, len(cuts), len(openFail)+len(headerFail)))
	}
}

func uniq(ns []int) []int {
	sort.Ints(ns)
	var r []int
	for i, x := range ns {
		if i == 0 || x != ns[i-1] {
			r = append(r, x)
		}
	}
	return r
}

// tally counts distinct (symptom, key) pairs per symptom and keeps the smallest key of each, so
// that the evidence shows every kind of alarm even when thousands of cases are reported.
type tally struct {
	mu    sync.Mutex
	seen  map[string]bool
	count map[string]int
	min   map[string]string
	msg   map[string]string
}

func newTally() *tally {
	return &tally{seen: map[string]bool{}, count: map[string]int{}, min: map[string]string{}, msg: map[string]string{}}
}

func (t *tally) add(v mc.Violation) {
	t.mu.Lock()
	defer t.mu.Unlock()
	k := v.Symptom + "\x00" + v.Key
	if t.seen[k] {
		return
	}
	t.seen[k] = true
	t.count[v.Symptom]++
	if m, ok := t.min[v.Symptom]; !ok || len(v.Key) < len(m) || (len(v.Key) == len(m) && v.Key < m) {
		t.min[v.Symptom] = v.Key
		t.msg[v.Symptom] = v.Msg
	}
}

func (t *tally) fill(c map[string]any) {
	t.mu.Lock()
	defer t.mu.Unlock()
	ex := map[string]string{}
	for s, k := range t.min {
		m := t.msg[s]
		if len(m) > 600 {
			m = m[:600] + "…"
		}
		ex[s] = k + " :: " + m
	}
	c["cases_by_symptom"] = t.count
	c["minimal_case_by_symptom"] = ex
}

func (e *env) report(v mc.Violation) {
	e.tally.add(v)
	e.rep.Report(v)
}
