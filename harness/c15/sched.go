package c15

// Interleavings of concurrent cache operations (engine E6): two or three threads with one or two operations each on
// one cache file, every schedule of their lock acquisitions up to a preemption bound, run on the real code under the
// cooperative scheduler of mc/sched.go.  The oracle is linearizability against the structure itself run
// sequentially: what the operations returned, what the file serves afterwards and what it serves after a reopen must
// be what SOME order of the operations (respecting each thread's own order) produces when they are run one after the
// other on a fresh file - the sequential behaviour is what the breadth-first exploration of this check has compared
// with the map model.

import (
	"fmt"
	"os"
	"path/filepath"
	"sort"
	"strings"

	"github.com/spq/pkappa2/internal/tools/bitmask"
	"github.com/spq/pkappa2/verifx/mc"
)

type sop struct {
	kind string // store | reset | inval | data | search | contains (each is ONE call of the cache's interface)
	id   int
	list int // index into env.lists (store)
}

func (o sop) String(e *env) string {
	switch o.kind {
	case "store":
		return fmt.Sprintf("store(%d,%s)", o.id, e.lists[o.list].name)
	case "inval":
		return fmt.Sprintf("invalidate(%d)", o.id)
	case "data", "search", "contains":
		return fmt.Sprintf("%s(%d)", o.kind, o.id)
	}
	return o.kind
}

type sscenario struct {
	init    []sop   // applied before the threads start
	threads [][]sop // one program per thread
}

func (s sscenario) Name(e *env) string {
	var parts []string
	for _, t := range s.threads {
		var ops []string
		for _, o := range t {
			ops = append(ops, o.String(e))
		}
		parts = append(parts, strings.Join(ops, ";"))
	}
	var in []string
	for _, o := range s.init {
		in = append(in, o.String(e))
	}
	return "init[" + strings.Join(in, ";") + "] " + strings.Join(parts, " || ")
}

// doOp runs one operation on the real cache and returns what a client observes of it.
func (e *env) doOp(cf cache, o sop) string {
	switch o.kind {
	case "store":
		if err := cf.SetData(e.streams[o.id], e.data[o.id][o.list]); err != nil {
			return "store error: " + err.Error()
		}
		return "stored"
	case "reset":
		if err := cf.Reset(); err != nil {
			return "reset error: " + err.Error()
		}
		return "reset"
	case "inval":
		var bm bitmask.LongBitmask
		bm.Set(uint(o.id))
		got := cf.InvalidateChangedStreams(&bm)
		return fmt.Sprintf("invalidated %v", got.IsSet(uint(o.id)))
	case "data":
		return e.readData(cf, o.id)
	case "search":
		return e.readSearch(cf, o.id)
	case "contains":
		return fmt.Sprintf("contains=%v", cf.Contains(uint64(o.id)))
	}
	mc.Fatal("c15 sched: unknown op %q", o.kind)
	return ""
}

func (e *env) readData(cf cache, id int) string {
	var sb strings.Builder
	d, cb, sbts, err := cf.Data(e.streams[id])
	if err != nil {
		fmt.Fprintf(&sb, "data-error=%v", err)
	} else {
		fmt.Fprintf(&sb, "data=%d/%d[", cb, sbts)
		for _, c := range d {
			fmt.Fprintf(&sb, "%d:%q@%d:%s,", c.Direction, c.Content, c.Time.Sub(e.streams[id].FirstPacket()).Microseconds(), c.ContentType)
		}
		sb.WriteString("]")
	}
	return sb.String()
}

func (e *env) readSearch(cf cache, id int) string {
	buf, sizes, cb2, sb2, ok, err := cf.DataForSearch(uint64(id))
	if err != nil {
		return fmt.Sprintf("search-error=%v", err)
	}
	return fmt.Sprintf("search=%v/%d/%d/%q/%q/%v", ok, cb2, sb2, buf[0], buf[1], sizes)
}

// readOne: everything a reader can learn about one stream (three calls; only used while nothing else runs).
func (e *env) readOne(cf cache, id int) string {
	return fmt.Sprintf("contains=%v %s %s", cf.Contains(uint64(id)), e.readData(cf, id), e.readSearch(cf, id))
}

func (e *env) readAll(cf cache) string {
	var parts []string
	for id := 0; id < numIDs; id++ {
		parts = append(parts, fmt.Sprintf("%d{%s}", id, e.readOne(cf, id)))
	}
	return fmt.Sprintf("count=%d ", cf.StreamCount()) + strings.Join(parts, " ")
}

// outcome of one execution: per-thread results, final state, state after reopen
type soutcome struct {
	results string
	final   string
	reopen  string
}

func (o soutcome) key() string { return o.results + "\n" + o.final + "\n" + o.reopen }

func (e *env) finish(path string, cf cache, results [][]string) soutcome {
	var rs []string
	for ti, r := range results {
		rs = append(rs, fmt.Sprintf("T%d:%s", ti, strings.Join(r, ";")))
	}
	out := soutcome{results: strings.Join(rs, " | ")}
	out.final = e.readAll(cf)
	if err := cf.Close(); err != nil {
		out.reopen = "close error: " + err.Error()
		return out
	}
	c2, err := openCache(path)
	if err != nil {
		out.reopen = "open error: " + err.Error()
		return out
	}
	out.reopen = e.readAll(c2)
	c2.Close()
	return out
}

// sequentialOutcomes runs every merge of the thread programs one operation after the other.
func (e *env) sequentialOutcomes(sc sscenario, dir string) map[string]string {
	out := map[string]string{}
	pos := make([]int, len(sc.threads))
	var order []int
	var rec func()
	n := 0
	rec = func() {
		done := true
		for ti := range sc.threads {
			if pos[ti] < len(sc.threads[ti]) {
				done = false
				pos[ti]++
				order = append(order, ti)
				rec()
				order = order[:len(order)-1]
				pos[ti]--
			}
		}
		if !done {
			return
		}
		n++
		p := filepath.Join(dir, fmt.Sprintf("seq-%d.cidx", n))
		os.Remove(p)
		cf, err := openCache(p)
		if err != nil {
			mc.Fatal("c15 sched: %v", err)
		}
		for _, o := range sc.init {
			e.doOp(cf, o)
		}
		results := make([][]string, len(sc.threads))
		at := make([]int, len(sc.threads))
		var names []string
		for _, ti := range order {
			o := sc.threads[ti][at[ti]]
			at[ti]++
			results[ti] = append(results[ti], e.doOp(cf, o))
			names = append(names, fmt.Sprintf("T%d.%s", ti, o.String(e)))
		}
		oc := e.finish(p, cf, results)
		os.Remove(p)
		if _, ok := out[oc.key()]; !ok {
			out[oc.key()] = strings.Join(names, " ; ")
		}
	}
	rec()
	return out
}

func schedScenarios(e *env, tier string) []sscenario {
	li := func(name string) int {
		for i, l := range e.lists {
			if l.name == name {
				return i
			}
		}
		mc.Fatal("c15 sched: no list %q", name)
		return 0
	}
	a, b, c := li("c1"), li("alt"), li("runs-ct")
	S := func(id, l int) sop { return sop{kind: "store", id: id, list: l} }
	R := sop{kind: "reset"}
	I := func(id int) sop { return sop{kind: "inval", id: id} }
	D := func(id int) sop { return sop{kind: "data", id: id} }
	F := func(id int) sop { return sop{kind: "search", id: id} }
	C := func(id int) sop { return sop{kind: "contains", id: id} }
	progs := [][]sop{
		{S(0, a)}, {S(0, b)}, {S(1, c)}, {R}, {I(0)}, {D(0)}, {F(0)},
		{S(0, b), D(0)}, {S(0, a), I(0)}, {R, S(1, c)}, {D(0), F(1)}, {I(0), S(0, b)}, {S(1, c), R}, {C(0), D(0)},
	}
	inits := [][]sop{nil, {S(0, a)}, {S(0, a), S(1, b)}}
	var out []sscenario
	for _, in := range inits {
		for i := range progs {
			for j := i; j < len(progs); j++ {
				out = append(out, sscenario{init: in, threads: [][]sop{progs[i], progs[j]}})
			}
		}
	}
	// three threads: a writer, a reset or invalidation, a reader or second writer
	three := [][][]sop{
		{{S(0, b)}, {R}, {D(0)}},
		{{S(0, b)}, {R}, {S(1, c)}},
		{{S(0, b)}, {I(0)}, {F(0)}},
		{{S(0, b), D(0)}, {R}, {S(1, c), F(1)}},
		{{S(0, a)}, {S(0, b)}, {I(0)}},
		{{S(2, a)}, {R}, {D(0), D(2)}},
	}
	if tier == "thorough" {
		three = append(three,
			[][]sop{{S(0, b), I(0)}, {R, S(0, a)}, {D(0), D(0)}},
			[][]sop{{S(0, a), S(1, b)}, {I(0), I(1)}, {R}},
			[][]sop{{S(0, b), D(0)}, {S(0, c), D(0)}, {I(0), D(0)}},
		)
	}
	for _, in := range inits {
		for _, t := range three {
			out = append(out, sscenario{init: in, threads: t})
		}
	}
	return out
}

// runSched explores all scenarios; returns coverage numbers.
func runSched(rep *mc.Reporter, e *env, tier string) map[string]any {
	bound := 2
	if tier == "thorough" {
		bound = 3
	}
	dir := filepath.Join(e.tmp, "sched")
	os.MkdirAll(dir, 0o755)
	scs := schedScenarios(e, tier)
	var st mc.SchedStats
	distinct := map[string]bool{}
	nonSeq := 0 // executions whose schedule is not one of whole operations (some operation was preempted inside)
	multiPhase := 0
	determinismChecked := 0
	for si, sc := range scs {
		name := sc.Name(e)
		allowed := e.sequentialOutcomes(sc, dir)
		nops := 0
		for _, t := range sc.threads {
			nops += len(t)
		}
		run := 0
		var firstKey string
		mk := func() ([]func(), any) {
			run++
			p := filepath.Join(dir, fmt.Sprintf("s%d-%d.cidx", si, run))
			os.Remove(p)
			cf, err := openCache(p)
			if err != nil {
				mc.Fatal("c15 sched: %v", err)
			}
			for _, o := range sc.init {
				e.doOp(cf, o)
			}
			results := make([][]string, len(sc.threads))
			var bodies []func()
			for ti := range sc.threads {
				ti := ti
				bodies = append(bodies, func() {
					for _, o := range sc.threads[ti] {
						results[ti] = append(results[ti], e.doOp(cf, o))
					}
				})
			}
			return bodies, &struct {
				path    string
				cf      cache
				results [][]string
			}{p, cf, results}
		}
		check := func(r *mc.SchedRun, ctx any) bool {
			x := ctx.(*struct {
				path    string
				cf      cache
				results [][]string
			})
			defer os.Remove(x.path)
			key := func(sym string) string { return name + " | schedule " + r.Schedule() + " | " + sym }
			if len(r.Points) > len(sc.threads)+nops {
				multiPhase++
			}
			if r.Deadlock {
				rep.Report(mc.Violation{Symptom: "sched.deadlock", Key: name, Msg: fmt.Sprintf("%s: schedule %s ends with threads blocked forever: %v", name, r.Schedule(), r.Blocked),
					Replay: map[string]any{"scenario": name, "choices": r.Choices()}})
				return true
			}
			if len(r.Panics) != 0 {
				rep.Report(mc.Violation{Symptom: "sched.panic", Key: name, Msg: fmt.Sprintf("%s: schedule %s: %v", name, r.Schedule(), r.Panics),
					Replay: map[string]any{"scenario": name, "choices": r.Choices()}})
				x.cf.Close()
				return true
			}
			oc := e.finish(x.path, x.cf, x.results)
			distinct[oc.key()] = true
			if firstKey == "" {
				firstKey = oc.key()
			}
			if _, ok := allowed[oc.key()]; !ok {
				_ = key
				var seqs []string
				for k, order := range allowed {
					seqs = append(seqs, "  after ["+order+"]: "+strings.ReplaceAll(k, "\n", "\n      "))
				}
				sort.Strings(seqs)
				if len(seqs) > 4 {
					seqs = append(seqs[:4], fmt.Sprintf("  ... (%d sequential outcomes)", len(allowed)))
				}
				rep.Report(mc.Violation{Symptom: "sched.not-linearizable", Key: name,
					Msg: fmt.Sprintf("%s: under schedule %s (threads in the order they were given the processor at lock acquisitions) the operations returned / the file serves / serves after a reopen:\n      %s\n    which no sequential order of the operations produces:\n%s",
						name, r.Schedule(), strings.ReplaceAll(oc.key(), "\n", "\n      "), strings.Join(seqs, "\n")),
					Replay: map[string]any{"scenario": name, "choices": r.Choices(), "bound": bound}})
			}
			return true
		}
		// the same schedule twice must give the same observation (nothing the scheduler does not own decides)
		{
			b1, c1 := mk()
			r1 := mc.RunSchedule(b1, nil)
			x1 := c1.(*struct {
				path    string
				cf      cache
				results [][]string
			})
			o1 := soutcome{}
			if !r1.Deadlock && len(r1.Panics) == 0 {
				o1 = e.finish(x1.path, x1.cf, x1.results)
			}
			os.Remove(x1.path)
			b2, c2 := mk()
			r2 := mc.RunSchedule(b2, r1.Choices())
			x2 := c2.(*struct {
				path    string
				cf      cache
				results [][]string
			})
			o2 := soutcome{}
			if !r2.Deadlock && len(r2.Panics) == 0 {
				o2 = e.finish(x2.path, x2.cf, x2.results)
			}
			os.Remove(x2.path)
			if o1.key() != o2.key() || r1.Schedule() != r2.Schedule() {
				mc.Fatal("c15 sched: %s: the default schedule run twice gave different observations:\n%s\n%s", name, o1.key(), o2.key())
			}
			determinismChecked++
		}
		mc.ExploreSchedules(bound, mk, check, &st)
		_ = nonSeq
	}
	return map[string]any{
		"interleaving_scenarios":                len(scs),
		"interleaving_executions":               st.Executions,
		"interleaving_scheduling_points":        st.Points,
		"interleaving_max_points_per_execution": st.MaxPoints,
		"interleaving_preemption_bound":         bound,
		"interleaving_distinct_outcomes":        len(distinct),
		"interleaving_executions_with_an_operation_in_several_critical_sections": multiPhase,
		"interleaving_replay_checks":            determinismChecked,
		"interleaving_rule": "2-3 threads x 1-2 operations (store, reset, invalidate, Data, DataForSearch, Contains - one call each) on one cache file from three initial contents; every schedule of lock acquisitions with at most the bound of preemptions on the real code (sync rewritten to a scheduling shim by the build overlay); outcome (results, served state, state after reopen) must equal that of some sequential order of the operations run on the real code",
	}
}
