package c15

import (
	"os"
	"runtime"
	"runtime/debug"
	"strconv"
	"strings"
	"sync"
	"sync/atomic"
	"time"
)

// Memory guard.  Data and DataForSearch allocate buffers whose sizes are read from the file; an
// implementation that reads a record at a wrong offset takes content bytes for sizes and
// allocates gigabytes per call (seen with a mutant whose compaction does not update offsets: 16
// workers drove the machine out of memory).  The guard watches the resident set:
//
//   - above memSoft the observers of all worlds are serialised and collections are forced, so at
//     most one such buffer is alive at a time;
//   - above memHard the exploration is abandoned: no further operation is enabled, a
//     "resource.memory-blowup" violation is reported and the run is marked non-exhaustive.
var (
	memPressure int32
	memAbort    int32
	observeMu   sync.Mutex
	memSoft     int64 = 8 << 30
	memHard     int64 = 24 << 30
)

func rssBytes() int64 {
	b, err := os.ReadFile("/proc/self/statm")
	if err != nil {
		var ms runtime.MemStats
		runtime.ReadMemStats(&ms)
		return int64(ms.Sys - ms.HeapReleased)
	}
	f := strings.Fields(string(b))
	if len(f) < 2 {
		return 0
	}
	pages, _ := strconv.ParseInt(f[1], 10, 64)
	return pages * int64(os.Getpagesize())
}

func memTotal() int64 {
	b, err := os.ReadFile("/proc/meminfo")
	if err != nil {
		return 0
	}
	for _, l := range strings.Split(string(b), "\n") {
		if strings.HasPrefix(l, "MemTotal:") {
			f := strings.Fields(l)
			if len(f) >= 2 {
				kb, _ := strconv.ParseInt(f[1], 10, 64)
				return kb << 10
			}
		}
	}
	return 0
}

// startMemGuard returns a function that stops the guard.
func startMemGuard() func() {
	if t := memTotal(); t > 0 {
		if t*4/10 < memHard {
			memHard = t * 4 / 10
		}
		if memHard/4 < memSoft {
			memSoft = memHard / 4
		}
	}
	stop := make(chan struct{})
	done := make(chan struct{})
	go func() {
		defer close(done)
		lastFree := time.Now()
		for {
			select {
			case <-stop:
				return
			case <-time.After(10 * time.Millisecond):
			}
			rss := rssBytes()
			switch {
			case rss > memHard:
				atomic.StoreInt32(&memAbort, 1)
				atomic.StoreInt32(&memPressure, 1)
			case rss > memSoft:
				atomic.StoreInt32(&memPressure, 1)
			case rss < memSoft/2:
				atomic.StoreInt32(&memPressure, 0)
			}
			if atomic.LoadInt32(&memPressure) != 0 && time.Since(lastFree) > 100*time.Millisecond {
				debug.FreeOSMemory()
				lastFree = time.Now()
			}
		}
	}()
	return func() { close(stop); <-done }
}

// guarded runs f; under memory pressure only one guarded call runs at a time.
func guarded(f func()) {
	if atomic.LoadInt32(&memPressure) != 0 {
		observeMu.Lock()
		defer observeMu.Unlock()
	}
	f()
}
