package c15

import (
	"fmt"
	"net/netip"
	"os"
	"path/filepath"
	"time"

	"github.com/gopacket/gopacket"
	"github.com/gopacket/gopacket/reassembly"
	"github.com/spq/pkappa2/internal/index"
	"github.com/spq/pkappa2/internal/index/converters"
	"github.com/spq/pkappa2/internal/index/streams"
	"github.com/spq/pkappa2/internal/tools/bitmask"
	pcapmetadata "github.com/spq/pkappa2/internal/tools/pcapMetadata"
	"github.com/spq/pkappa2/verifx/mc"
)

const numIDs = 3

// cache is the public surface of the (unexported) cache file type returned by
// converters.NewCacheFile; only exported methods are used.
type cache interface {
	Close() error
	StreamCount() uint64
	Reset() error
	Contains(streamID uint64) bool
	Data(stream *index.Stream) ([]index.Data, uint64, uint64, error)
	DataForSearch(streamID uint64) ([2][]byte, [][2]int, uint64, uint64, bool, error)
	SetData(stream *index.Stream, convertedPackets []index.Data) error
	InvalidateChangedStreams(streams *bitmask.LongBitmask) bitmask.LongBitmask
}

func openCache(path string) (cache, error) {
	c, err := converters.NewCacheFile(path)
	if err != nil {
		return nil, err
	}
	return c, nil
}

// chunk is one element of a converter output, its time given in microseconds relative to the
// first packet of the stream it is stored for.
type chunk struct {
	dir     index.Direction
	content string
	offUS   int64
	ct      string
}

type chunkList struct {
	name   string
	chunks []chunk
	zero   bool // contains a zero-length chunk (preservation of such chunks is not promised)
	big    bool // > 16 MiB, only used by the compaction exploration of the thorough tier
}

const (
	c2s = index.DirectionClientToServer
	s2c = index.DirectionServerToClient
)

func longContentType() string {
	s := "application/x-"
	for len(s) < 130 {
		s += "very-long-"
	}
	return s
}

func repeat(s string, n int) string {
	b := make([]byte, 0, n)
	for len(b) < n {
		b = append(b, s...)
	}
	return string(b[:n])
}

// smallLists is the store alphabet of the main exploration.
func smallLists(tier string) []chunkList {
	l := []chunkList{
		{name: "c1", chunks: []chunk{{c2s, "hello", 0, ""}}},
		{name: "alt", chunks: []chunk{{c2s, "GET /\x00\xff\x80", 10, ""}, {s2c, "200 OK", 1500, ""}, {c2s, "more", 1500, ""}, {s2c, "bye", 2_000_000, ""}}},
		{name: "sfirst", chunks: []chunk{{s2c, "banner", 5, ""}, {c2s, "user", 7, ""}}},
		{name: "runs", chunks: []chunk{{c2s, "a", 1, ""}, {c2s, "bb", 1, ""}, {s2c, "ccc", 2, ""}, {s2c, "dddd", 3, ""}, {s2c, "e", 3, ""}}},
		{name: "runs-ct", chunks: []chunk{{c2s, "x1", 0, "text/plain"}, {c2s, "x2", 1, ""}, {s2c, "y1", 2, "application/json"}, {s2c, "y2", 3, "application/json"}, {c2s, "z", 4, ""}}},
		{name: "ct-first", chunks: []chunk{{c2s, "req", 0, "a/b"}, {s2c, "resp", 1, ""}}},
		{name: "ct-last10", chunks: []chunk{{c2s, "0", 0, ""}, {s2c, "1", 1, ""}, {c2s, "2", 2, ""}, {s2c, "3", 3, ""}, {c2s, "4", 4, ""},
			{c2s, "5", 5, ""}, {s2c, "6", 6, ""}, {s2c, "7", 7, "seven"}, {s2c, "8", 7, ""}, {c2s, "9", 9, "last"}}},
		{name: "ct-every", chunks: []chunk{{s2c, "p", 0, "t/1"}, {s2c, "q", 0, "t/2"}, {c2s, "r", 1, "t/1"}}},
		{name: "empty", chunks: nil},
		{name: "s-long", chunks: []chunk{{s2c, repeat("0123456789abcdef", 300), 3_600_000_000, longContentType()}}},
		// a converter may emit chunks with empty content (converters.go appends them unfiltered)
		{name: "zero-mid", zero: true, chunks: []chunk{{c2s, "a", 1, ""}, {s2c, "", 2, ""}, {c2s, "b", 3, "t/z"}}},
	}
	// chunk times that go back (a chunk earlier than its predecessor, a chunk before the stream's first packet)
	l = append(l, chunkList{name: "time-back", chunks: []chunk{{c2s, "a", 100, ""}, {s2c, "b", 50, ""}, {c2s, "c", -20, "neg"}}})
	if tier == "thorough" {
		l = append(l,
			chunkList{name: "zero-run", zero: true, chunks: []chunk{{c2s, "a", 1, ""}, {c2s, "", 2, ""}, {c2s, "b", 3, ""}}},
		)
	}
	return l
}

const bigSize = 16 * 1024 * 1024

// bigLists is the store alphabet of the compaction exploration: one list whose record is larger
// than the 16 MiB the implementation wants to see free before it compacts at run time, and two
// small ones.
func bigLists() []chunkList {
	return []chunkList{
		{name: "big", big: true, chunks: []chunk{{c2s, repeat("PKAPPA2-verif-0123456789", bigSize), 1, ""}, {s2c, "ok", 2, "big/ct"}}},
		{name: "c1", chunks: []chunk{{c2s, "hello", 0, ""}}},
		{name: "runs-ct", chunks: []chunk{{c2s, "x1", 0, "text/plain"}, {c2s, "x2", 1, ""}, {s2c, "y1", 2, "application/json"}, {s2c, "y2", 3, "application/json"}, {c2s, "z", 4, ""}}},
	}
}

// env is everything shared (read-only) between the worlds of one exploration.
type env struct {
	rep     *mc.Reporter
	tmp     string
	reader  *index.Reader
	streams [numIDs]*index.Stream
	lists   []chunkList
	// data[id][list] is what gets stored, want[id][list] what must be read back (zero-length
	// chunks removed: their preservation is not part of the property).
	data [numIDs][][]index.Data
	want [numIDs][][]index.Data
	// measured on the real code in a fresh file: size of the header and of every record
	headerSize int64
	recSize    [numIDs][]int64
	ops        []op
	crashDepth int
	deadline   time.Time
	stats      *crashStats
	tally      *tally
}

func scratchRoot() string {
	// Close() of the cache file fsyncs; on a disk backed /tmp this dominates everything, so prefer
	// a memory file system unless the caller chose a directory.
	if os.Getenv("TMPDIR") == "" {
		if fi, err := os.Stat("/dev/shm"); err == nil && fi.IsDir() {
			return "/dev/shm"
		}
	}
	return ""
}

// buildIndex writes a real three-stream index (ids 0,1,2) with index.Writer and returns the
// stream handles read back from it.
func buildIndex(dir string) (*index.Reader, [numIDs]*index.Stream) {
	var res [numIDs]*index.Stream
	w, err := index.NewWriter(filepath.Join(dir, "c15.idx"))
	if err != nil {
		mc.Fatal("c15: index.NewWriter: %v", err)
	}
	base := time.Date(2024, 5, 6, 7, 8, 9, 0, time.UTC)
	// first packets: second-aligned, microsecond-aligned, and 500 ns off a microsecond
	starts := [numIDs]time.Duration{0, 1500 * time.Millisecond, 3*time.Second + 250*time.Microsecond + 500*time.Nanosecond}
	for id := 0; id < numIDs; id++ {
		t := base.Add(starts[id])
		client := netip.MustParseAddrPort(fmt.Sprintf("10.0.0.%d:%d", id+1, 40000+id))
		server := netip.MustParseAddrPort("10.0.1.1:80")
		payload := []string{"ping", "pong"}
		info := &pcapmetadata.PcapInfo{
			Filename: fmt.Sprintf("c15-%d.pcap", id), Filesize: 123,
			PacketTimestampMin: t, PacketTimestampMax: t.Add(4 * time.Second),
			ParseTime: t.Add(time.Minute), PacketCount: uint(len(payload)) + 2,
		}
		var pkts []gopacket.CaptureInfo
		var dirs []reassembly.TCPFlowDirection
		var sd []streams.StreamData
		add := func(ts time.Time, d reassembly.TCPFlowDirection) {
			pkts = append(pkts, gopacket.CaptureInfo{Timestamp: ts, CaptureLength: 123, Length: 123})
			dirs = append(dirs, d)
		}
		add(t, reassembly.TCPDirClientToServer)
		d := reassembly.TCPDirClientToServer
		for i, p := range payload {
			add(t.Add(time.Second*time.Duration(i+1)), d)
			sd = append(sd, streams.StreamData{Bytes: []byte(p), PacketIndex: uint64(i + 1)})
			d = d.Reverse()
		}
		add(t.Add(4*time.Second), reassembly.TCPDirClientToServer)
		for i := range pkts {
			pcapmetadata.AddPcapMetadata(&pkts[i], info, uint64(i))
		}
		s := streams.Stream{
			ClientAddr: client.Addr().AsSlice(), ServerAddr: server.Addr().AsSlice(),
			ClientPort: client.Port(), ServerPort: server.Port(),
			Packets: pkts, PacketDirections: dirs, Data: sd,
			Flags: streams.StreamFlagsComplete | streams.StreamFlagsProtocolTCP,
		}
		ok, err := w.AddStream(&s, uint64(id))
		if err != nil || !ok {
			mc.Fatal("c15: AddStream(%d): ok=%v err=%v", id, ok, err)
		}
	}
	r, err := w.Finalize()
	if err != nil {
		mc.Fatal("c15: Finalize: %v", err)
	}
	for id := 0; id < numIDs; id++ {
		s, err := r.StreamByID(uint64(id))
		if err != nil || s == nil {
			mc.Fatal("c15: StreamByID(%d): %v", id, err)
		}
		if s.ID() != uint64(id) || !s.FirstPacket().Equal(base.Add(starts[id])) {
			mc.Fatal("c15: stream %d read back as id %d first packet %v", id, s.ID(), s.FirstPacket())
		}
		res[id] = s
	}
	return r, res
}

func newEnv(rep *mc.Reporter, lists []chunkList, crashDepth int) *env {
	tmp, err := os.MkdirTemp(scratchRoot(), "verif-c15-")
	if err != nil {
		mc.Fatal("c15: %v", err)
	}
	e := &env{rep: rep, tmp: tmp, lists: lists, crashDepth: crashDepth, stats: &crashStats{}, tally: newTally(), deadline: time.Now().Add(24 * time.Hour)}
	e.reader, e.streams = buildIndex(tmp)
	for id := 0; id < numIDs; id++ {
		t0 := e.streams[id].FirstPacket()
		for _, l := range lists {
			var d, want []index.Data
			for _, c := range l.chunks {
				x := index.Data{Direction: c.dir, Content: []byte(c.content), Time: t0.Add(time.Duration(c.offUS) * time.Microsecond), ContentType: c.ct}
				d = append(d, x)
				if len(c.content) != 0 {
					want = append(want, x)
				}
			}
			e.data[id] = append(e.data[id], d)
			e.want[id] = append(e.want[id], want)
		}
	}
	// calibration: record sizes as produced by the code under test
	for id := 0; id < numIDs; id++ {
		for li := range lists {
			p := filepath.Join(tmp, "calib.cidx")
			c, err := openCache(p)
			if err != nil {
				mc.Fatal("c15: NewCacheFile on a fresh path: %v", err)
			}
			h := fileSize(p)
			if e.headerSize != 0 && e.headerSize != h {
				mc.Fatal("c15: header size not constant: %d vs %d", e.headerSize, h)
			}
			e.headerSize = h
			if err := c.SetData(e.streams[id], e.data[id][li]); err != nil {
				mc.Fatal("c15: SetData(%d,%s) on a fresh file: %v", id, lists[li].name, err)
			}
			e.recSize[id] = append(e.recSize[id], fileSize(p)-h)
			c.Close()
			os.Remove(p)
		}
	}
	for i := 0; i < scratchDirs; i++ {
		if err := os.Mkdir(filepath.Join(tmp, fmt.Sprintf("d%03d", i)), 0o755); err != nil {
			mc.Fatal("c15: %v", err)
		}
	}
	e.ops = buildOps(lists)
	return e
}

func (e *env) cleanup() {
	if e.reader != nil {
		e.reader.Close()
	}
	os.RemoveAll(e.tmp)
}

func fileSize(p string) int64 {
	fi, err := os.Stat(p)
	if err != nil {
		mc.Fatal("c15: stat %s: %v", p, err)
	}
	return fi.Size()
}
