package c15

import (
	"fmt"
	"io"
	"log"

	"github.com/spq/pkappa2/verifx/mc"
)

// Replay applies the named operations (as printed in a violation's replay path, e.g.
// "store(0,c1)", "invalidate(0)", "reopen") to a fresh cache file and prints what every step
// reports.  It returns 1 if a step reported a violation.
func Replay(tier string, names []string) int {
	log.SetOutput(io.Discard)
	rep := mc.NewReporter("C15", tier, "model_checking")
	e := newEnv(rep, append(smallLists(tier), bigLists()[:1]...), 0)
	defer e.cleanup()
	w := e.newWorld()
	defer w.Close()
	code := 0
	for _, n := range names {
		oi := -1
		for i, o := range e.ops {
			if o.name == n {
				oi = i
			}
		}
		if oi < 0 {
			fmt.Printf("unknown operation %q\n", n)
			return 2
		}
		if !w.Enabled(oi) {
			fmt.Printf("%s: not enabled (cache could not be reopened)\n", n)
			return 1
		}
		viol := w.Apply(oi)
		fmt.Printf("%-24s model: %s file: %s (%d bytes) bookkeeping: %s\n", n, w.liveSig(), w.physSig(), fileSize(w.path), bookkeeping(w.cf))
		for _, v := range viol {
			fmt.Printf("   VIOLATION %s: %s\n", v.Symptom, v.Msg)
			code = 1
		}
	}
	return code
}
