// Package c15: the converter cache file (internal/index/converters/cachefile.go) against a map
// from stream id to the latest stored chunk list.
//
// Exploration: breadth-first over sequences of store / invalidate / reset / reopen on a real cache
// file and three streams of a real index; after every operation every observer (Contains,
// StreamCount, Data, DataForSearch) is compared with the map.  For every reached file (up to a
// depth bound) every truncation length of the file is opened in a scratch copy and compared with
// the records that lie completely below the cut (crash.go).
package c15

import (
	"bytes"
	"fmt"
	"io"
	"log"
	"os"
	"path/filepath"
	"reflect"
	"sort"
	"strings"
	"sync/atomic"
	"time"

	"github.com/spq/pkappa2/internal/index"
	"github.com/spq/pkappa2/internal/tools/bitmask"
	"github.com/spq/pkappa2/verifx/mc"
)

type op struct {
	name string
	kind string // store | invalidate | reset | reopen
	id   int
	list int
	mask int
}

func buildOps(lists []chunkList) []op {
	var ops []op
	for id := 0; id < numIDs; id++ {
		for li, l := range lists {
			ops = append(ops, op{name: fmt.Sprintf("store(%d,%s)", id, l.name), kind: "store", id: id, list: li})
		}
	}
	for m := 1; m < 1<<numIDs; m++ {
		var ids []string
		for id := 0; id < numIDs; id++ {
			if m&(1<<id) != 0 {
				ids = append(ids, fmt.Sprint(id))
			}
		}
		ops = append(ops, op{name: "invalidate(" + strings.Join(ids, ",") + ")", kind: "invalidate", mask: m})
	}
	ops = append(ops, op{name: "reset", kind: "reset"}, op{name: "reopen", kind: "reopen"})
	return ops
}

// rec is one record of the model of the file: which list was appended for which id, and whether
// the entry was invalidated afterwards.  Sizes are the ones measured during calibration.
type rec struct {
	id, list    int
	size        int64
	invalidated bool // invalidated while it was the entry of its id
}

type world struct {
	e    *env
	path string
	cf   cache
	// reference model: id -> list index, -1 = nothing
	live    [numIDs]int
	invalid [numIDs]bool // nothing because of an invalidation (as opposed to never stored / reset)
	// model of the file (never used to raise a layout alarm; only to know which records are
	// complete below a cut).  physOK=false: the observed file size contradicted the model.
	phys   []rec
	physOK bool
	hist   [numIDs]map[int]bool // lists ever appended for the id since the last reset
	names  []string
	opIdx  []int
	zero   bool // a list with a zero-length chunk was stored on this path
	quiet  bool // minimisation run: no crash points, no tally
}

var worldSeq int64

const scratchDirs = 512

func (e *env) newWorld() *world {
	w := &world{e: e, physOK: true}
	for i := range w.live {
		w.live[i] = -1
		w.hist[i] = map[int]bool{}
	}
	// spread the scratch files over many directories: creating and unlinking files serialises on
	// the directory
	seq := atomic.AddInt64(&worldSeq, 1)
	w.path = filepath.Join(e.tmp, fmt.Sprintf("d%03d", seq%scratchDirs), fmt.Sprintf("w%d.cidx", seq))
	c, err := openCache(w.path)
	if err != nil {
		mc.Fatal("c15: NewCacheFile on a fresh path: %v", err)
	}
	w.cf = c
	return w
}

func (w *world) Enabled(int) bool {
	// past the deadline nothing is enabled: the BFS only looks at the clock between frontier
	// entries, which is too coarse when a broken implementation makes every step slow
	return w.cf != nil && atomic.LoadInt32(&memAbort) == 0 && (w.quiet || time.Now().Before(w.e.deadline))
}

func (w *world) Close() {
	if w.cf != nil {
		w.cf.Close()
		w.cf = nil
	}
	os.Remove(w.path)
}

func (w *world) sym(s string) string {
	if w.zero {
		return "zerochunk." + s
	}
	return s
}

func (w *world) key() string { return strings.Join(w.names, " ; ") }

func (w *world) Apply(oi int) []mc.Violation {
	viol := w.apply(oi)
	if w.quiet || len(viol) == 0 {
		return viol
	}
	// file every violation under the shortest operation sequence that still shows it
	for i := range viol {
		v := &viol[i]
		if min, msg := w.e.minimize(w.opIdx, v.Symptom); len(min) < len(w.opIdx) {
			names := make([]string, len(min))
			for j, o := range min {
				names[j] = w.e.ops[o].name
			}
			v.Key = strings.Join(names, " ; ")
			v.Msg = fmt.Sprintf("%s [shortest sequence showing it: %s]", msg, v.Key)
			v.Replay = map[string]any{"path": names}
		}
		w.e.tally.add(*v)
	}
	return viol
}

// minimize removes operations from path (keeping the last one) as long as the sequence still runs
// clean up to its last operation and that one still reports symptom.
func (e *env) minimize(path []int, symptom string) ([]int, string) {
	cur := append([]int(nil), path...)
	msg := ""
	for i := 0; i < len(cur)-1; {
		cand := append(append([]int(nil), cur[:i]...), cur[i+1:]...)
		if m, ok := e.reproduces(cand, symptom); ok {
			cur, msg = cand, m
		} else {
			i++
		}
	}
	return cur, msg
}

func (e *env) reproduces(path []int, symptom string) (string, bool) {
	w := e.newWorld()
	w.quiet = true
	defer w.Close()
	for i, o := range path {
		if !w.Enabled(o) {
			return "", false
		}
		viol := w.apply(o)
		if i < len(path)-1 {
			if len(viol) != 0 {
				return "", false
			}
			continue
		}
		for _, v := range viol {
			if v.Symptom == symptom {
				return v.Msg, true
			}
		}
	}
	return "", false
}

func (w *world) apply(oi int) []mc.Violation {
	e := w.e
	o := e.ops[oi]
	w.names = append(w.names, o.name)
	w.opIdx = append(w.opIdx, oi)
	var viol []mc.Violation
	bad := func(sym, format string, args ...any) {
		viol = append(viol, mc.Violation{Symptom: w.sym(sym), Key: w.key(), Msg: fmt.Sprintf(format, args...)})
	}
	before := fileSize(w.path)
	resurrectable := [numIDs]int{-1, -1, -1}
	switch o.kind {
	case "store":
		if e.lists[o.list].zero {
			w.zero = true
		}
		if err := w.cf.SetData(e.streams[o.id], e.data[o.id][o.list]); err != nil {
			bad("store.error", "SetData(%d,%s): %v", o.id, e.lists[o.list].name, err)
			return viol
		}
		w.live[o.id], w.invalid[o.id] = o.list, false
		w.hist[o.id][o.list] = true
		w.physStore(o.id, o.list, before, fileSize(w.path))
	case "invalidate":
		var bm bitmask.LongBitmask
		var want []int
		for id := 0; id < numIDs; id++ {
			if o.mask&(1<<id) != 0 {
				bm.Set(uint(id))
				if w.live[id] >= 0 {
					want = append(want, id)
				}
			}
		}
		got := w.cf.InvalidateChangedStreams(&bm)
		var gotIDs []int
		for b := uint(0); got.Next(&b); b++ {
			gotIDs = append(gotIDs, int(b))
		}
		if fmt.Sprint(gotIDs) != fmt.Sprint(want) {
			bad("invalidate.result", "InvalidateChangedStreams(%s) returned %v, the cached ones among them are %v", o.name, gotIDs, want)
		}
		for _, id := range want {
			w.live[id], w.invalid[id] = -1, true
			for i := len(w.phys) - 1; i >= 0; i-- {
				if w.phys[i].id == id {
					w.phys[i].invalidated = true
					break
				}
			}
		}
		if fileSize(w.path) != before {
			w.physOK = false
		}
	case "reset":
		if err := w.cf.Reset(); err != nil {
			bad("reset.error", "Reset: %v", err)
			return viol
		}
		for id := range w.live {
			w.live[id], w.invalid[id] = -1, false
			w.hist[id] = map[int]bool{}
		}
		w.phys = nil
		w.physOK = fileSize(w.path) == e.headerSize
	case "reopen":
		if err := w.cf.Close(); err != nil {
			w.cf = nil
			bad("close.error", "Close: %v", err)
			return viol
		}
		w.cf = nil
		c, err := openCache(w.path)
		if err != nil {
			bad("reopen.open-failed", "NewCacheFile on the file written by this sequence failed: %v", err)
			return viol
		}
		w.cf = c
		// which invalidated entries does the file still hold as the newest record of their id?
		for id := 0; id < numIDs; id++ {
			if !w.invalid[id] {
				continue
			}
			for i := len(w.phys) - 1; i >= 0; i-- {
				if w.phys[i].id == id {
					if w.phys[i].invalidated {
						resurrectable[id] = w.phys[i].list
					}
					break
				}
			}
		}
		w.physReopen(fileSize(w.path))
	}
	// observers
	expect := w.live
	if o.kind == "reopen" {
		var res []string
		for id := 0; id < numIDs; id++ {
			if resurrectable[id] >= 0 && w.cf.Contains(uint64(id)) {
				if d := e.observeID(w.cf, id, resurrectable[id]); d == nil {
					res = append(res, fmt.Sprintf("%d:%s", id, e.lists[resurrectable[id]].name))
					expect[id] = resurrectable[id] // compare the rest against what is served to avoid duplicates
				}
			}
		}
		if len(res) != 0 {
			bad("reopen.invalidated-served", "after Close + NewCacheFile the invalidated entries %v are served again (Contains=true, Data returns the stale chunks)", res)
		}
	}
	for _, d := range e.observe(w.cf, expect) {
		bad(o.kind+"."+d.observer, "%s", d.msg)
	}
	if len(viol) == 0 && !w.quiet && len(w.names) <= e.crashDepth {
		w.crashCheck()
	}
	return viol
}

// physStore appends a record to the model of the file.  If the observed size does not fit a plain
// append, the hypothesis "the implementation compacted first" is tried; if that does not fit
// either the file model is given up for this world (weaker crash-point oracle, never an alarm).
func (w *world) physStore(id, list int, before, after int64) {
	if !w.physOK {
		return
	}
	sz := w.e.recSize[id][list]
	if after != before+sz {
		// compaction from the first invalidated record on: every record behind it that is not the
		// current entry of its id disappears
		first := -1
		for i, r := range w.phys {
			if r.invalidated {
				first = i
				break
			}
		}
		if first >= 0 {
			w.phys = append(w.phys[:first:first], w.keepCurrent(w.phys[first:], true)...)
		}
		if after != w.physSize()+sz {
			w.physOK = false
			return
		}
		atomic.AddInt64(&w.e.stats.runtimeCompactions, 1)
	}
	w.phys = append(w.phys, rec{id: id, list: list, size: sz})
}

// keepCurrent returns the records that are the newest of their id within all of w.phys.
func (w *world) keepCurrent(part []rec, dropInvalidated bool) []rec {
	newest := map[int]int{}
	for i, r := range w.phys {
		newest[r.id] = i
	}
	base := len(w.phys) - len(part)
	var out []rec
	for i, r := range part {
		if newest[r.id] == base+i && !(dropInvalidated && r.invalidated) {
			out = append(out, r)
		}
	}
	return out
}

func (w *world) physSize() int64 {
	s := w.e.headerSize
	for _, r := range w.phys {
		s += r.size
	}
	return s
}

func (w *world) physReopen(after int64) {
	if !w.physOK {
		return
	}
	if after == w.physSize() {
		return // nothing moved
	}
	// compaction on open: only the newest record of every id survives; an implementation that
	// makes invalidation durable also drops the invalidated ones
	for _, dropInvalidated := range []bool{false, true} {
		cand := w.keepCurrent(w.phys, dropInvalidated)
		s := w.e.headerSize
		for _, r := range cand {
			s += r.size
		}
		if s == after {
			w.phys = cand
			return
		}
	}
	w.physOK = false
}

func (w *world) physSig() string {
	if !w.physOK {
		return "unknown-layout after " + w.key()
	}
	return w.e.sig(w.phys)
}

func (e *env) sig(phys []rec) string {
	var sb strings.Builder
	sb.WriteString("[")
	for i, r := range phys {
		if i > 0 {
			sb.WriteString(" ")
		}
		fmt.Fprintf(&sb, "%d:%s", r.id, e.lists[r.list].name)
		if r.invalidated {
			sb.WriteString("!")
		}
	}
	sb.WriteString("]")
	return sb.String()
}

func (w *world) liveSig() string {
	var sb strings.Builder
	for id, l := range w.live {
		switch {
		case l >= 0:
			fmt.Fprintf(&sb, "%d=%s ", id, w.e.lists[l].name)
		case w.invalid[id]:
			fmt.Fprintf(&sb, "%d=invalidated ", id)
		default:
			fmt.Fprintf(&sb, "%d=- ", id)
		}
	}
	return sb.String()
}

func (w *world) Canon() string {
	if w.cf == nil {
		return "dead " + w.key()
	}
	return w.liveSig() + "|" + w.physSig() + "|" + bookkeeping(w.cf)
}

func (w *world) Outcome() string {
	var sb strings.Builder
	for id, l := range w.live {
		if l >= 0 {
			fmt.Fprintf(&sb, "%d=%s ", id, w.e.lists[l].name)
		}
	}
	return sb.String()
}

// bookkeeping renders the in-memory bookkeeping of the cache object without naming its fields:
// every integer field by value (file size, free size, ...), every map as key -> ranks of the
// integer fields of its values (offsets by rank).  Pointers, strings and locks (file handle,
// path, mutex) are not part of the state.
func bookkeeping(c any) string {
	v := reflect.ValueOf(c)
	for v.Kind() == reflect.Ptr || v.Kind() == reflect.Interface {
		v = v.Elem()
	}
	if v.Kind() != reflect.Struct {
		return mc.Dump(c)
	}
	var sb strings.Builder
	for i := 0; i < v.NumField(); i++ {
		f := v.Field(i)
		switch f.Kind() {
		case reflect.Int, reflect.Int8, reflect.Int16, reflect.Int32, reflect.Int64:
			fmt.Fprintf(&sb, "%d ", f.Int())
		case reflect.Uint, reflect.Uint8, reflect.Uint16, reflect.Uint32, reflect.Uint64:
			fmt.Fprintf(&sb, "%d ", f.Uint())
		case reflect.Map:
			type entry struct {
				key  string
				vals []int64
			}
			var es []entry
			it := f.MapRange()
			for it.Next() {
				en := entry{key: scalar(it.Key())}
				val := it.Value()
				if val.Kind() == reflect.Struct {
					for j := 0; j < val.NumField(); j++ {
						switch val.Field(j).Kind() {
						case reflect.Int, reflect.Int8, reflect.Int16, reflect.Int32, reflect.Int64:
							en.vals = append(en.vals, val.Field(j).Int())
						case reflect.Uint, reflect.Uint8, reflect.Uint16, reflect.Uint32, reflect.Uint64:
							en.vals = append(en.vals, int64(val.Field(j).Uint()))
						}
					}
				}
				es = append(es, en)
			}
			sort.Slice(es, func(a, b int) bool { return es[a].key < es[b].key })
			sb.WriteString("{")
			for _, en := range es {
				sb.WriteString(en.key + ":")
				for j, x := range en.vals {
					rank := 0
					for _, o := range es {
						if j < len(o.vals) && o.vals[j] < x {
							rank++
						}
					}
					fmt.Fprintf(&sb, "%d,", rank)
				}
				sb.WriteString(" ")
			}
			sb.WriteString("} ")
		}
	}
	return sb.String()
}

func scalar(v reflect.Value) string {
	switch v.Kind() {
	case reflect.Int, reflect.Int8, reflect.Int16, reflect.Int32, reflect.Int64:
		return fmt.Sprintf("%020d", v.Int())
	case reflect.Uint, reflect.Uint8, reflect.Uint16, reflect.Uint32, reflect.Uint64:
		return fmt.Sprintf("%020d", v.Uint())
	case reflect.String:
		return v.String()
	}
	return "<" + v.Kind().String() + ">"
}

// ---------------------------------------------------------------------------------------------
// observers

type diff struct {
	observer string
	id       int
	msg      string
}

// observe compares every observer of the cache with expect (id -> list index or -1).
func (e *env) observe(c cache, expect [numIDs]int) []diff {
	var out []diff
	n := 0
	for id := 0; id < numIDs; id++ {
		if expect[id] >= 0 {
			n++
		}
		if d := e.observeID(c, id, expect[id]); d != nil {
			out = append(out, *d)
		}
	}
	if got := c.StreamCount(); got != uint64(n) {
		out = append(out, diff{"streamcount", -1, fmt.Sprintf("StreamCount()=%d, model holds %d entries", got, n)})
	}
	// an id that is not part of the index must never be served
	if c.Contains(uint64(numIDs)) {
		out = append(out, diff{"contains", numIDs, fmt.Sprintf("Contains(%d)=true for an id that was never stored", numIDs)})
	}
	return out
}

func dirName(d index.Direction) string {
	if d == c2s {
		return "C"
	}
	return "S"
}

func short(b []byte) string {
	if len(b) > 24 {
		return fmt.Sprintf("%q…(%d bytes)", b[:24], len(b))
	}
	return fmt.Sprintf("%q", b)
}

func render(d []index.Data, t0 time.Time) string {
	if d == nil {
		return "nothing"
	}
	var sb strings.Builder
	sb.WriteString("[")
	for i, x := range d {
		if i > 0 {
			sb.WriteString(" ")
		}
		fmt.Fprintf(&sb, "%s%s@%dus", dirName(x.Direction), short(x.Content), x.Time.Sub(t0).Microseconds())
		if x.ContentType != "" {
			ct := x.ContentType
			if len(ct) > 20 {
				ct = ct[:20] + "…"
			}
			fmt.Fprintf(&sb, "<%s>", ct)
		}
	}
	sb.WriteString("]")
	return sb.String()
}

// observeID returns nil if Contains, Data and DataForSearch of the id agree with list li of the
// alphabet (li<0: nothing stored).
func (e *env) observeID(c cache, id int, li int) *diff {
	s := e.streams[id]
	t0 := s.FirstPacket()
	mk := func(obs, format string, args ...any) *diff {
		return &diff{obs, id, fmt.Sprintf("stream %d: ", id) + fmt.Sprintf(format, args...)}
	}
	if got := c.Contains(uint64(id)); got != (li >= 0) {
		return mk("contains", "Contains=%v, model entry: %s", got, e.entryName(id, li))
	}
	var (
		data     []index.Data
		cb, sb   uint64
		err      error
		sdata    [2][]byte
		table    [][2]int
		scb, ssb uint64
		present  bool
		serr     error
	)
	guarded(func() {
		data, cb, sb, err = c.Data(s)
		sdata, table, scb, ssb, present, serr = c.DataForSearch(uint64(id))
	})
	if err != nil {
		return mk("data", "Data returned error %v, model entry: %s", err, e.entryName(id, li))
	}
	if serr != nil {
		return mk("search", "DataForSearch returned error %v, model entry: %s", serr, e.entryName(id, li))
	}
	if li < 0 {
		if data != nil || cb != 0 || sb != 0 {
			return mk("data", "Data returned %s (%d/%d bytes) for an id with no entry", render(data, t0), cb, sb)
		}
		if present || len(sdata[0]) != 0 || len(sdata[1]) != 0 || len(table) != 0 || scb != 0 || ssb != 0 {
			return mk("search", "DataForSearch returned present=%v %d/%d bytes table %v for an id with no entry", present, len(sdata[0]), len(sdata[1]), table)
		}
		return nil
	}
	want := e.want[id][li]
	ok := len(data) == len(want)
	var wcb, wsb uint64
	var concat [2][]byte
	wtable := [][2]int{{0, 0}}
	for i, x := range want {
		if x.Direction == c2s {
			wcb += uint64(len(x.Content))
		} else {
			wsb += uint64(len(x.Content))
		}
		concat[x.Direction] = append(concat[x.Direction], x.Content...)
		wtable = append(wtable, [2]int{len(concat[0]), len(concat[1])})
		if !ok {
			continue
		}
		g := data[i]
		dt := g.Time.Sub(x.Time)
		if g.Direction != x.Direction || !bytes.Equal(g.Content, x.Content) || g.ContentType != x.ContentType ||
			dt <= -time.Microsecond || dt >= time.Microsecond {
			ok = false
		}
	}
	if !ok {
		return mk("data", "Data returned %s, most recently stored (%s) is %s", render(data, t0), e.lists[li].name, render(nonNil(want), t0))
	}
	if cb != wcb || sb != wsb {
		return mk("data", "Data returned byte counts %d/%d, stored chunks (%s) have %d/%d", cb, sb, e.lists[li].name, wcb, wsb)
	}
	if !present || !bytes.Equal(sdata[0], concat[0]) || !bytes.Equal(sdata[1], concat[1]) || scb != wcb || ssb != wsb {
		return mk("search", "DataForSearch returned present=%v client=%s server=%s counts %d/%d, stored (%s): client=%s server=%s counts %d/%d",
			present, short(sdata[0]), short(sdata[1]), scb, ssb, e.lists[li].name, short(concat[0]), short(concat[1]), wcb, wsb)
	}
	if fmt.Sprint(table) != fmt.Sprint(wtable) {
		return mk("search", "DataForSearch chunk table %v, stored (%s) gives %v", table, e.lists[li].name, wtable)
	}
	return nil
}

func nonNil(d []index.Data) []index.Data {
	if d == nil {
		return []index.Data{}
	}
	return d
}

func (e *env) entryName(id, li int) string {
	if li < 0 {
		return "nothing"
	}
	return e.lists[li].name + " " + render(nonNil(e.want[id][li]), e.streams[id].FirstPacket())
}

// ---------------------------------------------------------------------------------------------

func (e *env) spec() mc.Spec {
	return mc.Spec{
		New:    func() mc.World { return e.newWorld() },
		NumOps: len(e.ops),
		OpName: func(o int) string { return e.ops[o].name },
		NonTrivial: func(p []int) bool {
			// an entry is overwritten, invalidated, reset or carried over a reopen
			var stored [numIDs]bool
			for _, oi := range p {
				o := e.ops[oi]
				switch o.kind {
				case "store":
					if stored[o.id] {
						return true
					}
					stored[o.id] = true
				case "invalidate":
					for id := 0; id < numIDs; id++ {
						if o.mask&(1<<id) != 0 && stored[id] {
							return true
						}
					}
				default:
					if stored[0] || stored[1] || stored[2] {
						return true
					}
				}
			}
			return false
		},
	}
}

// prefixWorld is a world that starts behind a fixed operation sequence (applied through the ordinary
// Apply, so that oracle, model and minimisation see it) and in which some operations are not offered.
type prefixWorld struct {
	*world
	pend    []mc.Violation
	exclude func(op) bool
}

func (p *prefixWorld) Enabled(oi int) bool {
	return p.world.Enabled(oi) && (p.exclude == nil || !p.exclude(p.e.ops[oi]))
}

func (p *prefixWorld) Apply(oi int) []mc.Violation {
	if len(p.pend) != 0 {
		return p.pend // the prefix itself failed: reported under the first operation tried behind it
	}
	return p.world.Apply(oi)
}

// prefixSpec explores what follows the named operations.
func (e *env) prefixSpec(prefix []string, exclude func(op) bool) mc.Spec {
	var idx []int
	for _, n := range prefix {
		found := -1
		for i, o := range e.ops {
			if o.name == n {
				found = i
			}
		}
		if found < 0 {
			mc.Fatal("c15: no operation %q", n)
		}
		idx = append(idx, found)
	}
	sp := e.spec()
	sp.New = func() mc.World {
		pw := &prefixWorld{world: e.newWorld(), exclude: exclude}
		for _, oi := range idx {
			if v := pw.world.Apply(oi); len(v) != 0 {
				pw.pend = v
				break
			}
		}
		return pw
	}
	return sp
}

func Run(tier string) int {
	rep := mc.NewReporter("C15", tier, "model_checking")
	rep.Driver = "c15"
	log.SetOutput(io.Discard)
	depth, crashDepth := 3, 3
	budget := 70 * time.Second
	var maxStates int64
	if tier == "thorough" {
		depth, crashDepth = 5, 3
		budget = 8 * time.Minute
		maxStates = 4_000_000
	}
	start := time.Now()
	stopJanitor := startJanitor()
	defer stopJanitor()
	stopGuard := startMemGuard()
	defer stopGuard()
	e := newEnv(rep, smallLists(tier), crashDepth)
	defer e.cleanup()
	e.deadline = start.Add(budget)
	st := mc.BFS(e.spec(), depth, maxStates, e.deadline, rep)
	st.FillCoverage(rep.Coverage, "BFS over store(id,list)/invalidate(mask)/reset/reopen on a real cache file and a 3-stream index; "+
		"state = reference map + model of the record sequence in the file + in-memory bookkeeping of the cache object read by reflection "+
		"(integers by value, offsets by rank); every observer compared after every operation; for every distinct file up to crash_depth "+
		"every truncation length is opened in a scratch copy; non-trivial = an entry is overwritten, invalidated, reset or carried over a reopen")
	rep.Coverage["ops"] = len(e.ops)
	rep.Coverage["chunk_lists"] = listNames(e.lists)
	rep.Coverage["depth_bound"] = depth
	rep.Coverage["crash_depth"] = crashDepth
	stats := e.stats
	// record layouts and chains of reopens: two streams, two lists, every order of stores (a second
	// store of a stream leaves a superseded record behind), invalidations and reopens two levels
	// deeper than the main exploration - the load-time scan (duplicate resolution, free-space
	// accounting, compaction at load) sees every arrangement of live, superseded and invalidated
	// records, and what it writes back is read again by the next reopen
	{
		le := newEnv(rep, smallLists(tier)[:2], 0)
		le.stats, le.tally = stats, e.tally
		var keep []op
		for _, o := range le.ops {
			switch o.kind {
			case "store":
				if o.id <= 1 && !(o.id == 1 && o.list == 1) {
					keep = append(keep, o)
				}
			case "invalidate":
				if o.mask <= 3 {
					keep = append(keep, o)
				}
			case "reopen":
				keep = append(keep, o)
			}
		}
		le.ops = keep
		ldepth := 7
		lbudget := 40 * time.Second
		if tier == "thorough" {
			ldepth, lbudget = 9, 4*time.Minute
		}
		le.deadline = time.Now().Add(lbudget)
		lst := mc.BFS(le.spec(), ldepth, 0, le.deadline, rep)
		le.cleanup()
		rep.Coverage["layout_states"] = lst.States
		rep.Coverage["layout_transitions"] = lst.Transitions
		rep.Coverage["layout_depth_bound"] = ldepth
		rep.Coverage["layout_depth_completed"] = lst.DepthComplete
		rep.Coverage["layout_ops"] = len(le.ops)
		rep.Coverage["layout_rule"] = "second BFS over store(0,c1) store(0,alt) store(1,c1) invalidate{0} invalidate{1} invalidate{0,1} reopen to the given depth, same oracle after every operation (no truncation checks)"
		if lst.CapHit != "" {
			rep.Coverage["exhaustive"] = false
			caps, _ := rep.Coverage["caps_hit"].([]string)
			rep.Coverage["caps_hit"] = append(caps, "layout exploration: "+lst.CapHit)
		}
		rep.Coverage["states"] = st.States + lst.States
		rep.Coverage["transitions"] = st.Transitions + lst.Transitions
		rep.Coverage["traces_validated_against_impl"] = st.Transitions + lst.Transitions
		rep.Coverage["evaluations"] = st.Transitions + lst.Transitions
		st.States += lst.States
		st.Transitions += lst.Transitions
	}
	var bigSt *mc.BFSStats
	{
		// run-time compaction behind prefixes (both tiers; thorough goes one operation further and also
		// explores a small alphabet from the empty file, below): the exploration starts behind operation sequences that leave
		// 16 MiB of invalidated records in the file (so that the next store compacts it while the object is
		// in use), with a live record before / behind the freed one, and goes three (two) operations on
		be := newEnv(rep, bigLists(), 0)
		be.stats, be.tally = stats, e.tally
		be.deadline = time.Now().Add(60 * time.Second)
		bonus := 0
		if tier == "thorough" {
			bonus = 1
			be.deadline = time.Now().Add(6 * time.Minute)
		}
		noBig := func(o op) bool { return o.kind == "store" && be.lists[o.list].big }
		var cst mc.BFSStats
		var names []string
		for _, pf := range []struct {
			ops   []string
			depth int
		}{
			{[]string{"store(0,big)", "invalidate(0)"}, 3},
			{[]string{"store(0,big)", "store(1,runs-ct)", "invalidate(0)"}, 3},
			{[]string{"store(1,c1)", "store(0,big)", "invalidate(0)"}, 2},
			{[]string{"store(1,c1)", "store(0,big)", "store(2,runs-ct)", "invalidate(0,1)"}, 2},
			// a stream stored twice in a row (the first record is superseded, not invalidated) in front of the freed space
			{[]string{"store(1,c1)", "store(1,runs-ct)", "store(0,big)", "invalidate(0,1)"}, 2},
			{[]string{"store(1,c1)", "store(1,runs-ct)", "store(0,big)", "invalidate(0)"}, 3},
		} {
			bst := mc.BFS(be.prefixSpec(pf.ops, noBig), pf.depth+bonus, 0, be.deadline, rep)
			names = append(names, fmt.Sprintf("[%s] + %d", strings.Join(pf.ops, " ; "), pf.depth+bonus))
			cst.States += bst.States
			cst.Transitions += bst.Transitions
			if bst.CapHit != "" {
				cst.CapHit = bst.CapHit
			}
		}
		be.cleanup()
		bigSt = &cst
		rep.Coverage["compaction_prefixes"] = names
		rep.Coverage["compaction_states"] = cst.States
		rep.Coverage["compaction_transitions"] = cst.Transitions
		rep.Coverage["compaction_prefix_states"] = cst.States
		rep.Coverage["compaction_prefix_transitions"] = cst.Transitions
		rep.Coverage["runtime_compactions_observed"] = atomic.LoadInt64(&stats.runtimeCompactions)
		if cst.CapHit != "" {
			rep.Coverage["exhaustive"] = false
			caps, _ := rep.Coverage["caps_hit"].([]string)
			rep.Coverage["caps_hit"] = append(caps, "compaction exploration: "+cst.CapHit)
		}
		for _, k := range []string{"states", "transitions", "traces_validated_against_impl", "evaluations"} {
			if v, ok := rep.Coverage[k].(int64); ok {
				add := cst.Transitions
				if k == "states" {
					add = cst.States
				}
				rep.Coverage[k] = v + add
			}
		}
	}
	if tier == "thorough" {
		// run-time compaction needs 16 MiB of invalidated records: separate, smaller alphabet
		be := newEnv(rep, bigLists(), 2)
		be.stats, be.tally = stats, e.tally
		be.deadline = time.Now().Add(4 * time.Minute)
		bst := mc.BFS(be.spec(), 4, 0, be.deadline, rep)
		be.cleanup()
		rep.Coverage["compaction_states"] = bst.States
		rep.Coverage["compaction_transitions"] = bst.Transitions
		rep.Coverage["compaction_depth_completed"] = bst.DepthComplete
		rep.Coverage["compaction_ops"] = len(be.ops)
		rep.Coverage["runtime_compactions_observed"] = atomic.LoadInt64(&stats.runtimeCompactions)
		if bst.CapHit != "" {
			rep.Coverage["exhaustive"] = false
			caps, _ := rep.Coverage["caps_hit"].([]string)
			rep.Coverage["caps_hit"] = append(caps, "compaction exploration: "+bst.CapHit)
		}
		pst := *bigSt // the prefix explorations above
		bigSt = &bst
		rep.Coverage["states"] = st.States + bst.States + pst.States
		rep.Coverage["transitions"] = st.Transitions + bst.Transitions + pst.Transitions
		rep.Coverage["traces_validated_against_impl"] = st.Transitions + bst.Transitions + pst.Transitions
		rep.Coverage["evaluations"] = st.Transitions + bst.Transitions + pst.Transitions
	}
	if atomic.LoadInt32(&memAbort) != 0 {
		rep.Report(mc.Violation{Symptom: "resource.memory-blowup", Key: "exploration abandoned",
			Msg: fmt.Sprintf("the process grew beyond %d MiB while reading cache entries (Data/DataForSearch allocate buffers whose sizes are read from the file); "+
				"the exploration was abandoned, the violations reported before it usually show a record read at a wrong offset", memHard>>20)})
		rep.Coverage["exhaustive"] = false
		caps, _ := rep.Coverage["caps_hit"].([]string)
		rep.Coverage["caps_hit"] = append(caps, "memory guard")
	}
	if atomic.LoadInt32(&stats.capped) != 0 {
		rep.Coverage["exhaustive"] = false
		caps, _ := rep.Coverage["caps_hit"].([]string)
		rep.Coverage["caps_hit"] = append(caps, "deadline inside the truncation checks of a file")
	}
	// E6: interleavings of concurrent operations on one cache file under the controlled scheduler
	for k, v := range runSched(rep, e, tier) {
		rep.Coverage[k] = v
	}
	stats.fill(rep.Coverage)
	e.tally.fill(rep.Coverage)
	if s, ok := rep.Coverage["samples"].([]string); ok {
		rep.Coverage["samples"] = append(s, stats.samples()...)
	}
	rep.Assumptions = []string{
		"times are given in whole microseconds relative to the first packet of the stream; read-back times may differ by less than 1 µs",
		"zero-length chunks are not required to be preserved: the oracle expects the stored list without them; every symptom on a path that stored such a list is prefixed zerochunk.",
		"file size and layout are never the subject of an alarm; observed file sizes are only used to know which records lie completely below a truncation point (records sizes are measured on the real code, not computed from the format)",
		"a truncation inside a record whose id was invalidated later accepts both the older complete record and nothing",
		"after reopen the model keeps invalidated entries invalidated",
	}
	if st.States < 50 || st.Outcomes < 10 || atomic.LoadInt64(&stats.points) == 0 {
		e.cleanup()
		mc.Fatal("vacuous exploration: states=%d outcomes=%d truncation points=%d", st.States, st.Outcomes, stats.points)
	}
	if bigSt != nil && atomic.LoadInt64(&stats.runtimeCompactions) == 0 && rep.Violations() == 0 {
		e.cleanup()
		mc.Fatal("compaction exploration never observed a run-time compaction")
	}
	return rep.Finish()
}

func listNames(l []chunkList) []string {
	var r []string
	for _, x := range l {
		r = append(r, x.name)
	}
	return r
}
