// Package c18: regex length / constant-suffix analysis against exhaustive matching.
package c18

import (
	"bytes"
	"fmt"
	"math"
	"strings"
	"sync"
	"sync/atomic"
	"time"

	regexanalysis "github.com/spq/pkappa2/internal/tools/regexAnalysis"
	"github.com/spq/pkappa2/verifx/mc"
	"github.com/spq/pkappa2/verifx/ref"
	"rsc.io/binaryregexp"
)

func Run(tier string) int {
	rep := mc.NewReporter("C18", tier, "model_checking")
	rep.Driver = "c18"
	grammar, size, maxLen, alphabet := ref.SmallRegexGrammar, 4, 5, "abA\n\xe9"
	budget := 100 * time.Second
	if tier == "thorough" {
		grammar, size, maxLen = ref.FullRegexGrammar, 4, 6
		budget = 14 * time.Minute
	}
	regexes, rejected := grammar.Enumerate(size)
	wordFamily := 0
	// repetition and alternation nested two levels deeper over a two-letter alphabet
	tinySize, tinyFamily := 6, 0
	if tier == "thorough" {
		tinySize = 7
	}
	{
		seen := map[string]bool{}
		for _, r := range regexes {
			seen[r] = true
		}
		tiny, _ := ref.TinyRegexGrammar.Enumerate(tinySize)
		for _, r := range tiny {
			if !seen[r] {
				regexes = append(regexes, r)
				tinyFamily++
			}
		}
	}
	// literals above 0x7f (single bytes, not UTF-8 sequences)
	highFamily := 0
	{
		seen := map[string]bool{}
		for _, r := range regexes {
			seen[r] = true
		}
		hb, _ := ref.HighByteRegexGrammar.Enumerate(4)
		for _, r := range hb {
			if !seen[r] && strings.Contains(r, `\xe9`) {
				seen[r] = true
				regexes = append(regexes, r)
				highFamily++
			}
		}
	}
	// literal words in a literal context: head(?:w1|w2)tail, the everyday shape "GET (?:/a|/b) HTTP"
	// which the size-bounded grammar does not reach (ten AST nodes)
	{
		words := []string{"a", "b", "aa", "ab", "ba", "bb", "aba", "bab"}
		seen := map[string]bool{}
		for _, r := range regexes {
			seen[r] = true
		}
		for _, head := range []string{"", "a", "ab", "A"} {
			for _, w1 := range words {
				for _, w2 := range words {
					for _, tail := range []string{"", "a", "b"} {
						if len(head)+max(len(w1), len(w2))+len(tail) > maxLen {
							continue
						}
						rx := head + "(?:" + w1 + "|" + w2 + ")" + tail
						if !seen[rx] {
							seen[rx] = true
							regexes = append(regexes, rx)
							wordFamily++
						}
					}
				}
			}
		}
	}
	// a literal head, a repetition, a tail whose alternatives differ in length: head rep tail, the shape of
	// "token=[a-z]*={0,2}" and "ab\r[^\n]*(?:\n|\r\n)" (nine to fourteen AST nodes).  What the walks know about
	// the bytes in front of a repetition meets what they know about the end of the expression.
	repTailFamily := 0
	{
		seen := map[string]bool{}
		for _, r := range regexes {
			seen[r] = true
		}
		heads := []string{"", "a", "b", "ab", "ba", "aa", "aba", "bab", "A"}
		reps := []string{"a*", "b*", "a+", "b+", "[ab]*", "[ab]+", "a*?", "b+?", "(?:ab)*", "(?:a|b)+", ".*", "a?"}
		tails := []string{"", "a", "b", "a?", "b?", "(?:a|)", "(?:|b)", "(?:b|ab)", "(?:a|ba)", "(?:b|bb)", "(?:ab|b)",
			"b{0,2}", "a{0,2}", "(?:ab)?", "(?:ba)?", "(?:ab)??", "(?:a|b)", "(?:a|b)?", "$", "(?:b|$)"}
		for _, head := range heads {
			for _, rp := range reps {
				for _, tail := range tails {
					rx := head + rp + tail
					if !seen[rx] {
						seen[rx] = true
						regexes = append(regexes, rx)
						repTailFamily++
					}
				}
			}
		}
	}
	// the bodies of the counted-repetition family are judged by exhaustive matching like every other expression
	{
		seen := map[string]bool{}
		for _, r := range regexes {
			seen[r] = true
		}
		for _, b := range countedBodies {
			if !seen[b] {
				seen[b] = true
				regexes = append(regexes, b)
			}
		}
	}
	strs := ref.Strings(alphabet, maxLen)
	deadline := time.Now().Add(budget)
	var evals, matches, spansChecked, done int64
	var nontrivial int64
	var mu sync.Mutex
	var samples []string
	outcomes := map[string]int{}
	var timedOut int32
	mc.ParFor(len(regexes), func(ri int) {
		if time.Now().After(deadline) {
			atomic.StoreInt32(&timedOut, 1)
			return
		}
		rx := regexes[ri]
		al, err := regexanalysis.AcceptedLength(rx)
		if err != nil {
			rep.Report(mc.Violation{Symptom: "length.error", Key: rx, Msg: fmt.Sprintf("AcceptedLength(%q) error: %v", rx, err), Replay: map[string]any{"regex": rx}})
			return
		}
		suffix, err := regexanalysis.ConstantSuffix(rx)
		if err != nil {
			rep.Report(mc.Violation{Symptom: "suffix.error", Key: rx, Msg: fmt.Sprintf("ConstantSuffix(%q) error: %v", rx, err), Replay: map[string]any{"regex": rx}})
			return
		}
		hasAssert := strings.ContainsAny(rx, "^$") || strings.Contains(rx, `\b`)
		minSeen, maxSeen := -1, -1
		nm, sc := int64(0), int64(0)
		for n := 0; n <= maxLen; n++ {
			for i := 0; i <= n; i++ {
				for j := i; j <= n; j++ {
					ctx, err := binaryregexp.Compile(fmt.Sprintf(`^(?s:.{%d})(?:%s)(?s:.{%d})$`, i, rx, n-j))
					if err != nil {
						mc.Fatal("context regex for %q: %v", rx, err)
					}
					for _, t := range strs[n] {
						sc++
						if !ctx.MatchString(t) {
							continue
						}
						nm++
						l := j - i
						if minSeen == -1 || l < minSeen {
							minSeen = l
						}
						if l > maxSeen {
							maxSeen = l
						}
						if uint(l) < al.MinLength || uint(l) > al.MaxLength {
							rep.Report(mc.Violation{Symptom: "length.not-contained", Key: rx,
								Msg:    fmt.Sprintf("regex %q matches %q[%d:%d] (length %d) but AcceptedLength says [%d,%d]", rx, t, i, j, l, al.MinLength, al.MaxLength),
								Replay: map[string]any{"regex": rx, "text": t, "i": i, "j": j}})
						}
						if !bytes.HasSuffix([]byte(t[i:j]), suffix) {
							rep.Report(mc.Violation{Symptom: "suffix.not-suffix", Key: rx,
								Msg:    fmt.Sprintf("regex %q matches %q[%d:%d]=%q which does not end with ConstantSuffix %q", rx, t, i, j, t[i:j], suffix),
								Replay: map[string]any{"regex": rx, "text": t, "i": i, "j": j}})
						}
					}
				}
			}
		}
		atomic.AddInt64(&matches, nm)
		atomic.AddInt64(&spansChecked, sc)
		// a literal outside the string alphabet cannot be realised: containment is still judged on
		// whatever matches, attainment is not
		if !hasAssert && !strings.Contains(rx, `\x00`) {
			// attainment: the alphabet can realise every assertion-free regex of the grammar
			if al.MinLength <= uint(maxLen) && minSeen != int(al.MinLength) {
				rep.Report(mc.Violation{Symptom: "length.min-not-attained", Key: rx,
					Msg:    fmt.Sprintf("regex %q: MinLength=%d but the shortest match among all strings up to %d over %q has length %d", rx, al.MinLength, maxLen, alphabet, minSeen),
					Replay: map[string]any{"regex": rx}})
			}
			if al.MaxLength != math.MaxUint && al.MaxLength <= uint(maxLen) && maxSeen != int(al.MaxLength) {
				rep.Report(mc.Violation{Symptom: "length.max-not-attained", Key: rx,
					Msg:    fmt.Sprintf("regex %q: MaxLength=%d but the longest match among all strings up to %d has length %d", rx, al.MaxLength, maxLen, maxSeen),
					Replay: map[string]any{"regex": rx}})
			}
		}
		atomic.AddInt64(&evals, 1)
		if nm > 0 && (len(suffix) > 0 || al.MinLength != al.MaxLength) {
			atomic.AddInt64(&nontrivial, 1)
		}
		mu.Lock()
		mx := fmt.Sprint(al.MaxLength)
		if al.MaxLength == math.MaxUint {
			mx = "inf"
		}
		outcomes[fmt.Sprintf("min=%d max=%s suffix=%q", al.MinLength, mx, suffix)]++
		if d := atomic.AddInt64(&done, 1); d%int64(len(regexes)/5+1) == 1 {
			samples = append(samples, fmt.Sprintf("%s -> min=%d max=%s suffix=%q matches=%d", rx, al.MinLength, mx, suffix, nm))
		}
		mu.Unlock()
	}, func(i int, text string) {
		rep.Report(mc.Violation{Symptom: "panic", Key: regexes[i], Msg: "panic analysing " + regexes[i] + ": " + text, Replay: map[string]any{"regex": regexes[i]}})
	})
	cntCases, cntWitness := countedFamily(rep, tier, deadline)
	evals += cntCases
	c := rep.Coverage
	c["counted_repetition_cases"] = cntCases
	c["counted_repetition_witness_matches"] = cntWitness
	c["counted_repetition_rule"] = "head (?:B){n,m} tail for 14 bodies B (each also checked by the exhaustive span family), every count shape {n} {n,} {0,n} {n,n+3} with n around the powers of two up to the parser's limit of 1000, and two-level nestings whose product stays below it; AcceptedLength must equal [|head|+n*min(B)+|tail|, |head|+m*max(B)+|tail|], witnessed by the string head+shortest(B)^n+tail matching the expression; ConstantSuffix (exponential in n on this tree) is judged for n <= 8 on the witnesses"
	c["evaluations"] = evals
	c["distinct_nontrivial"] = nontrivial
	c["states"] = evals
	c["transitions"] = spansChecked
	c["traces_validated_against_impl"] = evals
	c["rule"] = fmt.Sprintf("every regex AST with <= %d grammar nodes (de-duplicated by compiled program) x every span of every string of length <= %d over %q; "+
		"a span matches iff ^(?s:.{i})(?:re)(?s:.{n-j})$ matches; non-trivial = regex matches something and has a non-empty suffix or min!=max", size, maxLen, alphabet)
	c["samples"] = samples
	c["regexes"] = len(regexes)
	c["regex_texts_rejected_by_parser"] = rejected
	c["regexes_literal_words_in_context"] = wordFamily
	c["regexes_tiny_grammar"] = tinyFamily
	c["regexes_head_repetition_tail"] = repTailFamily
	c["regexes_high_byte_literals"] = highFamily
	c["tiny_grammar_size"] = tinySize
	c["spans_checked"] = spansChecked
	c["matching_spans"] = matches
	c["distinct_outcomes"] = len(outcomes)
	c["exhaustive"] = timedOut == 0
	if timedOut != 0 {
		c["caps_hit"] = []string{"deadline"}
	}
	rep.Assumptions = []string{"rsc.io/binaryregexp matching is the trusted oracle",
		"attainment of Min/Max is only required for regexes without empty-width assertions (an assertion can make the language empty or cut it)"}
	if len(outcomes) < 5 && timedOut == 0 {
		mc.Fatal("vacuous: %d outcomes", len(outcomes))
	}
	return rep.Finish()
}

var countedBodies = []string{"a", "ab", "a|bb", "a?", "[ab]", "a*", "a+", "(?:ab|a)b", "a{2}", "a{1,2}", "\\n|ab", "a[ab]|b|A[ab]b", "(?:a|b)?A", "A[ab][ab]|[abA]"}

// countedFamily: counted repetitions up to the parser's limit.  The compiled program of (?:B){n} is n
// copies of B; the analysis walks all of them.  The expected lengths follow from those of the body,
// which the exhaustive span family above has judged against real matching.
func countedFamily(rep *mc.Reporter, tier string, deadline time.Time) (cases, witnesses int64) {
	bodies := countedBodies
	ns := []int{0, 1, 2, 3, 7, 8, 9, 31, 32, 33, 63, 64, 65, 100, 255, 256, 257, 500, 999, 1000}
	type cnt struct {
		text string
		n, m int // m = -1: unbounded
	}
	var counts []cnt
	for _, n := range ns {
		counts = append(counts, cnt{fmt.Sprintf("{%d}", n), n, n})
		counts = append(counts, cnt{fmt.Sprintf("{%d,}", n), n, -1})
		if n > 0 {
			counts = append(counts, cnt{fmt.Sprintf("{0,%d}", n), 0, n})
		}
		if n+3 <= 1000 {
			counts = append(counts, cnt{fmt.Sprintf("{%d,%d}", n, n+3), n, n + 3})
		}
	}
	type cs struct {
		rx, body, head, tail string
		n, m                 int
	}
	var list []cs
	for _, b := range bodies {
		for _, c := range counts {
			for _, ht := range [][2]string{{"", ""}, {"", "bA"}, {"Ab", ""}, {"A", "a"}} {
				list = append(list, cs{ht[0] + "(?:" + b + ")" + c.text + ht[1], b, ht[0], ht[1], c.n, c.m})
			}
		}
		// two levels: ((?:B){k}){j}
		for _, kj := range [][2]int{{2, 2}, {3, 7}, {10, 100}, {31, 32}, {100, 10}, {2, 500}, {500, 2}, {1, 1000}} {
			list = append(list, cs{fmt.Sprintf("(?:(?:%s){%d}){%d}", b, kj[0], kj[1]), b, "", "", kj[0] * kj[1], kj[0] * kj[1]})
			list = append(list, cs{fmt.Sprintf("(?:(?:%s){0,%d}){%d}A", b, kj[0], kj[1]), b, "", "A", 0, kj[0] * kj[1]})
		}
	}
	// shortest string of each body over the alphabet (brute force)
	shortest := map[string]string{}
	for _, b := range bodies {
		re := binaryregexp.MustCompile("^(?:" + b + ")$")
		found := false
		for n := 0; n <= 4 && !found; n++ {
			for _, t := range ref.Strings("abA\n", n)[n] {
				if re.MatchString(t) {
					shortest[b], found = t, true
					break
				}
			}
		}
		if !found {
			mc.Fatal("counted family: body %q matches nothing short", b)
		}
	}
	mc.ParFor(len(list), func(i int) {
		if time.Now().After(deadline) {
			return
		}
		c := list[i]
		if _, err := binaryregexp.Compile(c.rx); err != nil {
			return // beyond the parser's limits
		}
		bl, err := regexanalysis.AcceptedLength(c.body)
		if err != nil {
			return
		}
		al, err := regexanalysis.AcceptedLength(c.rx)
		if err != nil {
			rep.Report(mc.Violation{Symptom: "length.error", Key: c.rx, Msg: fmt.Sprintf("AcceptedLength(%q) error: %v", c.rx, err), Replay: map[string]any{"regex": c.rx}})
			return
		}
		fixed := uint(len(c.head) + len(c.tail))
		wantMin := fixed + uint(c.n)*bl.MinLength
		wantMax := uint(math.MaxUint)
		if c.m == 0 {
			wantMax = fixed
		} else if c.m > 0 && bl.MaxLength != math.MaxUint {
			wantMax = fixed + uint(c.m)*bl.MaxLength
		}
		if al.MinLength != wantMin {
			rep.Report(mc.Violation{Symptom: "length.counted-min", Key: c.rx,
				Msg:    fmt.Sprintf("regex %q: MinLength=%d, but the body %q has minimum %d (judged by exhaustive matching), so the shortest match has %d+%d*%d=%d bytes", c.rx, al.MinLength, c.body, bl.MinLength, fixed, c.n, bl.MinLength, wantMin),
				Replay: map[string]any{"regex": c.rx}})
		}
		if al.MaxLength != wantMax {
			rep.Report(mc.Violation{Symptom: "length.counted-max", Key: c.rx,
				Msg:    fmt.Sprintf("regex %q: MaxLength=%d, the body %q has maximum %d, so the longest match has %d bytes (%d = unbounded)", c.rx, al.MaxLength, c.body, bl.MaxLength, wantMax, uint(math.MaxUint)),
				Replay: map[string]any{"regex": c.rx}})
		}
		// witness: head + shortest(B)^n + tail is matched by the expression and has the minimal length
		w := c.head + strings.Repeat(shortest[c.body], c.n) + c.tail
		re := binaryregexp.MustCompile("^(?:" + c.rx + ")$")
		if !re.MatchString(w) {
			mc.Fatal("counted family: witness %q does not match %q", w, c.rx)
		}
		atomic.AddInt64(&witnesses, 1)
		if uint(len(w)) < al.MinLength || uint(len(w)) > al.MaxLength {
			rep.Report(mc.Violation{Symptom: "length.not-contained", Key: c.rx,
				Msg:    fmt.Sprintf("regex %q matches a string of %d bytes (%q...) but AcceptedLength says [%d,%d]", c.rx, len(w), w[:min(len(w), 12)], al.MinLength, al.MaxLength),
				Replay: map[string]any{"regex": c.rx}})
		}
		if c.n <= 8 && (c.m >= 0 && c.m <= 11 || c.m == -1) {
			suffix, err := regexanalysis.ConstantSuffix(c.rx)
			if err != nil {
				rep.Report(mc.Violation{Symptom: "suffix.error", Key: c.rx, Msg: fmt.Sprintf("ConstantSuffix(%q) error: %v", c.rx, err), Replay: map[string]any{"regex": c.rx}})
			} else if !bytes.HasSuffix([]byte(w), suffix) {
				rep.Report(mc.Violation{Symptom: "suffix.not-suffix", Key: c.rx,
					Msg:    fmt.Sprintf("regex %q matches %q which does not end with ConstantSuffix %q", c.rx, w, suffix),
					Replay: map[string]any{"regex": c.rx, "text": w}})
			}
		}
		atomic.AddInt64(&cases, 1)
	}, func(i int, text string) {
		rep.Report(mc.Violation{Symptom: "panic", Key: list[i].rx, Msg: "panic analysing " + list[i].rx + ": " + text, Replay: map[string]any{"regex": list[i].rx}})
	})
	return
}
