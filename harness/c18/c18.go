// Package c18: regex length / constant-suffix analysis against exhaustive matching.
package c18

import (
	"bytes"
	"fmt"
	"math"
	"strings"
	"sync"
	"sync/atomic"
	"time"

	regexanalysis "github.com/spq/pkappa2/internal/tools/regexAnalysis"
	"github.com/spq/pkappa2/verifx/mc"
	"github.com/spq/pkappa2/verifx/ref"
	"rsc.io/binaryregexp"
)

func Run(tier string) int {
	rep := mc.NewReporter("C18", tier, "model_checking")
	rep.Driver = "c18"
	grammar, size, maxLen, alphabet := ref.SmallRegexGrammar, 4, 5, "abA\n"
	budget := 100 * time.Second
	if tier == "thorough" {
		grammar, size, maxLen = ref.FullRegexGrammar, 4, 6
		budget = 14 * time.Minute
	}
	regexes, rejected := grammar.Enumerate(size)
	wordFamily := 0
	// repetition and alternation nested two levels deeper over a two-letter alphabet
	tinySize, tinyFamily := 6, 0
	if tier == "thorough" {
		tinySize = 7
	}
	{
		seen := map[string]bool{}
		for _, r := range regexes {
			seen[r] = true
		}
		tiny, _ := ref.TinyRegexGrammar.Enumerate(tinySize)
		for _, r := range tiny {
			if !seen[r] {
				regexes = append(regexes, r)
				tinyFamily++
			}
		}
	}
	// literal words in a literal context: head(?:w1|w2)tail, the everyday shape "GET (?:/a|/b) HTTP"
	// which the size-bounded grammar does not reach (ten AST nodes)
	{
		words := []string{"a", "b", "aa", "ab", "ba", "bb", "aba", "bab"}
		seen := map[string]bool{}
		for _, r := range regexes {
			seen[r] = true
		}
		for _, head := range []string{"", "a", "ab", "A"} {
			for _, w1 := range words {
				for _, w2 := range words {
					for _, tail := range []string{"", "a", "b"} {
						if len(head)+max(len(w1), len(w2))+len(tail) > maxLen {
							continue
						}
						rx := head + "(?:" + w1 + "|" + w2 + ")" + tail
						if !seen[rx] {
							seen[rx] = true
							regexes = append(regexes, rx)
							wordFamily++
						}
					}
				}
			}
		}
	}
	strs := ref.Strings(alphabet, maxLen)
	deadline := time.Now().Add(budget)
	var evals, matches, spansChecked, done int64
	var nontrivial int64
	var mu sync.Mutex
	var samples []string
	outcomes := map[string]int{}
	var timedOut int32
	mc.ParFor(len(regexes), func(ri int) {
		if time.Now().After(deadline) {
			atomic.StoreInt32(&timedOut, 1)
			return
		}
		rx := regexes[ri]
		al, err := regexanalysis.AcceptedLength(rx)
		if err != nil {
			rep.Report(mc.Violation{Symptom: "length.error", Key: rx, Msg: fmt.Sprintf("AcceptedLength(%q) error: %v", rx, err), Replay: map[string]any{"regex": rx}})
			return
		}
		suffix, err := regexanalysis.ConstantSuffix(rx)
		if err != nil {
			rep.Report(mc.Violation{Symptom: "suffix.error", Key: rx, Msg: fmt.Sprintf("ConstantSuffix(%q) error: %v", rx, err), Replay: map[string]any{"regex": rx}})
			return
		}
		hasAssert := strings.ContainsAny(rx, "^$") || strings.Contains(rx, `\b`)
		minSeen, maxSeen := -1, -1
		nm, sc := int64(0), int64(0)
		for n := 0; n <= maxLen; n++ {
			for i := 0; i <= n; i++ {
				for j := i; j <= n; j++ {
					ctx, err := binaryregexp.Compile(fmt.Sprintf(`^(?s:.{%d})(?:%s)(?s:.{%d})$`, i, rx, n-j))
					if err != nil {
						mc.Fatal("context regex for %q: %v", rx, err)
					}
					for _, t := range strs[n] {
						sc++
						if !ctx.MatchString(t) {
							continue
						}
						nm++
						l := j - i
						if minSeen == -1 || l < minSeen {
							minSeen = l
						}
						if l > maxSeen {
							maxSeen = l
						}
						if uint(l) < al.MinLength || uint(l) > al.MaxLength {
							rep.Report(mc.Violation{Symptom: "length.not-contained", Key: rx,
								Msg:    fmt.Sprintf("regex %q matches %q[%d:%d] (length %d) but AcceptedLength says [%d,%d]", rx, t, i, j, l, al.MinLength, al.MaxLength),
								Replay: map[string]any{"regex": rx, "text": t, "i": i, "j": j}})
						}
						if !bytes.HasSuffix([]byte(t[i:j]), suffix) {
							rep.Report(mc.Violation{Symptom: "suffix.not-suffix", Key: rx,
								Msg:    fmt.Sprintf("regex %q matches %q[%d:%d]=%q which does not end with ConstantSuffix %q", rx, t, i, j, t[i:j], suffix),
								Replay: map[string]any{"regex": rx, "text": t, "i": i, "j": j}})
						}
					}
				}
			}
		}
		atomic.AddInt64(&matches, nm)
		atomic.AddInt64(&spansChecked, sc)
		// a literal outside the string alphabet cannot be realised: containment is still judged on
		// whatever matches, attainment is not
		if !hasAssert && !strings.Contains(rx, `\x00`) {
			// attainment: the alphabet can realise every assertion-free regex of the grammar
			if al.MinLength <= uint(maxLen) && minSeen != int(al.MinLength) {
				rep.Report(mc.Violation{Symptom: "length.min-not-attained", Key: rx,
					Msg:    fmt.Sprintf("regex %q: MinLength=%d but the shortest match among all strings up to %d over %q has length %d", rx, al.MinLength, maxLen, alphabet, minSeen),
					Replay: map[string]any{"regex": rx}})
			}
			if al.MaxLength != math.MaxUint && al.MaxLength <= uint(maxLen) && maxSeen != int(al.MaxLength) {
				rep.Report(mc.Violation{Symptom: "length.max-not-attained", Key: rx,
					Msg:    fmt.Sprintf("regex %q: MaxLength=%d but the longest match among all strings up to %d has length %d", rx, al.MaxLength, maxLen, maxSeen),
					Replay: map[string]any{"regex": rx}})
			}
		}
		atomic.AddInt64(&evals, 1)
		if nm > 0 && (len(suffix) > 0 || al.MinLength != al.MaxLength) {
			atomic.AddInt64(&nontrivial, 1)
		}
		mu.Lock()
		mx := fmt.Sprint(al.MaxLength)
		if al.MaxLength == math.MaxUint {
			mx = "inf"
		}
		outcomes[fmt.Sprintf("min=%d max=%s suffix=%q", al.MinLength, mx, suffix)]++
		if d := atomic.AddInt64(&done, 1); d%int64(len(regexes)/5+1) == 1 {
			samples = append(samples, fmt.Sprintf("%s -> min=%d max=%s suffix=%q matches=%d", rx, al.MinLength, mx, suffix, nm))
		}
		mu.Unlock()
	}, func(i int, text string) {
		rep.Report(mc.Violation{Symptom: "panic", Key: regexes[i], Msg: "panic analysing " + regexes[i] + ": " + text, Replay: map[string]any{"regex": regexes[i]}})
	})
	c := rep.Coverage
	c["evaluations"] = evals
	c["distinct_nontrivial"] = nontrivial
	c["states"] = evals
	c["transitions"] = spansChecked
	c["traces_validated_against_impl"] = evals
	c["rule"] = fmt.Sprintf("every regex AST with <= %d grammar nodes (de-duplicated by compiled program) x every span of every string of length <= %d over %q; "+
		"a span matches iff ^(?s:.{i})(?:re)(?s:.{n-j})$ matches; non-trivial = regex matches something and has a non-empty suffix or min!=max", size, maxLen, alphabet)
	c["samples"] = samples
	c["regexes"] = len(regexes)
	c["regex_texts_rejected_by_parser"] = rejected
	c["regexes_literal_words_in_context"] = wordFamily
	c["regexes_tiny_grammar"] = tinyFamily
	c["tiny_grammar_size"] = tinySize
	c["spans_checked"] = spansChecked
	c["matching_spans"] = matches
	c["distinct_outcomes"] = len(outcomes)
	c["exhaustive"] = timedOut == 0
	if timedOut != 0 {
		c["caps_hit"] = []string{"deadline"}
	}
	rep.Assumptions = []string{"rsc.io/binaryregexp matching is the trusted oracle",
		"attainment of Min/Max is only required for regexes without empty-width assertions (an assertion can make the language empty or cut it)"}
	if len(outcomes) < 5 && timedOut == 0 {
		mc.Fatal("vacuous: %d outcomes", len(outcomes))
	}
	return rep.Finish()
}
