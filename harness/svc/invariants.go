package svc

import (
	"context"
	"fmt"
	"github.com/spq/pkappa2/internal/tools/bitmask"
	"os"
	"path/filepath"
	"sort"
	"strings"
	"sync"

	"github.com/spq/pkappa2/internal/index"
	"github.com/spq/pkappa2/internal/index/builder"
	"github.com/spq/pkappa2/internal/index/manager"
	"github.com/spq/pkappa2/internal/query"
	"github.com/spq/pkappa2/verifx/mc"
	"github.com/spq/pkappa2/verifx/ref"
	"rsc.io/binaryregexp"
)

type V struct {
	Prop, Symptom, Msg string
}

// ---- C06: tag answers are never silently stale ----

var (
	parseMu    sync.Mutex
	parseCache = map[string]*query.Query{}
)

func parseDef(def string) *query.Query {
	parseMu.Lock()
	defer parseMu.Unlock()
	if q, ok := parseCache[def]; ok {
		return q
	}
	q, err := query.Parse(def)
	if err != nil {
		q = nil
	}
	parseCache[def] = q
	return q
}

// SubQueryDefinitions gives the meaning of the tag definitions with a sub-query that scenarios use: the
// main stream s is a member iff SOME visible stream x satisfies the function (xHas tells whether x is a
// member of a tag according to the truth computed so far).
var SubQueryDefinitions = map[string]func(s, x *ref.Rec, sHas, xHas func(tag string) bool) bool{
	// the same tag named in the main query and from inside a sub-query: a member of tag/b that follows a member of tag/b
	"tag:b @p:tag:b id:@p:id@+1": func(s, x *ref.Rec, sHas, xHas func(string) bool) bool {
		return sHas("tag/b") && xHas("tag/b") && s.ID == x.ID+1
	},
	// a mark list used inside a sub-query: the stream that follows a marked one
	"@sub:mark:m id:@sub:id@+1": func(s, x *ref.Rec, sHas, xHas func(string) bool) bool {
		return xHas("mark/m") && s.ID == x.ID+1
	},
	"@sub:tag:b sport:@sub:sport@": func(s, x *ref.Rec, sHas, xHas func(string) bool) bool {
		return xHas("tag/b") && s.SPort == x.SPort
	},
}

// TagTruth evaluates every tag definition on the current data of every visible stream.
// Tags the reference evaluator cannot judge (sub-queries, unparsable) are left out, and so are
// tags that reference them.
func TagTruth(s *Snapshot) (map[string]map[uint64]bool, map[uint64]*ref.Rec, error) {
	recs := map[uint64]*ref.Rec{}
	for id, st := range s.Visible {
		r, err := RecFromStream(st)
		if err != nil {
			return nil, nil, fmt.Errorf("stream %d: %v", id, err)
		}
		for name, cv := range s.St.Converters {
			buf, sizes, _, _, cached, err := cv.DataForSearch(id)
			if err != nil {
				return nil, nil, fmt.Errorf("converter %s stream %d: %v", name, id, err)
			}
			if !cached {
				continue
			}
			var ch []ref.Chunk
			for i := 1; i < len(sizes); i++ {
				for d := 0; d < 2; d++ {
					if sizes[i][d] != sizes[i-1][d] {
						ch = append(ch, ref.Chunk{Dir: d, Data: buf[d][sizes[i-1][d]:sizes[i][d]]})
					}
				}
			}
			r.Reps[name] = ch
		}
		recs[id] = r
	}
	truth := map[string]map[uint64]bool{}
	skipped := map[string]bool{}
	res := map[string]*binaryregexp.Regexp{}
	remaining := map[string]manager.VerifTag{}
	for _, t := range s.St.Tags {
		remaining[t.Name] = t
	}
	for len(remaining) != 0 {
		progress := false
		for name, t := range remaining {
			ready, skip := true, false
			for _, r := range t.ReferencedTags {
				if skipped[r] {
					skip = true
				} else if _, ok := truth[r]; !ok {
					if _, known := remaining[r]; known {
						ready = false
					} else {
						skip = true // dangling reference: C11's business
					}
				}
			}
			if !ready {
				continue
			}
			progress = true
			delete(remaining, name)
			q := parseDef(t.Definition)
			if sq, ok := SubQueryDefinitions[t.Definition]; ok && !skip && q != nil {
				// a definition with a sub-query from the harness' menu: its meaning is written out in Go
				m := map[uint64]bool{}
				for id, r := range recs {
					m[id] = false
					for xid, x := range recs {
						if sq(r, x, func(tag string) bool { return truth[tag][id] }, func(tag string) bool { return truth[tag][xid] }) {
							m[id] = true
							break
						}
					}
				}
				truth[name] = m
				continue
			}
			if skip || q == nil || t.SubQueryFeatures != 0 {
				skipped[name] = true
				continue
			}
			m := map[uint64]bool{}
			for id, r := range recs {
				for _, rt := range t.ReferencedTags {
					st := ref.TagFailing
					if truth[rt][id] {
						st = ref.TagMatching
					}
					r.Tags[rt] = st
				}
				ok := false
				if q.Conditions != nil {
					var err error
					ok, err = ref.EvalConditions(q.Conditions, r, q.ReferenceTime, res)
					if err != nil {
						skipped[name] = true
						break
					}
				}
				m[id] = ok
			}
			if !skipped[name] {
				truth[name] = m
			}
		}
		if !progress {
			break // reference cycle: C11's business
		}
	}
	return truth, recs, nil
}

func has(l []uint, x uint) bool {
	i := sort.Search(len(l), func(i int) bool { return l[i] >= x })
	return i < len(l) && l[i] == x
}

func CheckC06(w *World, s *Snapshot) []V {
	var out []V
	truth, _, err := TagTruth(s)
	if err != nil {
		return []V{{"C06", "c06.unreadable", err.Error()}}
	}
	for _, t := range s.St.Tags {
		m, ok := truth[t.Name]
		if !ok {
			continue
		}
		for id := range s.Visible {
			if has(t.Uncertain, uint(id)) {
				continue
			}
			if got := has(t.Matches, uint(id)); got != m[id] {
				if conversionWindow(s, t.Definition, id) {
					out = append(out, V{"C06", "c06.stale-decided-bit-until-conversion-job-completes", fmt.Sprintf("tag %s (%s): stream %d is reported as decided with membership %v, evaluating the definition on its current data (converter output a still running conversion job has already cached) gives %v", t.Name, t.Definition, id, got, m[id])})
					continue
				}
				out = append(out, V{"C06", "c06.stale-decided-bit", fmt.Sprintf("tag %s (%s): stream %d is reported as decided with membership %v, evaluating the definition on its current data gives %v", t.Name, t.Definition, id, got, m[id])})
			}
		}
	}
	// the public path: a fresh view that evaluates pending streams itself must show the truth
	v := w.Mgr.GetView()
	shown := map[uint64][]string{}
	err = v.AllStreams(context.Background(), func(sc manager.StreamContext) error {
		tags, err := sc.AllTags()
		if err != nil {
			return err
		}
		shown[sc.Stream().ID()] = tags
		return nil
	}, manager.PrefetchAllTags())
	v.Release()
	w.Mgr.Status()
	if err != nil {
		// a view refusing to answer is not a stale answer; it is reported for C10
		out = append(out, V{"C10", "c10.view-error", "fresh view with all tags prefetched: " + err.Error()})
		return out
	}
	// the same through searches that return one stream per page and prefetch the tags in a given order
	// (what the web interface does): a tag is then evaluated for the streams of the page only, unless
	// another tag needs it for all streams
	if len(s.St.Tags) >= 2 && len(s.Visible) >= 2 {
		var names []string
		for _, t := range s.St.Tags {
			names = append(names, t.Name)
		}
		rev := append([]string{}, names...)
		sort.Sort(sort.Reverse(sort.StringSlice(rev)))
		qAll := parseDef("sort:id")
		for oi, order := range [][]string{names, rev} {
			for page := uint(0); page < uint(len(s.Visible)); page++ {
				v := w.Mgr.GetView()
				var gotID uint64
				var gotTags []string
				n := 0
				_, _, _, err := v.SearchStreams(context.Background(), qAll, func(sc manager.StreamContext) error {
					tags, err := sc.AllTags()
					if err != nil {
						return err
					}
					gotID, gotTags = sc.Stream().ID(), tags
					n++
					return nil
				}, manager.Limit(1, page), manager.PrefetchTags(order))
				v.Release()
				if err != nil || n != 1 {
					continue // refusals and paging are not this property's business
				}
				_ = oi
				var want []string
				complete := true
				for _, t := range s.St.Tags {
					m, ok := truth[t.Name]
					if !ok {
						complete = false
						break
					}
					if m[gotID] {
						want = append(want, t.Name)
					}
				}
				if !complete {
					continue
				}
				sort.Strings(want)
				sort.Strings(gotTags)
				if strings.Join(want, ",") != strings.Join(gotTags, ",") {
					window := false
					for _, t := range s.St.Tags {
						if conversionWindow(s, t.Definition, gotID) {
							window = true
						}
					}
					if window {
						continue // reported by the unpaged path under its own symptom
					}
					out = append(out, V{"C06", "c06.search-page-shows-wrong-tags", fmt.Sprintf("a search for one stream per page (page %d, tags prefetched in the order %v) shows stream %d with tags [%s], evaluating the definitions on its current data gives [%s]", page, order, gotID, strings.Join(gotTags, ","), strings.Join(want, ","))})
				}
			}
		}
		w.Mgr.Status()
	}
	// searches that FILTER on a tag (and on its negation): the result must be exactly the visible streams for
	// which the definition holds (does not hold) on their current data - decided streams through the stored
	// bit, pending ones through the definition the search inlines
	for _, t := range s.St.Tags {
		m, ok := truth[t.Name]
		if !ok {
			continue
		}
		kind, short, found := strings.Cut(t.Name, "/")
		if !found {
			continue
		}
		for _, neg := range []bool{false, true} {
			text := kind + ":" + short
			if neg {
				text = "-" + text
			}
			q := parseDef(text + " sort:id")
			if q == nil {
				continue
			}
			v := w.Mgr.GetView()
			var got []uint64
			_, _, _, err := v.SearchStreams(context.Background(), q, func(sc manager.StreamContext) error {
				got = append(got, sc.Stream().ID())
				return nil
			}, manager.Limit(1000, 0))
			v.Release()
			if err != nil {
				continue // a refusal is not a stale answer
			}
			var want []uint64
			for id := range s.Visible {
				if m[id] != neg {
					want = append(want, id)
				}
			}
			sort.Slice(want, func(i, j int) bool { return want[i] < want[j] })
			sort.Slice(got, func(i, j int) bool { return got[i] < got[j] })
			if fmt.Sprint(got) != fmt.Sprint(want) {
				window := false
				for id := range s.Visible {
					if conversionWindow(s, t.Definition, id) {
						window = true
					}
				}
				sym := "c06.search-by-tag-wrong"
				if window {
					sym = "c06.search-by-tag-wrong-until-conversion-job-completes"
				}
				out = append(out, V{"C06", sym, fmt.Sprintf("a search for %q returns streams %v, evaluating the definition of %s (%s) on the current data of the visible streams gives %v", text, got, t.Name, t.Definition, want)})
			}
		}
	}
	w.Mgr.Status()
	for id := range s.Visible {
		var want []string
		skip := false
		for _, t := range s.St.Tags {
			m, ok := truth[t.Name]
			if !ok {
				skip = true
				break
			}
			if m[id] {
				want = append(want, t.Name)
			}
		}
		if skip {
			continue
		}
		sort.Strings(want)
		if strings.Join(want, ",") != strings.Join(shown[id], ",") {
			// do all differing tags fall into the window of a conversion job that has cached output
			// and not delivered its completion?
			in := map[string]int{}
			for _, n := range want {
				in[n]++
			}
			for _, n := range shown[id] {
				in[n]--
			}
			allWindow := true
			for _, t := range s.St.Tags {
				if in[t.Name] != 0 && !conversionWindow(s, t.Definition, id) {
					allWindow = false
				}
			}
			if allWindow {
				out = append(out, V{"C06", "c06.view-shows-wrong-tags-until-conversion-job-completes", fmt.Sprintf("a freshly opened view shows stream %d with tags [%s], evaluating the definitions on its current data (converter output a still running conversion job has already cached) gives [%s]", id, strings.Join(shown[id], ","), strings.Join(want, ","))})
				continue
			}
			out = append(out, V{"C06", "c06.view-shows-wrong-tags", fmt.Sprintf("a freshly opened view shows stream %d with tags [%s], evaluating the definitions on its current data gives [%s]", id, strings.Join(shown[id], ","), strings.Join(want, ","))})
		}
	}
	return out
}

// conversionWindow: the tag filters on data and a conversion job that has produced (and cached)
// output for this stream is parked before the delivery of its completion, which is what re-opens
// data tags for the converted streams.
func conversionWindow(s *Snapshot, definition string, id uint64) bool {
	if !strings.Contains(definition, "data") {
		return false
	}
	for _, j := range s.Parked {
		if j.Kind != "convert" || j.Gate != "done" {
			continue
		}
		for _, a := range j.Args {
			if sets, ok := a.([]*bitmask.LongBitmask); ok {
				for _, b := range sets {
					if b.IsSet(uint(id)) {
						return true
					}
				}
			}
		}
	}
	return false
}

// ---- C10: views are complete and stable snapshots ----

var (
	truthMu    sync.Mutex
	truthCache = map[string][]string{}
)

// TruthFor imports the given captures in one shot with a fresh builder and returns the sorted
// digests of the visible streams (ids ignored).
func TruthFor(w *World, files []string) ([]string, error) {
	// unreadable captures contain no stream
	var readable []string
	for _, f := range files {
		if _, raw := RawCaptures[f]; !raw {
			readable = append(readable, f)
		}
	}
	files = readable
	sort.Strings(files)
	key := strings.Join(files, "+")
	truthMu.Lock()
	defer truthMu.Unlock()
	if t, ok := truthCache[key]; ok {
		return t, nil
	}
	dir, err := os.MkdirTemp(filepath.Dir(w.Dir), "verif-truth-")
	if err != nil {
		return nil, err
	}
	defer os.RemoveAll(dir)
	for _, d := range []string{"pcap", "index", "snap"} {
		os.MkdirAll(filepath.Join(dir, d), 0o755)
	}
	b, err := builder.New(filepath.Join(dir, "pcap"), filepath.Join(dir, "index"), filepath.Join(dir, "snap"), nil)
	if err != nil {
		return nil, err
	}
	var digests []string
	if len(files) != 0 {
		for _, f := range files {
			data, err := os.ReadFile(filepath.Join(w.Staging, f))
			if err != nil {
				return nil, err
			}
			if err := os.WriteFile(filepath.Join(dir, "pcap", f), data, 0o644); err != nil {
				return nil, err
			}
		}
		_, _, readers, _, _, _, err := b.FromPcap(filepath.Join(dir, "pcap"), files, nil)
		if err != nil {
			return nil, err
		}
		vis, err := VisibleThrough(readers)
		if err != nil {
			return nil, err
		}
		for _, s := range vis {
			o, err := ObserveStream(s)
			if err != nil {
				return nil, err
			}
			digests = append(digests, o.Digest)
		}
		for _, r := range readers {
			r.Close()
		}
	}
	sort.Strings(digests)
	truthCache[key] = digests
	return digests, nil
}

func CheckC10(w *World, s *Snapshot) []V {
	var out []V
	for _, hv := range w.Views {
		if hv.Released {
			continue
		}
		d, err := ViewDigest(hv.View, false)
		if err != nil {
			out = append(out, V{"C10", "c10.view-error", fmt.Sprintf("view %s opened after event %d: %v", hv.Name, hv.OpenedAt, err)})
			continue
		}
		if d != hv.Recorded {
			out = append(out, V{"C10", "c10.view-changed", fmt.Sprintf("view %s opened after event %d answers differently now:\n--- at opening\n%s\n--- now\n%s", hv.Name, hv.OpenedAt, hv.Recorded, d)})
		}
		// the tags of its streams are part of a view's answers
		if t, err := ViewTags(hv.View); err != nil {
			if !strings.HasPrefix(hv.RecordedTags, "error: ") {
				out = append(out, V{"C10", "c10.view-error", fmt.Sprintf("view %s opened after event %d, asking for the tags of its streams: %v", hv.Name, hv.OpenedAt, err)})
			}
		} else if t != hv.RecordedTags {
			out = append(out, V{"C10", "c10.view-tags-changed", fmt.Sprintf("view %s opened after event %d shows other tags for its streams now:\n--- at opening\n%s\n--- now\n%s", hv.Name, hv.OpenedAt, hv.RecordedTags, t)})
		}
	}
	return out
}

// ViewTags asks a view for the tags of every stream it shows (all tags prefetched) and for a search by tag.
func ViewTags(v *manager.View) (string, error) {
	var lines []string
	err := v.AllStreams(context.Background(), func(sc manager.StreamContext) error {
		tags, err := sc.AllTags()
		if err != nil {
			return err
		}
		sort.Strings(tags)
		// the converters a client is offered for the stream (those of the tags it carries, as of the snapshot)
		convs, err := sc.AllConverters()
		if err != nil {
			return err
		}
		sort.Strings(convs)
		lines = append(lines, fmt.Sprintf("%d [%s] converters [%s]", sc.Stream().ID(), strings.Join(tags, ","), strings.Join(convs, ",")))
		return nil
	}, manager.PrefetchAllTags())
	if err != nil {
		return "", err
	}
	sort.Strings(lines)
	return strings.Join(lines, "\n"), nil
}

// CheckViewComplete compares what a view shows when it is opened with the one-shot import of the
// captures that were reported processed at that moment.
func CheckViewComplete(w *World, hv *HeldView) []V {
	var files []string
	for _, l := range w.ImportedApplied {
		files = append(files, l...)
	}
	want, err := TruthFor(w, files)
	if err != nil {
		return []V{{"C10", "c10.truth-error", err.Error()}}
	}
	var got []string
	var out []V
	for _, l := range strings.Split(hv.Recorded, "\n") {
		if strings.HasPrefix(l, "LOOKUP ") {
			out = append(out, V{"C10", "c10.view-lookup-disagrees", fmt.Sprintf("view %s opened after captures %v were reported processed: %s", hv.Name, files, strings.TrimPrefix(l, "LOOKUP "))})
			continue
		}
		if l == "" || strings.HasPrefix(l, "search ") || strings.HasPrefix(l, "stream0=") {
			continue
		}
		_, d, _ := strings.Cut(l, " ")
		got = append(got, d)
	}
	sort.Strings(got)
	if strings.Join(got, "\n") != strings.Join(want, "\n") {
		out = append(out, V{"C10", "c10.view-incomplete", fmt.Sprintf("view %s opened after captures %v were reported processed shows\n%s\nwant (one-shot import of these captures)\n%s", hv.Name, files, strings.Join(got, "\n"), strings.Join(want, "\n"))})
	}
	return out
}

// ---- C13: index files live exactly as long as they are needed ----

func CheckC13(w *World, s *Snapshot, quiescentNoViews bool) []V {
	var out []V
	disk := map[string]bool{}
	for _, n := range s.OnDisk {
		disk[n] = true
	}
	holders := map[string][]string{}
	hold := func(r *index.Reader, who string) {
		n := filepath.Base(r.Filename())
		holders[n] = append(holders[n], who)
	}
	for _, r := range s.St.Indexes {
		hold(r, "service list")
		if s.St.UsedIndexes[r] == 0 {
			out = append(out, V{"C13", "c13.served-unlocked", fmt.Sprintf("index %s is served but has no use count", s.readerName(r))})
		}
	}
	for name, idx := range s.ViewIdx {
		if s.Released[name] {
			continue
		}
		for _, r := range idx {
			hold(r, "view "+name)
		}
	}
	for _, j := range s.Parked {
		for _, args := range [][]any{j.Args, j.BeginArgs} {
			for _, a := range args {
				if rs, ok := a.([]*index.Reader); ok {
					for _, r := range rs {
						hold(r, "job "+j.Name())
					}
				}
			}
		}
	}
	for n, who := range holders {
		if !disk[n] {
			out = append(out, V{"C13", "c13.deleted-while-used", fmt.Sprintf("index file f%d is gone from disk but still used by %v", s.Rank[n], who)})
		}
	}
	for _, who := range [][]*index.Reader{s.St.Indexes} {
		for _, r := range who {
			if err := r.AllStreams(func(*index.Stream) error { return nil }); err != nil {
				out = append(out, V{"C13", "c13.closed-while-used", fmt.Sprintf("served index %s cannot be read: %v", s.readerName(r), err)})
			}
		}
	}
	for _, j := range s.Parked {
		if len(j.Args) == 0 {
			continue
		}
		for ai, a := range j.Args {
			rs, ok := a.([]*index.Reader)
			if !ok {
				continue
			}
			for _, r := range rs {
				if err := r.AllStreams(func(*index.Stream) error { return nil }); err != nil {
					out = append(out, V{"C13", "c13.closed-while-used", fmt.Sprintf("index %s (argument %d of parked job %s) cannot be read: %v", s.readerName(r), ai, j.Name(), err)})
				}
			}
		}
	}
	for n := range disk {
		if len(holders[n]) == 0 {
			out = append(out, V{"C13", "c13.unused-file-kept", fmt.Sprintf("index file f%d is on disk but neither served nor used by a view or job", s.Rank[n])})
		}
	}
	// the importer keeps one file of reassembly snapshots: the one its next import resumes from.  A job body runs
	// between two states, so in every state at most one file is there (the directory is a plain file while the
	// fault snapdir-gone lasts)
	// (not judged after a restart inside this process: an import of the closed manager that was in flight saves its
	// snapshots after the new importer has chosen the file it resumes from - a process that really ends cannot do that)
	if ents, err := os.ReadDir(w.SnapDir); err == nil && !w.Restarted {
		var names []string
		for _, e := range ents {
			names = append(names, e.Name())
		}
		if len(names) > 1 {
			out = append(out, V{"C13", "c13.snapshot-file-kept", fmt.Sprintf("the snapshot directory holds %d files, the importer resumes from one of them and nothing deletes the others", len(names))})
		}
	}
	if quiescentNoViews {
		served := map[string]bool{}
		for _, r := range s.St.Indexes {
			served[filepath.Base(r.Filename())] = true
		}
		if len(served) != len(disk) {
			out = append(out, V{"C13", "c13.directory-differs-at-quiescence", fmt.Sprintf("at quiescence with all views released the index directory holds %d files, the service serves %d", len(disk), len(served))})
		}
	}
	return out
}

// ---- C09: quiescence ----

func CheckQuiescent(w *World, s *Snapshot) []V {
	var out []V
	if len(s.St.ImportJobs) != 0 {
		out = append(out, V{"C09", "c09.queue-not-empty", fmt.Sprintf("no job is running but the import queue holds %v", s.St.ImportJobs)})
	}
	if s.St.MergeJobRunning || s.St.TaggingJobRunning || s.St.ConverterJobRunning {
		out = append(out, V{"C09", "c09.flag-stuck", fmt.Sprintf("no job exists but the service reports merge=%v tagging=%v converter=%v as running", s.St.MergeJobRunning, s.St.TaggingJobRunning, s.St.ConverterJobRunning)})
	}
	attached := map[string][]string{}
	for _, t := range s.St.Tags {
		if len(t.Uncertain) != 0 {
			out = append(out, V{"C09", "c09.pending-forever", fmt.Sprintf("no job is running but tag %s still has streams %v pending re-evaluation", t.Name, t.Uncertain)})
		}
		for _, c := range t.Converters {
			attached[c] = append(attached[c], t.Name)
		}
	}
	for c := range attached {
		if todo := s.St.StreamsToConvert[c]; len(todo) != 0 {
			out = append(out, V{"C09", "c09.conversion-pending", fmt.Sprintf("no job is running but converter %s (attached to %v) still has streams %v to convert", c, attached[c], todo)})
		}
	}
	return out
}

// ---- C16: converter output belongs to the stream's current data ----

// ConvExpected is what the harness converter outputs for a payload (see cmd/vconv): one client
// chunk with the upper-cased client bytes, one server chunk with the byte count of the server data.
func ConvExpected(raw []ref.Chunk) string {
	var c, sv []byte
	for _, ch := range raw {
		if ch.Dir == ref.DirC2S {
			c = append(c, ch.Data...)
		} else {
			sv = append(sv, ch.Data...)
		}
	}
	return fmt.Sprintf("C%s|S%d", strings.ToUpper(string(c)), len(sv))
}

func CheckC16(w *World, s *Snapshot, quiescent bool) []V {
	var out []V
	for _, d := range w.DetachedRuns {
		out = append(out, V{"C16", "c16.job-for-detached-converter", d})
	}
	_, recs, err := TagTruth(s)
	if err != nil {
		return nil
	}
	for name := range s.St.Converters {
		for id, r := range recs {
			rep, cached := r.Reps[name]
			if !cached {
				continue
			}
			got := ""
			for _, ch := range rep {
				got += fmt.Sprintf("%c%s|", "CS"[ch.Dir], ch.Data)
			}
			got = strings.TrimSuffix(got, "|")
			want := ConvExpected(r.Reps[""])
			if g := w.ConvGen[name]; g != 0 {
				// the executable that is installed now marks its output with its generation
				c, sv, _ := strings.Cut(want, "|")
				want = fmt.Sprintf("%s#%d|%s", c, g, sv)
			}
			if got != want {
				sym, note := "c16.stale-output", ""
				for _, j := range s.Parked {
					if j.Kind == "convert" && j.Gate == "done" {
						// the job that cached it has not delivered its completion yet
						sym, note = "c16.stale-output-until-conversion-job-completes", " (a conversion job that started before the import is about to complete)"
					}
				}
				out = append(out, V{"C16", sym, fmt.Sprintf("converter %s: cached output of stream %d is %q, the converter's output for the stream's current payload is %q%s", name, id, got, want, note)})
			}
		}
	}
	if quiescent {
		for _, t := range s.St.Tags {
			for _, c := range t.Converters {
				for _, id := range t.Matches {
					if _, ok := recs[uint64(id)]; !ok {
						continue
					}
					if _, cached := recs[uint64(id)].Reps[c]; !cached {
						if w.FutureMarks[t.Name][uint64(id)] {
							out = append(out, V{"C16", "c16.missing-output-for-stream-marked-before-it-existed", fmt.Sprintf("at quiescence stream %d matches tag %s with converter %s attached but has no converter output; the mark was created for id %d before a stream with that id existed", id, t.Name, c, id)})
							continue
						}
						out = append(out, V{"C16", "c16.missing-output", fmt.Sprintf("at quiescence stream %d matches tag %s with converter %s attached but has no converter output", id, t.Name, c)})
					}
				}
			}
		}
	}
	return out
}

var _ = mc.Fatal

// CheckC20: a job that was parked at its begin point executed nothing in between; if what it was
// handed (bitmasks shared by slice with the service state) changed meanwhile, another goroutine
// wrote to memory this job reads without synchronisation once it runs.
func CheckC20(w *World) []V {
	w.mu.Lock()
	defer w.mu.Unlock()
	var out []V
	for _, c := range w.InputChanges {
		out = append(out, V{"C20", "c20.job-input-modified-in-flight", "memory handed to a background job was written by another goroutine before the job read it: " + c})
	}
	return out
}
