package svc

import (
	"net"
	"os"
	"time"

	"github.com/gopacket/gopacket"
	"github.com/gopacket/gopacket/layers"
	"github.com/gopacket/gopacket/pcapgo"
)

// Datagram is one UDP packet of a scenario capture.
type Datagram struct {
	Flow    int // index into Flows
	FromSrv bool
	AtMs    int // capture time relative to Base
	Payload string
}

type Flow struct {
	Name         string
	CIP, SIP     string
	CPort, SPort uint16
}

var Base = time.Date(2020, 1, 1, 12, 0, 0, 0, time.UTC)

// Flows of the service scenarios: a (extended by P3), b, c, d.
var Flows = []Flow{
	{"a", "10.0.0.1", "10.0.0.2", 1, 53},
	{"b", "10.0.0.3", "10.0.0.2", 2000, 80},
	{"c", "10.0.0.1", "10.0.0.4", 1, 80},
	{"d", "10.0.0.5", "10.0.0.2", 4000, 53},
	{"e", "10.0.0.6", "10.0.0.2", 1, 99},
}

// Captures of the scenarios.  P1 = {a}, P2 = {b, c} (two streams, so that the merge rule fires after
// P1), P3 extends a within the reassembly timeout and adds d, P4 = {e}.
var Captures = map[string][]Datagram{
	"P1.pcap": {{0, false, 0, "foo1"}, {0, true, 10, "bar"}},
	"P2.pcap": {{1, false, 1000, "hello"}, {2, false, 1010, "foo2"}, {2, true, 1020, "x"}},
	"P3.pcap": {{0, false, 2000, "foo3"}, {3, false, 2010, "dns"}, {0, true, 2020, "baz"}},
	"P4.pcap": {{4, false, 3000, "foo4"}},
	// P0 is older than P1 and belongs to flow a, sent by the other endpoint: importing it after P1 rebuilds
	// stream 0 under its id with client and server swapped ("reset" stream)
	"P0.pcap": {{0, true, -1000, "early"}},
	// a valid capture without packets
	"EMPTY.pcap": {},
	// P6 only continues flow a (after P3): the index file it creates holds nothing but an old, low stream id
	"P6.pcap": {{0, false, 2500, "foo6"}},
	// P5 = {d}: a new stream that matches none of the port-1 tags
	"P5.pcap": {{3, false, 4000, "dns2"}},
}

// RawCaptures are written byte for byte: files the importer cannot read.  An import job whose first
// file is unreadable ends without an index; the files queued behind it go to a follow-up job.
var RawCaptures = map[string][]byte{
	"BAD.pcap": []byte("this is not a capture file\n"),
}

func WriteCapture(path string, dgs []Datagram) error {
	f, err := os.Create(path)
	if err != nil {
		return err
	}
	defer f.Close()
	w := pcapgo.NewWriter(f)
	if err := w.WriteFileHeader(65535, layers.LinkTypeEthernet); err != nil {
		return err
	}
	for i, d := range dgs {
		fl := Flows[d.Flow]
		sip, dip, sp, dp := fl.CIP, fl.SIP, fl.CPort, fl.SPort
		if d.FromSrv {
			sip, dip, sp, dp = dip, sip, dp, sp
		}
		eth := &layers.Ethernet{SrcMAC: []byte{2, 0, 0, 0, 0, 1}, DstMAC: []byte{2, 0, 0, 0, 0, 2}, EthernetType: layers.EthernetTypeIPv4}
		ip := &layers.IPv4{Version: 4, IHL: 5, TTL: 64, Id: uint16(i + 1), Protocol: layers.IPProtocolUDP, SrcIP: net.ParseIP(sip).To4(), DstIP: net.ParseIP(dip).To4()}
		udp := &layers.UDP{SrcPort: layers.UDPPort(sp), DstPort: layers.UDPPort(dp)}
		if err := udp.SetNetworkLayerForChecksum(ip); err != nil {
			return err
		}
		buf := gopacket.NewSerializeBuffer()
		if err := gopacket.SerializeLayers(buf, gopacket.SerializeOptions{FixLengths: true, ComputeChecksums: true}, eth, ip, udp, gopacket.Payload(d.Payload)); err != nil {
			return err
		}
		b := buf.Bytes()
		if err := w.WritePacket(gopacket.CaptureInfo{Timestamp: Base.Add(time.Duration(d.AtMs) * time.Millisecond), CaptureLength: len(b), Length: len(b)}, b); err != nil {
			return err
		}
	}
	return nil
}
