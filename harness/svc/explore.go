package svc

import (
	"crypto/sha1"
	"errors"
	"fmt"
	"os"
	"sort"
	"strings"
	"sync"
	"sync/atomic"
	"time"

	"github.com/spq/pkappa2/verifx/mc"
)

type Scenario struct {
	Name      string
	Program   []string // API calls issued in this order, interleaved with job steps in every way
	Converter bool     // install the harness converter
	Prebuilt  []int    // index files (stream counts, oldest first) present when the service starts
	// Workers limits how many histories of this scenario run at the same time (0 = all cores).  The
	// service names index files by the millisecond plus a process-wide counter that is not zero-padded:
	// with ten or more files created in one millisecond by all the services running in this process,
	// names stop sorting in creation order - which matters as soon as a scenario restarts the service
	Workers int
}

type ExploreStats struct {
	States, Transitions int64
	MaxDepth            int
	Quiescent           map[string]int // canonical quiescent outcomes -> count
	Complete            bool
	CapHit              string
	Samples             []string
	PerProp             map[string]int64 // invariant evaluations per property
	DrainSteps          int64
	Diverged            int64  // replays that took another course than the recorded history (judged, not expanded)
	CapNote             string // first such divergence
	MergeDeliveries     int64  // histories whose last event delivered the result of a merge job (C07 at service level)
	PickPoints          int64  // transitions at which the service chose among several waiting tags
	ForcedPicks         int64  // additional histories run to cover the choices it did not make by itself
}

type node struct {
	path []string
}

type result struct {
	canon    string
	enabled  []string
	viol     []V
	final    string // canonical quiescent outcome reached by draining the jobs (canonical schedule)
	drained  int
	hardErr  error
	pathDesc string
	// the last event started a tagging job and more than one tag was eligible: the tag the service
	// picked and all eligible ones.  The explorer names the pick in the event and schedules the others.
	pick           string
	cands          []string
	retry          bool // a named pick was not the one the service made in this run
	mergeDelivered bool
	diverged       string // see run1: non-determinism of the code under test
	divergedAt     int
}

// pcOf counts the api events of a path.
func pcOf(path []string) int {
	n := 0
	for _, e := range path {
		if strings.HasPrefix(e, "api:") {
			n++
		}
	}
	return n
}

const maxDrain = 60

// WaitVerdictsNotReproduced counts verdicts reached by waiting that a second run of the same history did not repeat.
var WaitVerdictsNotReproduced int64

// run replays a path on a fresh world, checks all invariants in the reached state, then drains
// the parked jobs in canonical order and checks the quiescent state.
func run(sc *Scenario, path []string, convBin string) (res result) {
	res = run1(sc, path, convBin)
	// "a job never completes" / "work without a job" are verdicts reached by waiting: a machine that is
	// overloaded far enough can produce them for a correct service.  A defect produces them again when the
	// same history is run again; only then do they stand
	for _, v := range res.viol {
		if v.Symptom == "c09.job-never-completes" || v.Symptom == "c09.work-claimed-without-a-job" {
			again := run1(sc, path, convBin)
			confirmed := false
			for _, v2 := range again.viol {
				if v2.Symptom == v.Symptom {
					confirmed = true
				}
			}
			if !confirmed {
				atomic.AddInt64(&WaitVerdictsNotReproduced, 1)
				res = again
			}
			break
		}
	}
	if res.retry {
		res.hardErr = fmt.Errorf("replay divergence: the service did not make the named tag picks of [%s]", res.pathDesc)
	}
	return
}

func run1(sc *Scenario, path []string, convBin string) (res result) {
	res.pathDesc = strings.Join(path, " ; ")
	bin := ""
	if sc.Converter {
		bin = convBin
	}
	w, err := NewWorldPrebuilt(bin, sc.Prebuilt)
	if err != nil {
		res.hardErr = err
		return
	}
	defer w.Destroy()
	pc := 0
	for i, ev := range path {
		en := w.Enabled(sc.Program, pc)
		found := false
		base, _, _ := strings.Cut(ev, PickSep)
		for _, e := range en {
			if e == base {
				found = true
			}
		}
		if !found {
			// the same history did something else this time: the code under test is not deterministic under
			// the harness' scheduling (e.g. it acts on whatever a map iteration yields first).  What was
			// executed is still a real execution: it is judged like any other (invariants, drain), the
			// exploration behind it is given up and the run is reported as not exhaustive.
			res.diverged = fmt.Sprintf("replay of [%s] diverged at step %d: event %q not enabled (enabled %v); what happened in this run: %v; applied notifications: %v", res.pathDesc, i, ev, en, w.Events, w.Applied)
			res.divergedAt = i
			break
		}
		nViews := len(w.Views)
		// C07 at service level: delivering a merge result must not change what a fresh view shows
		mergeBefore, mergeApplied := "", false
		if i == len(path)-1 && base == "step:merge" {
			if j := w.Parked("merge"); j != nil && j.Gate == "done" {
				v := w.Mgr.GetView()
				d, derr := ViewDigest(&v, false)
				v.Release()
				w.Mgr.Status()
				if derr == nil {
					mergeBefore, mergeApplied = d, true
				}
			}
		}
		if err := w.Apply(ev); err != nil {
			if errors.Is(err, ErrPick) {
				res.diverged = fmt.Sprintf("replay of [%s] diverged at step %d: %v", res.pathDesc, i, err)
				res.divergedAt = i + 1
				break
			}
			// (at an earlier step of a replay: the service did not do again what it did when the history was
			// recorded - the execution is judged as the one it is and not expanded)
			at := ""
			if i != len(path)-1 {
				at = fmt.Sprintf("at step %d of %d of the history (which went through when it was recorded): ", i+1, len(path))
			}
			if errors.Is(err, ErrJobStuck) {
				res.viol = append(res.viol, V{"C09", "c09.job-never-completes", at + err.Error()})
				res.canon = "stuck:" + res.pathDesc
				return
			}
			if errors.Is(err, ErrPhantomWork) {
				res.viol = append(res.viol, V{"C09", "c09.work-claimed-without-a-job", at + err.Error()})
				res.canon = "phantom:" + res.pathDesc
				return
			}
			res.hardErr = fmt.Errorf("applying %q in [%s]: %v", ev, res.pathDesc, err)
			return
		}
		if strings.HasPrefix(ev, "api:") {
			pc++
		}
		if len(w.LastCands) > 1 {
			if !strings.Contains(ev, PickSep) {
				if i != len(path)-1 {
					res.diverged = fmt.Sprintf("replay of [%s] diverged at step %d: event %q started a tagging job with several eligible tags %v, which it did not when the history was recorded", res.pathDesc, i, ev, w.LastCands)
					res.divergedAt = i + 1
					break
				}
				res.pick, res.cands = w.LastPick, w.LastCands
			}
		} else if strings.Contains(ev, PickSep) && len(w.LastCands) < 2 {
			res.diverged = fmt.Sprintf("replay of [%s] diverged at step %d: event %q names a pick but eligible tags are %v", res.pathDesc, i, ev, w.LastCands)
			res.divergedAt = i + 1
			break
		}
		if mergeApplied {
			res.mergeDelivered = true
			v := w.Mgr.GetView()
			d, derr := ViewDigest(&v, false)
			v.Release()
			w.Mgr.Status()
			if derr != nil {
				res.viol = append(res.viol, V{"C07", "c07.service-merge-unreadable", "after the merge result was delivered a fresh view cannot be read: " + derr.Error()})
			} else if d != mergeBefore {
				res.viol = append(res.viol, V{"C07", "c07.service-merge-changed-visible-streams", fmt.Sprintf("delivering the result of a merge changed what a fresh view shows:\n--- before\n%s\n--- after\n%s", mergeBefore, d)})
			}
		}
		if len(w.Views) > nViews && i == len(path)-1 {
			res.viol = append(res.viol, CheckViewComplete(w, w.Views[len(w.Views)-1])...)
		}
	}
	if len(w.DoubleJobs) != 0 && len(w.Errors) == 0 {
		res.viol = append(res.viol, V{"C09", "c09.two-jobs-of-one-kind", strings.Join(w.DoubleJobs, "; ")})
		return
	}
	if len(w.Errors) != 0 {
		res.hardErr = fmt.Errorf("harness: %v", w.Errors)
		return
	}
	res.viol = append(res.viol, CheckC20(w)...)
	s, err := w.Snapshot(pc)
	if err != nil {
		res.viol = append(res.viol, V{"C13", "c13.unreadable-state", err.Error()})
		return
	}
	res.canon = s.Canon()
	res.enabled = w.Enabled(sc.Program, pc)
	res.viol = append(res.viol, CheckC06(w, s)...)
	res.viol = append(res.viol, CheckC10(w, s)...)
	res.viol = append(res.viol, CheckC13(w, s, false)...)
	if sc.Converter {
		res.viol = append(res.viol, CheckC16(w, s, false)...)
	}
	// C09: from here, with no further API calls, the jobs must run dry
	for len(w.ParkedNames()) != 0 {
		if res.drained >= maxDrain {
			res.viol = append(res.viol, V{"C09", "c09.does-not-settle", fmt.Sprintf("after %d further job steps (oldest job first, no API call) jobs are still running: %v", maxDrain, w.ParkedNames())})
			return
		}
		if err := w.Step(w.ParkedNames()[0]); err != nil {
			if errors.Is(err, ErrJobStuck) {
				res.viol = append(res.viol, V{"C09", "c09.job-never-completes", fmt.Sprintf("while running the jobs dry (after %d steps): %v", res.drained, err)})
				res.enabled = nil
				return
			}
			if errors.Is(err, ErrPhantomWork) {
				res.viol = append(res.viol, V{"C09", "c09.work-claimed-without-a-job", fmt.Sprintf("while running the jobs dry (after %d steps): %v", res.drained, err)})
				res.enabled = nil
				return
			}
			res.hardErr = fmt.Errorf("draining after [%s]: %v", res.pathDesc, err)
			return
		}
		res.drained++
	}
	q, err := w.Snapshot(pc)
	if err != nil {
		res.viol = append(res.viol, V{"C13", "c13.unreadable-state", err.Error()})
		return
	}
	allReleased := true
	for _, hv := range w.Views {
		if !hv.Released {
			allReleased = false
		}
	}
	res.viol = append(res.viol, CheckQuiescent(w, q)...)
	res.viol = append(res.viol, CheckC20(w)...)
	res.viol = append(res.viol, CheckC06(w, q)...)
	res.viol = append(res.viol, CheckC10(w, q)...)
	res.viol = append(res.viol, CheckC13(w, q, allReleased)...)
	if sc.Converter {
		res.viol = append(res.viol, CheckC16(w, q, true)...)
	}
	res.final = q.Canon()
	return
}

func hashOf(s string) [20]byte { return sha1.Sum([]byte(s)) }

// Explore runs a breadth-first search over all interleavings of the scenario program with the
// job steps, merging histories that reach the same canonical state.
func Explore(sc *Scenario, convBin string, maxStates int64, deadline time.Time, report func(path []string, v V)) ExploreStats {
	st := ExploreStats{Quiescent: map[string]int{}, PerProp: map[string]int64{}}
	seen := map[[20]byte]bool{}
	frontier := []node{{nil}}
	var mu sync.Mutex
	// determinism self-check: the empty path and the canonical schedule twice
	r1, r2 := run(sc, nil, convBin), run(sc, nil, convBin)
	if r1.hardErr != nil {
		mc.Fatal("scenario %s: %v", sc.Name, r1.hardErr)
	}
	if r1.canon != r2.canon || r1.final != r2.final {
		mc.Fatal("scenario %s: two runs of the empty history differ:\n%s\n---\n%s", sc.Name, r1.canon+r1.final, r2.canon+r2.final)
	}
	livelock := false
	for depth := 0; len(frontier) != 0; depth++ {
		var next []node
		var stop int32
		results := make([]result, len(frontier))
		parFor(sc.Workers, len(frontier), func(i int) {
			if atomic.LoadInt32(&stop) != 0 {
				return
			}
			if time.Now().After(deadline) {
				atomic.StoreInt32(&stop, 1)
				return
			}
			results[i] = run(sc, frontier[i].path, convBin)
		})
		if stop != 0 {
			st.CapHit = fmt.Sprintf("deadline while expanding depth %d (%d histories)", depth, len(frontier))
			break
		}
		// environment choice: where the last event started a tagging job with several eligible tags, the
		// history is renamed to carry the pick that was made and one history per other pick is added
		// to this level (and run until the service makes that pick)
		var extra []node
		for i := range results {
			r := &results[i]
			if r.hardErr != nil || len(r.cands) < 2 {
				continue
			}
			p := frontier[i].path
			last := p[len(p)-1]
			for _, c := range r.cands {
				np := append(append([]string{}, p[:len(p)-1]...), last+PickSep+c)
				if c == r.pick {
					frontier[i].path = np
				} else {
					extra = append(extra, node{np})
				}
			}
			st.PickPoints++
		}
		if len(extra) != 0 {
			xr := make([]result, len(extra))
			parFor(sc.Workers, len(extra), func(i int) { xr[i] = run(sc, extra[i].path, convBin) })
			frontier = append(frontier, extra...)
			results = append(results, xr...)
			st.ForcedPicks += int64(len(extra))
		}
		type cand struct {
			path []string
			h    [20]byte
		}
		level := map[[20]byte][]string{}
		for i, r := range results {
			if r.hardErr != nil {
				mc.Fatal("scenario %s: %v", sc.Name, r.hardErr)
			}
			if r.diverged != "" {
				st.Diverged++
				if st.CapNote == "" {
					st.CapNote = "non-deterministic behaviour of the code under test: " + r.diverged
				}
				for _, v := range r.viol {
					report(frontier[i].path[:r.divergedAt], v)
				}
				continue
			}
			st.Transitions++
			if r.mergeDelivered {
				st.MergeDeliveries++
			}
			st.DrainSteps += int64(r.drained)
			for _, v := range r.viol {
				report(frontier[i].path, v)
				if v.Symptom == "c09.does-not-settle" || v.Symptom == "c09.job-never-completes" {
					// a service that keeps running jobs for ever cannot be stopped: every further world of
					// this scenario would leave another busy instance behind in this process
					livelock = true
				}
			}
			h := hashOf(r.canon)
			mu.Lock()
			if seen[h] {
				mu.Unlock()
				continue
			}
			if old, ok := level[h]; ok && !lessStrs(frontier[i].path, old) {
				mu.Unlock()
				continue
			}
			level[h] = frontier[i].path
			mu.Unlock()
			_ = cand{}
			results[i].pathDesc = "keep"
		}
		// expand the distinct new states of this level (smallest path per state, deterministic)
		keep := map[string]bool{}
		for _, p := range level {
			keep[strings.Join(p, "\x00")] = true
		}
		for i, r := range results {
			if r.pathDesc != "keep" || !keep[strings.Join(frontier[i].path, "\x00")] {
				continue
			}
			h := hashOf(r.canon)
			if seen[h] {
				continue
			}
			seen[h] = true
			st.States++
			if f := os.Getenv("VERIF_DUMP_STATES"); f != "" {
				if fh, err := os.OpenFile(f, os.O_APPEND|os.O_CREATE|os.O_WRONLY, 0o644); err == nil {
					fmt.Fprintf(fh, "##### %s\n%s\n", strings.Join(frontier[i].path, " ; "), r.canon)
					fh.Close()
				}
			}
			st.Quiescent[fmt.Sprintf("%x", hashOf(r.final))[:12]]++
			if len(st.Samples) < 6 && (st.States%23 == 1) {
				st.Samples = append(st.Samples, strings.Join(frontier[i].path, " ; "))
			}
			// states that violate an invariant are reported and still expanded: the service keeps
			// running after a stale answer, and a known finding must not hide what lies behind it
			for _, ev := range r.enabled {
				next = append(next, node{append(append([]string{}, frontier[i].path...), ev)})
			}
		}
		if depth > st.MaxDepth {
			st.MaxDepth = depth
		}
		if livelock {
			st.CapHit = fmt.Sprintf("the service did not settle in a state of depth %d: the scenario is not explored any deeper", depth)
			break
		}
		if maxStates > 0 && st.States >= maxStates {
			st.CapHit = fmt.Sprintf("state cap %d at depth %d", maxStates, depth)
			break
		}
		sort.Slice(next, func(i, j int) bool { return lessStrs(next[i].path, next[j].path) })
		frontier = next
	}
	if st.CapHit == "" && st.Diverged != 0 {
		st.CapHit = fmt.Sprintf("%d replays diverged; %s", st.Diverged, st.CapNote)
	}
	st.Complete = st.CapHit == ""
	return st
}

func hasHard(v []V) bool { return len(v) != 0 }

func lessStrs(a, b []string) bool {
	for i := range a {
		if i >= len(b) {
			return false
		}
		if a[i] != b[i] {
			return a[i] < b[i]
		}
	}
	return len(a) < len(b)
}

// parFor runs f(0..n-1) on the given number of goroutines (0: one per core).
func parFor(workers, n int, f func(i int)) {
	if workers <= 0 {
		mc.ParFor(n, f, nil)
		return
	}
	var next int64 = -1
	var wg sync.WaitGroup
	for k := 0; k < workers && k < n; k++ {
		wg.Add(1)
		go func() {
			defer wg.Done()
			for {
				i := int(atomic.AddInt64(&next, 1))
				if i >= n {
					return
				}
				f(i)
			}
		}()
	}
	wg.Wait()
}
