package svc

import (
	"errors"
	"fmt"
	"github.com/spq/pkappa2/internal/index/converters"
	"github.com/spq/pkappa2/internal/tools/bitmask"
	"github.com/spq/pkappa2/verifx/mc"
	"os"
	"path/filepath"
	"sort"
	"strconv"
	"strings"
	"time"

	"github.com/spq/pkappa2/internal/index/manager"
)

// ApplyAPI performs one API call of a scenario program.  The result (error text or "ok") is part of
// the world's event log.
func (w *World) ApplyAPI(call string) error {
	op, arg, _ := strings.Cut(call, ":")
	res := "ok"
	switch op {
	case "import":
		files := strings.Split(arg, "+")
		for i, f := range files {
			files[i] = f + ".pcap"
			if err := w.Stage(files[i]); err != nil {
				return err
			}
		}
		w.Mgr.ImportPcaps(files)
	case "addtag":
		name, def, _ := strings.Cut(arg, "=")
		next := w.Mgr.VerifDump().NextStreamID
		if err := w.Mgr.AddTag(name, "#fff", def); err != nil {
			res = "error: " + err.Error()
		} else if idl, ok := strings.CutPrefix(def, "id:"); ok && strings.HasPrefix(name, "mark/") {
			for _, f := range strings.Split(idl, ",") {
				if n, err := strconv.ParseUint(f, 10, 64); err == nil && n >= next {
					if w.FutureMarks == nil {
						w.FutureMarks = map[string]map[uint64]bool{}
					}
					if w.FutureMarks[name] == nil {
						w.FutureMarks[name] = map[uint64]bool{}
					}
					w.FutureMarks[name][n] = true
				}
			}
		}
	case "updtag":
		name, def, _ := strings.Cut(arg, "=")
		if err := w.Mgr.UpdateTag(name, manager.UpdateTagOperationUpdateQuery(def)); err != nil {
			res = "error: " + err.Error()
		}
	case "color":
		name, col, _ := strings.Cut(arg, "=")
		if err := w.Mgr.UpdateTag(name, manager.UpdateTagOperationUpdateColor(col)); err != nil {
			res = "error: " + err.Error()
		}
	case "rename":
		name, nn, _ := strings.Cut(arg, "=")
		if err := w.Mgr.UpdateTag(name, manager.UpdateTagOperationUpdateName(nn)); err != nil {
			res = "error: " + err.Error()
		}
	case "deltag":
		if err := w.Mgr.DelTag(arg); err != nil {
			res = "error: " + err.Error()
		}
	case "markadd", "markdel":
		name, idl, _ := strings.Cut(arg, "=")
		var ids []uint64
		for _, s := range strings.Split(idl, ",") {
			if s == "" {
				continue
			}
			n, err := strconv.ParseUint(s, 10, 64)
			if err != nil {
				return err
			}
			ids = append(ids, n)
		}
		o := manager.UpdateTagOperationMarkAddStream(ids)
		if op == "markdel" {
			o = manager.UpdateTagOperationMarkDelStream(ids)
		}
		if err := w.Mgr.UpdateTag(name, o); err != nil {
			res = "error: " + err.Error()
		}
	case "converters":
		name, cl, _ := strings.Cut(arg, "=")
		var cs []string
		for _, s := range strings.Split(cl, ",") {
			if s != "" {
				cs = append(cs, s)
			}
		}
		if err := w.Mgr.UpdateTag(name, manager.UpdateTagOperationSetConverter(cs)); err != nil {
			res = "error: " + err.Error()
		}
	case "fault":
		// environment faults: the directory merges write to is unavailable for a while (merges fail,
		// imports - which use the builder's own path - do not)
		switch arg {
		case "mergedir-gone":
			w.Mgr.VerifSetIndexDir(filepath.Join(w.Dir, "no-such-directory"))
		case "mergedir-back":
			w.Mgr.VerifSetIndexDir(w.IndexDir)
		case "statedir-gone":
			// the state directory cannot be written to for a while: it is moved aside and a plain file takes its name
			if err := os.Rename(w.StateDir, w.StateDir+".away"); err != nil {
				return err
			}
			if err := os.WriteFile(w.StateDir, nil, 0o644); err != nil {
				return err
			}
		case "statedir-back":
			if err := os.Remove(w.StateDir); err != nil {
				return err
			}
			if err := os.Rename(w.StateDir+".away", w.StateDir); err != nil {
				return err
			}
		case "snapdir-gone":
			// the directory of the importer's reassembly snapshots cannot be written to for a while
			if err := os.Rename(w.SnapDir, w.SnapDir+".away"); err != nil {
				return err
			}
			if err := os.WriteFile(w.SnapDir, nil, 0o644); err != nil {
				return err
			}
			w.SnapGone = true
		case "snapdir-back":
			if err := os.Remove(w.SnapDir); err != nil {
				return err
			}
			if err := os.Rename(w.SnapDir+".away", w.SnapDir); err != nil {
				return err
			}
			w.SnapGone = false
		default:
			return fmt.Errorf("unknown fault %q", arg)
		}
	case "convdel":
		// the converter executable disappears from the converter directory (delivered as the watcher delivers it)
		w.Mgr.VerifConverterRemoved(filepath.Join(w.ConvDir, arg))
	case "convreplace":
		// another executable appears under the name of a converter that was removed before: its output differs
		// (generation number), the watcher delivers Create
		if w.ConvGen == nil {
			w.ConvGen = map[string]int{}
		}
		w.ConvGen[arg]++
		if err := os.WriteFile(filepath.Join(w.Dir, arg+".gen"), []byte(fmt.Sprint(w.ConvGen[arg])), 0o644); err != nil {
			return err
		}
		w.Mgr.VerifConverterCreated(filepath.Join(w.ConvDir, arg))
	case "convrestart":
		// the converter executable is rewritten: the watcher restarts its processes
		w.Mgr.VerifConverterWritten(filepath.Join(w.ConvDir, arg))
	case "config":
		if err := w.Mgr.SetConfig(manager.Config{AutoInsertLimitToQuery: arg == "on"}); err != nil {
			res = "error: " + err.Error()
		}
	case "webhook":
		if err := w.Mgr.AddPcapProcessorWebhook(arg); err != nil {
			res = "error: " + err.Error()
		}
	case "webhook.del":
		if err := w.Mgr.DelPcapProcessorWebhook(arg); err != nil {
			res = "error: " + err.Error()
		}
	case "endpoint":
		if err := w.Mgr.AddPcapOverIPEndpoint(arg); err != nil {
			res = "error: " + err.Error()
		}
	case "endpoint.del":
		if err := w.Mgr.DelPcapOverIPEndpoint(arg); err != nil {
			res = "error: " + err.Error()
		}
	case "view.open":
		var pend []string
		for _, t := range w.Mgr.VerifDump().Tags {
			pend = append(pend, fmt.Sprintf("%s:%v", t.Name, t.Uncertain))
		}
		v := w.Mgr.GetView()
		hv := &HeldView{Name: arg, View: &v, OpenedAt: len(w.Events), PendingAtOpen: strings.Join(pend, " ")}
		d, err := ViewDigest(hv.View, false)
		if err != nil {
			res = "error: " + err.Error()
		}
		hv.Recorded = d
		if t, err := ViewTags(hv.View); err == nil {
			hv.RecordedTags = t
		} else {
			hv.RecordedTags = "error: " + err.Error()
		}
		w.Views = append(w.Views, hv)
	case "view.data":
		// a client opens one stream of a held view with a converter: output that is not cached is produced
		// on demand, from the version of the stream the view shows, and stored
		vn, rest, _ := strings.Cut(arg, "=")
		idText, conv, _ := strings.Cut(rest, "/")
		id, _ := strconv.ParseUint(idText, 10, 64)
		for _, hv := range w.Views {
			if hv.Name == vn && !hv.Released {
				sc, err := hv.View.Stream(id)
				if err != nil {
					res = "error: " + err.Error()
				} else if sc.Stream() == nil {
					res = "no such stream"
				} else if d, err := sc.Data(conv); err != nil {
					res = "error: " + err.Error()
				} else {
					res = fmt.Sprintf("%d chunks", len(d))
				}
			}
		}
		w.Mgr.Status()
	case "view.release":
		for _, hv := range w.Views {
			if hv.Name == arg && !hv.Released {
				hv.View.Release()
				hv.Released = true
			}
		}
		// Release posts without waiting: a Status round trip makes sure it was executed
		w.Mgr.Status()
	case "listen.stall":
		// a client opens the event stream and never reads it
		_, closer := w.Mgr.Listen()
		if w.Listeners == nil {
			w.Listeners = map[string]func(){}
		}
		w.Listeners[arg] = closer
	case "listen.close":
		if closer := w.Listeners[arg]; closer != nil {
			delete(w.Listeners, arg)
			done := make(chan struct{})
			go func() { closer(); close(done) }()
			select {
			case <-done:
			case <-time.After(30 * time.Second):
				w.Wedged = true
				return fmt.Errorf("%w: the listener's closer did not return within 30 s (the service loop does not take new work)", ErrJobStuck)
			}
		}
	case "storm":
		// many events in a row: a tag is added and deleted again n times (two events each, delivered at once -
		// updates of an existing tag are collected and signalled once a second)
		name, ns, _ := strings.Cut(arg, "=")
		n, _ := strconv.Atoi(ns)
		done := make(chan error, 1)
		go func() {
			for i := 0; i < n; i++ {
				if err := w.Mgr.AddTag(name, "#123456", "cport:9"); err != nil {
					done <- err
					return
				}
				if err := w.Mgr.DelTag(name); err != nil {
					done <- err
					return
				}
			}
			done <- nil
		}()
		select {
		case err := <-done:
			if err != nil {
				res = "error: " + err.Error()
			}
		case <-time.After(30 * time.Second):
			w.Wedged = true
			return fmt.Errorf("%w: %d add/delete cycles in a row did not return within 30 s (the service loop does not take new work)", ErrJobStuck, n)
		}
	case "restart":
		if err := w.Restart(); err != nil {
			return err
		}
	default:
		return fmt.Errorf("unknown api call %q", call)
	}
	w.Events = append(w.Events, "api:"+call+" -> "+res)
	return w.Settle()
}

// Restart closes the manager cleanly and starts a new one on the same directories.  Views are
// released first (a view cannot outlive its manager).
func (w *World) Restart() error {
	w.Restarted = true
	for _, hv := range w.Views {
		if !hv.Released {
			hv.View.Release()
			hv.Released = true
		}
	}
	w.stop()
	return w.start()
}

// Enabled lists the events possible now: the next API call of the program (if any) and one step per
// parked job, oldest job first.
func (w *World) Enabled(program []string, pc int) []string {
	var out []string
	w.mu.Lock()
	var js []*Job
	for _, j := range w.parked {
		js = append(js, j)
	}
	w.mu.Unlock()
	sort.Slice(js, func(i, k int) bool { return jobLess(js[i], js[k]) })
	for _, j := range js {
		out = append(out, "step:"+j.Kind)
	}
	if pc < len(program) {
		out = append(out, "api:"+program[pc])
	}
	return out
}

// PickSep separates an event from the tag its tagging job has to be started for.  When several tags
// wait for evaluation the service takes the first one its map iteration yields; the explorer owns
// that choice by naming the tag in the event: while the event is applied the hook verifhook.Skip
// passes over every other eligible tag (the iteration order of a Go map is unspecified, so every
// order is a behaviour of the real code).
const PickSep = "\tpick="

// ErrPick: the service started the tagging job for another tag than the event names.
var ErrPick = errors.New("tag pick differs")

// Apply performs an event ("api:<call>" or "step:<kind>", optionally followed by PickSep and a tag
// name).  Afterwards LastPick/LastCands tell whether a tagging job started and which tags it could
// have been started for.
func (w *World) Apply(ev string) error {
	base, want, _ := strings.Cut(ev, PickSep)
	w.mu.Lock()
	before := w.tagBegins
	w.mu.Unlock()
	w.LastPick, w.LastCands = "", nil
	w.mu.Lock()
	w.wantPick = want
	w.epoch++
	convBefore := w.convBegins
	w.mu.Unlock()
	err := w.apply(base)
	w.mu.Lock()
	w.wantPick = ""
	began, name := w.tagBegins > before, w.lastTagBegin
	w.mu.Unlock()
	if err != nil {
		return err
	}
	w.mu.Lock()
	convBegan, convArgs := w.convBegins > convBefore, w.lastConvArgs
	w.mu.Unlock()
	if convBegan && len(convArgs) >= 2 {
		// "detaching stops further runs": the job that has just been started must only serve converters
		// that some tag has attached now (a job already in flight when the tag was detached is another matter)
		cvs, _ := convArgs[0].([]*converters.CachedConverter)
		sets, _ := convArgs[1].([]*bitmask.LongBitmask)
		attached := map[string]bool{}
		for _, t := range w.Mgr.VerifDump().Tags {
			for _, c := range t.Converters {
				attached[c] = true
			}
		}
		for i, cv := range cvs {
			if i < len(sets) && sets[i] != nil && !sets[i].IsZero() && !attached[cv.Name()] {
				w.DetachedRuns = append(w.DetachedRuns, fmt.Sprintf("event %s started a conversion job for converter %s (streams %s) although no tag has that converter attached", base, cv.Name(), mc.Dump(sets[i])))
			}
		}
	}
	if began {
		w.LastPick = name
		st := w.Mgr.VerifDump()
		unc := map[string]bool{}
		for _, t := range st.Tags {
			unc[t.Name] = len(t.Uncertain) != 0
		}
		for _, t := range st.Tags {
			if !unc[t.Name] {
				continue
			}
			ok := true
			for _, r := range t.ReferencedTags {
				if unc[r] {
					ok = false
				}
			}
			if ok {
				w.LastCands = append(w.LastCands, t.Name)
			}
		}
		sort.Strings(w.LastCands)
	}
	if want != "" && w.LastPick != want {
		return fmt.Errorf("%w: event %q, the service picked %q (eligible %v)", ErrPick, ev, w.LastPick, w.LastCands)
	}
	return nil
}

func (w *World) apply(ev string) error {
	if call, ok := strings.CutPrefix(ev, "api:"); ok {
		return w.ApplyAPI(call)
	}
	kind := strings.TrimPrefix(ev, "step:")
	j := w.Parked(kind)
	if j == nil {
		return fmt.Errorf("event %s: no such parked job (parked: %v)", ev, w.ParkedNames())
	}
	w.Events = append(w.Events, "step:"+j.Name())
	return w.Step(kind)
}
