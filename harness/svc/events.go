package svc

import (
	"fmt"
	"sort"
	"strconv"
	"strings"

	"github.com/spq/pkappa2/internal/index/manager"
)

// ApplyAPI performs one API call of a scenario program.  The result (error text or "ok") is part of
// the world's event log.
func (w *World) ApplyAPI(call string) error {
	op, arg, _ := strings.Cut(call, ":")
	res := "ok"
	switch op {
	case "import":
		files := strings.Split(arg, "+")
		for i, f := range files {
			files[i] = f + ".pcap"
			if err := w.Stage(files[i]); err != nil {
				return err
			}
		}
		w.Mgr.ImportPcaps(files)
	case "addtag":
		name, def, _ := strings.Cut(arg, "=")
		next := w.Mgr.VerifDump().NextStreamID
		if err := w.Mgr.AddTag(name, "#fff", def); err != nil {
			res = "error: " + err.Error()
		} else if idl, ok := strings.CutPrefix(def, "id:"); ok && strings.HasPrefix(name, "mark/") {
			for _, f := range strings.Split(idl, ",") {
				if n, err := strconv.ParseUint(f, 10, 64); err == nil && n >= next {
					if w.FutureMarks == nil {
						w.FutureMarks = map[string]map[uint64]bool{}
					}
					if w.FutureMarks[name] == nil {
						w.FutureMarks[name] = map[uint64]bool{}
					}
					w.FutureMarks[name][n] = true
				}
			}
		}
	case "updtag":
		name, def, _ := strings.Cut(arg, "=")
		if err := w.Mgr.UpdateTag(name, manager.UpdateTagOperationUpdateQuery(def)); err != nil {
			res = "error: " + err.Error()
		}
	case "color":
		name, col, _ := strings.Cut(arg, "=")
		if err := w.Mgr.UpdateTag(name, manager.UpdateTagOperationUpdateColor(col)); err != nil {
			res = "error: " + err.Error()
		}
	case "rename":
		name, nn, _ := strings.Cut(arg, "=")
		if err := w.Mgr.UpdateTag(name, manager.UpdateTagOperationUpdateName(nn)); err != nil {
			res = "error: " + err.Error()
		}
	case "deltag":
		if err := w.Mgr.DelTag(arg); err != nil {
			res = "error: " + err.Error()
		}
	case "markadd", "markdel":
		name, idl, _ := strings.Cut(arg, "=")
		var ids []uint64
		for _, s := range strings.Split(idl, ",") {
			if s == "" {
				continue
			}
			n, err := strconv.ParseUint(s, 10, 64)
			if err != nil {
				return err
			}
			ids = append(ids, n)
		}
		o := manager.UpdateTagOperationMarkAddStream(ids)
		if op == "markdel" {
			o = manager.UpdateTagOperationMarkDelStream(ids)
		}
		if err := w.Mgr.UpdateTag(name, o); err != nil {
			res = "error: " + err.Error()
		}
	case "converters":
		name, cl, _ := strings.Cut(arg, "=")
		var cs []string
		for _, s := range strings.Split(cl, ",") {
			if s != "" {
				cs = append(cs, s)
			}
		}
		if err := w.Mgr.UpdateTag(name, manager.UpdateTagOperationSetConverter(cs)); err != nil {
			res = "error: " + err.Error()
		}
	case "config":
		if err := w.Mgr.SetConfig(manager.Config{AutoInsertLimitToQuery: arg == "on"}); err != nil {
			res = "error: " + err.Error()
		}
	case "webhook":
		if err := w.Mgr.AddPcapProcessorWebhook(arg); err != nil {
			res = "error: " + err.Error()
		}
	case "endpoint":
		if err := w.Mgr.AddPcapOverIPEndpoint(arg); err != nil {
			res = "error: " + err.Error()
		}
	case "endpoint.del":
		if err := w.Mgr.DelPcapOverIPEndpoint(arg); err != nil {
			res = "error: " + err.Error()
		}
	case "view.open":
		v := w.Mgr.GetView()
		hv := &HeldView{Name: arg, View: &v, OpenedAt: len(w.Events)}
		d, err := ViewDigest(hv.View, false)
		if err != nil {
			res = "error: " + err.Error()
		}
		hv.Recorded = d
		w.Views = append(w.Views, hv)
	case "view.release":
		for _, hv := range w.Views {
			if hv.Name == arg && !hv.Released {
				hv.View.Release()
				hv.Released = true
			}
		}
		// Release posts without waiting: a Status round trip makes sure it was executed
		w.Mgr.Status()
	case "restart":
		if err := w.Restart(); err != nil {
			return err
		}
	default:
		return fmt.Errorf("unknown api call %q", call)
	}
	w.Events = append(w.Events, "api:"+call+" -> "+res)
	return w.Settle()
}

// Restart closes the manager cleanly and starts a new one on the same directories.  Views are
// released first (a view cannot outlive its manager).
func (w *World) Restart() error {
	for _, hv := range w.Views {
		if !hv.Released {
			hv.View.Release()
			hv.Released = true
		}
	}
	w.stop()
	return w.start()
}

// Enabled lists the events possible now: the next API call of the program (if any) and one step per
// parked job, oldest job first.
func (w *World) Enabled(program []string, pc int) []string {
	var out []string
	w.mu.Lock()
	var js []*Job
	for _, j := range w.parked {
		js = append(js, j)
	}
	w.mu.Unlock()
	sort.Slice(js, func(i, k int) bool { return js[i].Seq < js[k].Seq })
	for _, j := range js {
		out = append(out, "step:"+j.Kind)
	}
	if pc < len(program) {
		out = append(out, "api:"+program[pc])
	}
	return out
}

// Apply performs an event ("api:<call>" or "step:<kind>").
func (w *World) Apply(ev string) error {
	if call, ok := strings.CutPrefix(ev, "api:"); ok {
		return w.ApplyAPI(call)
	}
	kind := strings.TrimPrefix(ev, "step:")
	j := w.Parked(kind)
	if j == nil {
		return fmt.Errorf("event %s: no such parked job (parked: %v)", ev, w.ParkedNames())
	}
	w.Events = append(w.Events, "step:"+j.Name())
	return w.Step(kind)
}
