// Package svc turns the real manager.Manager into a deterministic transition system: background
// jobs park at the scheduling points (build tag verif) and the harness decides which one makes the
// next step, so every explored history is a legal execution of the real service.
package svc

import (
	"context"
	"errors"
	"fmt"
	"github.com/spq/pkappa2/verifx/ref"
	"net"
	"os"
	"path/filepath"
	"sort"
	"strconv"
	"strings"
	"sync"
	"sync/atomic"
	"time"

	"github.com/spq/pkappa2/internal/index"
	"github.com/spq/pkappa2/internal/index/manager"
	"github.com/spq/pkappa2/internal/query"
	"github.com/spq/pkappa2/internal/tools/bitmask"
	"github.com/spq/pkappa2/internal/verifhook"
	"github.com/spq/pkappa2/verifx/mc"
)

type Job struct {
	Kind  string // import | merge | tag | convert
	Seq   int    // creation order (two jobs started by one closure race for it: never used for ordering)
	Epoch int    // number of harness steps before the one during which the job began
	Gate  string // begin | done
	Args  []any
	// BeginArgs are the arguments of the begin gate (the index snapshot the job holds until its
	// completion has been applied)
	BeginArgs []any
	// InputDigest renders what the job was handed by value or by shared slice when it started
	// (bitmasks of the tag and of the tags it refers to, the stream sets to convert)
	InputDigest string
	release     chan struct{}
	// completing: released from its done gate, its completion closure has not finished yet
	completing bool
}

// jobLess orders jobs oldest first; jobs started during the same harness step (one closure of the
// service loop can start an import, a tagging, a conversion and a merge job) are ordered by kind.
func jobLess(a, b *Job) bool {
	if a.Epoch != b.Epoch {
		return a.Epoch < b.Epoch
	}
	return a.Kind < b.Kind
}

func (j *Job) Name() string { return fmt.Sprintf("%s#%d.%s", j.Kind, j.Seq, j.Gate) }

type HeldView struct {
	Name     string
	View     *manager.View
	Recorded string // digest of the answers given when it was opened
	// RecordedTags: the tags the view showed for every stream when it was opened (all tags prefetched)
	RecordedTags string
	// PendingAtOpen: per tag the streams that were pending in the service when the view took its snapshot.
	// What was decided then is shared (same memory) between the view, the service and other views; what
	// was pending the view evaluates into memory of its own.  Values alone do not show the difference.
	PendingAtOpen string
	OpenedAt      int // number of events before it
	Released      bool
}

type World struct {
	Dir                                           string
	PcapDir, IndexDir, SnapDir, StateDir, ConvDir string
	// SnapGone: the fault snapdir-gone lasts; SnapMissed: imports whose body ran meanwhile
	SnapGone   bool
	SnapMissed []string
	// Restarted: Close + New in this process.  A job of the closed manager that was in flight goes on and can write
	// its files after the new manager has looked at the directories (a real restart ends the process)
	Restarted bool
	// DoubleJobs: the service started a job of a kind while another job of that kind was in flight
	DoubleJobs []string
	// ConvGen: how often the executable of a converter was replaced by another one (part of what it outputs)
	ConvGen map[string]int
	// Listeners: closers of event streams the client program opened and does not read
	Listeners map[string]func()
	// Wedged: an API call did not return; nothing that waits for the service loop is done with this instance any more
	Wedged          bool
	Staging         string
	Mgr             *manager.Manager
	mu              sync.Mutex
	cond            *sync.Cond
	parked          map[string]*Job // by kind
	jobSeq          int
	appliedCount    map[string]int
	Applied         []string // log of applied notifications (kind + args digest)
	Views           []*HeldView
	Events          []string
	ImportedApplied [][]string // file lists of applied imports, in order
	closed          bool
	Errors          []string // harness-level problems
	ConverterBin    string
	// InputChanges: a job parked at its begin point found, when released, that what it had been handed
	// differs from what it was handed - some other goroutine wrote to memory the job reads
	InputChanges []string
	// FutureMarks: mark tag -> ids that were marked (AddTag) before a stream with that id existed
	FutureMarks map[string]map[uint64]bool
	free        atomic.Pointer[freeMode]
	// tag jobs begun so far and the tag the last one was started for (which of several waiting tags the
	// service evaluates next is decided by Go's map iteration: an environment choice, see Apply)
	tagBegins    int
	lastTagBegin string
	// LastPick / LastCands: the tag picked by a tagging job that started during the last Apply and the
	// tags that were eligible at that moment (sorted); empty when no tagging job started
	LastPick  string
	LastCands []string
	// wantPick: while an event that names its pick is applied, every other eligible tag is passed over
	wantPick string
	epoch    int
	adopted  sync.Map // managers whose points were adopted while this world was starting
	// conversion jobs begun so far and the arguments of the last one
	convBegins   int
	lastConvArgs []any
	// DetachedRuns: a conversion job was started for a converter that no tag had attached at that moment
	DetachedRuns []string
}

// freeMode: the gates are switched off.  A point does nothing that synchronises goroutines with
// each other (no lock, no notification), except that the points named in hold block on one channel
// until the harness closes it.  Used by the free-running race pass (C20): the hand-offs of the
// cooperative gates are happens-before edges and would hide unsynchronised accesses.
type freeMode struct {
	hold map[string]chan struct{}
	ch   chan struct{}
	once sync.Once
}

// FreeRun switches the gates off, releases every parked job and returns the function that releases
// the jobs silently held at the points named in holdAt (e.g. "tag.done").  The world cannot be
// stepped afterwards; Destroy still works.
func (w *World) FreeRun(holdAt ...string) (release func()) {
	fm := &freeMode{hold: map[string]chan struct{}{}, ch: make(chan struct{})}
	for _, n := range holdAt {
		fm.hold[n] = fm.ch
	}
	w.free.Store(fm)
	w.mu.Lock()
	for _, j := range w.parked {
		select {
		case <-j.release:
		default:
			close(j.release)
		}
	}
	w.parked = map[string]*Job{}
	w.mu.Unlock()
	return func() { fm.once.Do(func() { close(fm.ch) }) }
}

// WaitIdle polls the status until no job is reported running except those of the given kinds
// (which may be held), twice in a row.
func (w *World) WaitIdle(d time.Duration, except ...string) bool {
	ex := map[string]bool{}
	for _, k := range except {
		ex[k] = true
	}
	deadline := time.Now().Add(d)
	idle := 0
	for time.Now().Before(deadline) {
		st := w.Mgr.Status()
		busy := (st.ImportJobCount > 0 && !ex["import"]) || (st.MergeJobRunning && !ex["merge"]) || (st.TaggingJobRunning && !ex["tag"]) || (st.ConverterJobRunning && !ex["convert"])
		if !busy {
			idle++
			if idle >= 3 {
				return true
			}
		} else {
			idle = 0
		}
		time.Sleep(2 * time.Millisecond)
	}
	return false
}

// ErrJobStuck: a released job neither parked at its next gate nor delivered its completion.
var ErrJobStuck = errors.New("job stuck")

// ErrPhantomWork: for the whole settle period the service reported a kind of background work as queued or running
// although no job of that kind exists (none parked, none released and on its way): a queue that nothing will ever
// take from, a running flag that nothing will ever clear.
var ErrPhantomWork = errors.New("work without a job")

var worlds sync.Map // *manager.Manager -> *World

// UseWatchDir makes every world started afterwards watch <dir>/watch for dropped captures (the
// service's watch directory).  Only the free-running race pass switches it on: the watcher's timers
// are real time and not owned by the explorer.
var UseWatchDir bool

// A manager starts background jobs from inside manager.New, before the harness knows its address.
// Starts are serialised; while one is in progress a Point of an unknown manager that was not
// retired before can only come from the manager being created and is adopted by the starting world.
var (
	startMu  sync.Mutex
	adopting atomic.Pointer[World]
	retired  sync.Map // *manager.Manager -> true
)

func init() {
	verifhook.SetHandler(func(owner any, name string, args ...any) {
		w, ok := worlds.Load(owner)
		if !ok {
			if _, gone := retired.Load(owner); gone {
				return // a manager that is no longer under harness control runs free
			}
			a := adopting.Load()
			if a == nil {
				// nobody is starting (any more): the manager's own world may have registered it since the lookup above
				w2, ok2 := worlds.Load(owner)
				if !ok2 {
					return
				}
				w = w2
				goto known
			}
			// the world that is starting may not be the one this manager belongs to: between the failed
			// lookup above and the read of the starting world, the manager's own world can have finished
			// its start (and registered the manager) and the next world begun to start
			actual, loaded := worlds.LoadOrStore(owner, a)
			if !loaded {
				a.adopted.Store(owner, name)
			}
			w = actual
		}
	known:
		if fm := w.(*World).free.Load(); fm != nil {
			if ch := fm.hold[name]; ch != nil {
				<-ch
			}
			return
		}
		w.(*World).point(name, append(args, ownerTag{owner}))
	})
}

// ownerTag carries the manager a point came from through the argument list (diagnostics only).
type ownerTag struct{ owner any }

func init() {
	verifhook.SetSkipHandler(func(owner any, name string, args ...any) bool {
		if name != "tag.pick" || len(args) == 0 {
			return false
		}
		x, ok := worlds.Load(owner)
		if !ok {
			if _, gone := retired.Load(owner); gone {
				return false
			}
			a := adopting.Load()
			if a == nil {
				return false
			}
			x = a
		}
		w := x.(*World)
		if w.free.Load() != nil {
			return false
		}
		tn, _ := args[0].(string)
		w.mu.Lock()
		defer w.mu.Unlock()
		return !w.closed && w.wantPick != "" && tn != w.wantPick
	})
}

func (w *World) point(name string, args []any) {
	var owner any
	if n := len(args); n != 0 {
		if ot, ok := args[n-1].(ownerTag); ok {
			owner, args = ot.owner, args[:n-1]
		}
	}
	kind, gate, _ := strings.Cut(name, ".")
	w.mu.Lock()
	if w.closed {
		// the jobs of a service that is being stopped run free; what they import is still reported
		if gate == "applied" && kind == "import" {
			if files, ok := args[0].([]string); ok {
				w.ImportedApplied = append(w.ImportedApplied, append([]string(nil), files...))
			}
		}
		w.mu.Unlock()
		return
	}
	switch gate {
	case "begin":
		j := &Job{Kind: kind, Seq: w.jobSeq, Epoch: w.epoch, Gate: "begin", Args: args, BeginArgs: args, release: make(chan struct{}), InputDigest: inputDigest(args)}
		w.jobSeq++
		if kind == "convert" {
			w.convBegins++
			w.lastConvArgs = args
		}
		if kind == "tag" && len(args) != 0 {
			if n, ok := args[0].(string); ok {
				w.tagBegins++
				w.lastTagBegin = n
			}
		}
		if old := w.parked[kind]; old != nil && !old.completing && owner == w.Mgr && !w.closed {
			// the service itself started a second job of a kind while the first one has not delivered its result: its
			// bookkeeping (one flag / one queue head per kind) is made for one job at a time
			w.DoubleJobs = append(w.DoubleJobs, fmt.Sprintf("the service started a second %s job while %s has not completed", kind, old.Name()))
		} else if old != nil && !old.completing {
			w.Errors = append(w.Errors, fmt.Sprintf("second %s job began while %s is parked (point from manager %p, this world's manager %p, closed=%v)", kind, old.Name(), owner, w.Mgr, w.closed))
		}
		w.parked[kind] = j
		w.cond.Broadcast()
		w.mu.Unlock()
		<-j.release
		// the job has not executed anything since it parked: what it was handed must be what it sees
		if now := inputDigest(args); now != j.InputDigest {
			w.mu.Lock()
			w.InputChanges = append(w.InputChanges, fmt.Sprintf("%s job #%d: inputs when it started:\n%s\ninputs when it was released from its begin point:\n%s", kind, j.Seq, j.InputDigest, now))
			w.mu.Unlock()
		}
	case "done":
		j := w.parked[kind]
		if j == nil {
			// job began before the world took control
			j = &Job{Kind: kind, Seq: w.jobSeq, Epoch: w.epoch}
			w.jobSeq++
			w.parked[kind] = j
		}
		j.Gate = "done"
		j.Args = args
		if kind == "import" && w.SnapGone {
			// this import could not save its reassembly snapshots: what the snapshot directory holds is older than what
			// the importer has in memory (part of the state: a restart, and the importer's bookkeeping of its files,
			// depend on it)
			what := "?"
			if len(args) != 0 {
				what = fmt.Sprint(args[0])
			}
			w.SnapMissed = append(w.SnapMissed, what)
		}
		j.release = make(chan struct{})
		w.cond.Broadcast()
		w.mu.Unlock()
		<-j.release
	case "applied":
		// runs inside the service loop: must not block.  The closure may already have started the
		// next job of this kind, which then owns the slot.
		if cur := w.parked[kind]; cur != nil && cur.completing {
			delete(w.parked, kind)
		}
		w.appliedCount[kind]++
		if kind == "import" {
			if files, ok := args[0].([]string); ok {
				w.ImportedApplied = append(w.ImportedApplied, append([]string(nil), files...))
			}
		}
		w.cond.Broadcast()
		w.mu.Unlock()
	default:
		w.mu.Unlock()
	}
}

// inputDigest renders the job arguments that are shared memory the job goes on to read without
// synchronisation: bitmasks (tag matches / uncertain sets, stream sets).
func inputDigest(args []any) string {
	var sb strings.Builder
	for _, a := range args {
		switch x := a.(type) {
		case *query.TagDetails:
			fmt.Fprintf(&sb, "tag matches=%s uncertain=%s\n", mc.Dump(x.Matches), mc.Dump(x.Uncertain))
		case map[string]query.TagDetails:
			var names []string
			for n := range x {
				names = append(names, n)
			}
			sort.Strings(names)
			for _, n := range names {
				fmt.Fprintf(&sb, "referenced %s matches=%s uncertain=%s\n", n, mc.Dump(x[n].Matches), mc.Dump(x[n].Uncertain))
			}
		case []*bitmask.LongBitmask:
			for i, b := range x {
				fmt.Fprintf(&sb, "streams[%d]=%s\n", i, mc.Dump(b))
			}
		}
	}
	return sb.String()
}

// NewWorld creates the data directories, the scenario captures (in a staging dir, not yet visible to
// the service) and starts a manager under harness control.
func NewWorld(converterBin string) (*World, error) { return NewWorldPrebuilt(converterBin, nil) }

// NewWorldPrebuilt is NewWorld on a data directory that already holds index files with the given numbers
// of streams (oldest first), as a service finds them at start-up after earlier runs.
func NewWorldPrebuilt(converterBin string, prebuilt []int) (*World, error) {
	base := ""
	if st, err := os.Stat("/dev/shm"); err == nil && st.IsDir() && os.Getenv("TMPDIR") == "" {
		base = "/dev/shm"
	}
	dir, err := os.MkdirTemp(base, "verif-svc-")
	if err != nil {
		return nil, err
	}
	if len(prebuilt) != 0 {
		if err := writePrebuilt(filepath.Join(dir, "index"), prebuilt); err != nil {
			return nil, err
		}
	}
	return NewWorldIn(dir, converterBin, true)
}

// writePrebuilt writes one index file per entry of counts, with that many single-datagram streams of
// distinct flows and consecutive ids; file names sort in list order and before any name the service makes.
func writePrebuilt(dir string, counts []int) error {
	if err := os.MkdirAll(dir, 0o755); err != nil {
		return err
	}
	ref.InternFiles("pre.pcap")
	id := uint64(0)
	for fi, n := range counts {
		wr, err := index.NewWriter(filepath.Join(dir, fmt.Sprintf("2000-01-01_%06d.000.idx", fi)))
		if err != nil {
			return err
		}
		for k := 0; k < n; k++ {
			sp := &ref.StreamSpec{Name: fmt.Sprintf("pre%d", id), ID: id, Client: net.IP{10, 9, byte(fi), byte(k + 1)}, Server: net.IP{10, 9, 0, 250}, CPort: uint16(30000 + id), SPort: 7, UDP: true,
				Start: Base.Add(-time.Hour + time.Duration(id)*time.Second), Pkts: []ref.PktSpec{{Dir: ref.DirC2S, OffsetUs: 0, File: "pre.pcap", Index: id, Data: []byte(fmt.Sprintf("pre%d", id))}}}
			if ok, err := wr.AddStream(sp.ToStream(), id); err != nil || !ok {
				return fmt.Errorf("prebuilt index: AddStream: %v %v", ok, err)
			}
			id++
		}
		r, err := wr.Finalize()
		if err != nil {
			return err
		}
		r.Close()
	}
	return nil
}

// NewWorldIn starts a service on the given directory.  With populate the sub-directories, the
// scenario captures (staging) and the converter are created first; without it the directory is used
// as it is (recovery from a materialised crash state).
func NewWorldIn(dir, converterBin string, populate bool) (*World, error) {
	w := &World{Dir: dir, parked: map[string]*Job{}, appliedCount: map[string]int{}, ConverterBin: converterBin}
	w.cond = sync.NewCond(&w.mu)
	for _, d := range []*string{&w.PcapDir, &w.IndexDir, &w.SnapDir, &w.StateDir, &w.ConvDir, &w.Staging} {
		*d = filepath.Join(dir, map[*string]string{&w.PcapDir: "pcap", &w.IndexDir: "index", &w.SnapDir: "snap", &w.StateDir: "state", &w.ConvDir: "conv", &w.Staging: "staging"}[d])
		if err := os.MkdirAll(*d, 0o755); err != nil {
			return nil, err
		}
	}
	if populate {
		for name, dgs := range Captures {
			if err := WriteCapture(filepath.Join(w.Staging, name), dgs); err != nil {
				return nil, err
			}
		}
		for name, b := range RawCaptures {
			if err := os.WriteFile(filepath.Join(w.Staging, name), b, 0o644); err != nil {
				return nil, err
			}
		}
		if converterBin != "" {
			// a symlink, not a copy: executing a freshly written binary while another goroutine of
			// this process forks can fail with ETXTBSY, which would make conversions fail at random
			if err := os.Symlink(converterBin, filepath.Join(w.ConvDir, "conv")); err != nil {
				return nil, err
			}
			// a second converter (the same function under another name): streams then have output of one
			// converter while another one still has them queued
			if err := os.Symlink(converterBin, filepath.Join(w.ConvDir, "conv2")); err != nil {
				return nil, err
			}
			// a third one whose process dies the first time it is handed a stream (the job tries once more)
			if err := os.Symlink(converterBin, filepath.Join(w.ConvDir, "convflaky")); err != nil {
				return nil, err
			}
			if err := os.Symlink(converterBin, filepath.Join(w.ConvDir, "convflaky2")); err != nil {
				return nil, err
			}
			// one that answers the first request for every stream with a chunk whose time cannot be read and goes on
			if err := os.Symlink(converterBin, filepath.Join(w.ConvDir, "convoddtime")); err != nil {
				return nil, err
			}
		}
	}
	if err := w.start(); err != nil {
		return nil, err
	}
	return w, nil
}

func (w *World) start() error {
	w.mu.Lock()
	w.closed = false
	w.parked = map[string]*Job{}
	w.mu.Unlock()
	startMu.Lock()
	adopting.Store(w)
	watch := ""
	if UseWatchDir {
		watch = filepath.Join(w.Dir, "watch")
		if err := os.MkdirAll(watch, 0o755); err != nil {
			adopting.Store(nil)
			startMu.Unlock()
			return err
		}
	}
	mgr, err := manager.New(w.PcapDir, w.IndexDir, w.SnapDir, w.StateDir, w.ConvDir, watch)
	// the machine allows a user 128 inotify instances; other checkers running at the same time can use them up for a
	// moment.  That is a shortage of the environment, not an answer of the service: wait for it to pass
	for try := 0; err != nil && strings.Contains(err.Error(), "inotify") && try < 120; try++ {
		time.Sleep(500 * time.Millisecond)
		mgr, err = manager.New(w.PcapDir, w.IndexDir, w.SnapDir, w.StateDir, w.ConvDir, watch)
	}
	if err == nil {
		w.adopted.Range(func(k, v any) bool {
			if k != any(mgr) {
				w.Errors = append(w.Errors, fmt.Sprintf("while this world was starting a point %v of another manager %p was adopted (own manager %p)", v, k, mgr))
			}
			return true
		})
		worlds.Store(mgr, w)
		// the start-up closure of New has been received by the service loop but may still be
		// running: a Status round trip makes sure every job it starts has been adopted
		w.Mgr = mgr
		mgr.Status()
	}
	adopting.Store(nil)
	startMu.Unlock()
	if err != nil {
		return err
	}
	// New() posted its start-up closure before we were registered: jobs it started run free until
	// their next point.  Settle picks them up through the Status flags.
	return w.Settle()
}

// Settle waits until every job the service reports as running is parked at a gate.
func (w *World) Settle() error {
	deadline := time.Now().Add(20 * time.Second)
	for {
		st := w.Mgr.Status()
		want := map[string]bool{"import": st.ImportJobCount > 0, "merge": st.MergeJobRunning, "tag": st.TaggingJobRunning, "convert": st.ConverterJobRunning}
		w.mu.Lock()
		ok := true
		for k, v := range want {
			_, parked := w.parked[k]
			if v != parked {
				ok = false
			}
		}
		w.mu.Unlock()
		if ok {
			// re-check: the status must still be the same (nothing moved in between)
			st2 := w.Mgr.Status()
			if st2 == st {
				return nil
			}
			continue
		}
		if time.Now().After(deadline) {
			var mine, elsewhere []string
			worlds.Range(func(k, v any) bool {
				if v == any(w) {
					mine = append(mine, fmt.Sprintf("%p", k))
				}
				if k == any(w.Mgr) && v != any(w) {
					elsewhere = append(elsewhere, fmt.Sprintf("own manager is registered for another world %s", v.(*World).Dir))
				}
				return true
			})
			// the service claims work of a kind of which no job is parked (no job is between two gates here: Step and
			// the API calls return only after the released job has parked again or its completion was applied), and no
			// job is parked that the service does not report: the flags / queues of the service are what is wrong
			var phantom []string
			spurious := false
			w.mu.Lock()
			for k, v := range want {
				_, parked := w.parked[k]
				if v && !parked {
					phantom = append(phantom, k)
				}
				if !v && parked {
					spurious = true
				}
			}
			w.mu.Unlock()
			sort.Strings(phantom)
			if len(phantom) != 0 && !spurious && len(elsewhere) == 0 {
				return fmt.Errorf("%w: for 20 s the service reports %v as queued / running (status %+v) while no such job exists (parked jobs: %v)", ErrPhantomWork, phantom, st, w.ParkedNames())
			}
			if len(phantom) == 0 && spurious && len(elsewhere) == 0 {
				// the other way round: a job of this world's own manager is in flight and the service reports no work of
				// its kind (its queue / flag was cleared by something else - a second job of the kind, for instance)
				return fmt.Errorf("%w (here: a job WITHOUT the work being claimed): for 20 s jobs %v are in flight while the service reports no work of that kind (status %+v)", ErrPhantomWork, w.ParkedNames(), st)
			}
			return fmt.Errorf("service did not settle: status %+v, parked %v; own manager %p, managers registered for this world %v %v", st, w.ParkedNames(), w.Mgr, mine, elsewhere)
		}
		time.Sleep(200 * time.Microsecond)
	}
}

func (w *World) ParkedNames() []string {
	w.mu.Lock()
	defer w.mu.Unlock()
	var js []*Job
	for _, j := range w.parked {
		js = append(js, j)
	}
	sort.Slice(js, func(i, k int) bool { return jobLess(js[i], js[k]) })
	out := make([]string, len(js))
	for i, j := range js {
		out[i] = j.Kind
	}
	return out
}

func (w *World) Parked(kind string) *Job {
	w.mu.Lock()
	defer w.mu.Unlock()
	return w.parked[kind]
}

// Step releases the parked job of the given kind and waits until it parks again or its completion
// has been applied, then settles.
func (w *World) Step(kind string) error {
	w.mu.Lock()
	w.epoch++
	j := w.parked[kind]
	if j == nil {
		w.mu.Unlock()
		return fmt.Errorf("no parked %s job", kind)
	}
	gate := j.Gate
	applied := w.appliedCount[kind]
	if gate == "done" {
		j.completing = true
	}
	close(j.release)
	deadline := time.Now().Add(60 * time.Second)
	timer := time.AfterFunc(60*time.Second, func() { w.mu.Lock(); w.cond.Broadcast(); w.mu.Unlock() })
	defer timer.Stop()
	for {
		cur := w.parked[kind]
		if gate == "begin" && cur == j && j.Gate == "done" {
			break
		}
		if gate == "done" && w.appliedCount[kind] > applied {
			break
		}
		if time.Now().After(deadline) {
			w.mu.Unlock()
			return fmt.Errorf("%w: job %s#%d did not reach its next point within 60 s after %s", ErrJobStuck, kind, j.Seq, gate)
		}
		w.cond.Wait()
	}
	w.mu.Unlock()
	return w.Settle()
}

// Destroy stops the manager and removes the directory.  Parked jobs are released; their goroutines
// finish against a manager that is no longer registered.
func (w *World) Destroy() {
	w.stop()
	os.RemoveAll(w.Dir)
}

// Destroy0 stops the manager but leaves the directory to the caller.
func (w *World) Destroy0() { w.stop() }

func (w *World) stop() {
	if fm := w.free.Load(); fm != nil {
		fm.once.Do(func() { close(fm.ch) })
	}
	w.mu.Lock()
	w.closed = true
	for _, j := range w.parked {
		select {
		case <-j.release:
		default:
			close(j.release)
		}
	}
	w.parked = map[string]*Job{}
	w.mu.Unlock()
	mgr := w.Mgr
	if w.Wedged {
		// the service loop of this instance does not answer: the instance is left behind
		retired.Store(mgr, true)
		worlds.Delete(mgr)
		return
	}
	// clients that still hold an event stream go away now; the service forgets a listener only after the deliveries
	// that were waiting for it have given up, and its Close must not run before that
	for name, closer := range w.Listeners {
		delete(w.Listeners, name)
		closer()
	}
	for i := 0; i < 5000 && mgr.VerifListenerCount() != 0; i++ {
		time.Sleep(time.Millisecond)
	}
	for _, v := range w.Views {
		if !v.Released {
			v.View.Release()
			v.Released = true
		}
	}
	// let free-running jobs of this instance drain, then close
	idle := false
	for i := 0; i < 2000; i++ {
		st := mgr.Status()
		if st.ImportJobCount == 0 && !st.MergeJobRunning && !st.TaggingJobRunning && !st.ConverterJobRunning {
			idle = true
			break
		}
		time.Sleep(time.Millisecond)
	}
	// retired first: a point of this manager arriving between the two stores would otherwise look like
	// a manager being created and be adopted by a world that is starting in another worker.  Until
	// here the points of the draining jobs still reach the (closed) world, which records the imports
	// they report.
	retired.Store(mgr, true)
	worlds.Delete(mgr)
	// the service leaves its converter processes to the exit of its own process; this process goes on
	mgr.VerifStopConverterProcesses()
	mgr.Close()
	if idle {
		// only when nothing runs any more: a job of this instance that is still reading an index would
		// panic inside the repository's reader (it treats a read error as fatal) and take the whole
		// checker down.  An instance whose jobs never end keeps its descriptors.
		mgr.VerifCloseIndexes()
	}
}

// Stage makes a scenario capture visible to the service (like an upload does) and returns its name.
func (w *World) Stage(name string) error {
	b, err := os.ReadFile(filepath.Join(w.Staging, name))
	if err != nil {
		return err
	}
	return os.WriteFile(filepath.Join(w.PcapDir, name), b, 0o644)
}

// ---- observation helpers ----

type StreamObs struct {
	ID     uint64
	Digest string // endpoints, protocol, times, payload
	Source string // first packet source, identifies the conversation independent of the id
}

func ObserveStream(s *index.Stream) (StreamObs, error) {
	data, err := s.Data()
	if err != nil {
		return StreamObs{}, err
	}
	pk, err := s.Packets()
	if err != nil {
		return StreamObs{}, err
	}
	var sb strings.Builder
	fmt.Fprintf(&sb, "%s:%d>%s:%d %s %d/%d ", s.ClientHostIP(), s.ClientPort, s.ServerHostIP(), s.ServerPort, s.Protocol(), s.ClientBytes, s.ServerBytes)
	dir := -1
	for _, d := range data {
		if len(d.Content) == 0 {
			continue
		}
		if int(d.Direction) != dir {
			dir = int(d.Direction)
			fmt.Fprintf(&sb, "|%c", "CS"[dir])
		}
		sb.Write(d.Content)
	}
	fmt.Fprintf(&sb, " pkts=%d", len(pk))
	src := ""
	if len(pk) != 0 {
		src = fmt.Sprintf("%s#%d", pk[0].PcapFilename, pk[0].PcapIndex)
	}
	return StreamObs{ID: s.ID(), Digest: sb.String(), Source: src}, nil
}

// VisibleThrough lists the visible streams (newest reader wins) of a reader stack.
func VisibleThrough(readers []*index.Reader) (map[uint64]*index.Stream, error) {
	out := map[uint64]*index.Stream{}
	for i := len(readers) - 1; i >= 0; i-- {
		r := readers[i]
		for id := range r.StreamIDs() {
			if _, ok := out[id]; ok {
				continue
			}
			s, err := r.StreamByID(id)
			if err != nil {
				return nil, err
			}
			if s == nil {
				return nil, fmt.Errorf("reader %s lists id %d but StreamByID finds nothing", filepath.Base(r.Filename()), id)
			}
			out[id] = s
		}
	}
	return out, nil
}

// ViewDigest asks a view everything the harness re-asks later: all streams with payload and tags,
// one stream by id, and a search.
func ViewDigest(v *manager.View, withTags bool) (string, error) {
	var lines []string
	var wantEarly []string // the streams whose first packet lies before the bound of the stored time query
	var opts []manager.StreamsOption
	if withTags {
		opts = append(opts, manager.PrefetchAllTags())
	}
	err := v.AllStreams(context.Background(), func(sc manager.StreamContext) error {
		o, err := ObserveStream(sc.Stream())
		if err != nil {
			return err
		}
		if sc.Stream().FirstPacket().Before(storedTimeBound) {
			wantEarly = append(wantEarly, fmt.Sprint(o.ID))
		}
		l := fmt.Sprintf("%d %s", o.ID, o.Digest)
		if withTags {
			tags, err := sc.AllTags()
			if err != nil {
				return err
			}
			l += " tags=" + strings.Join(tags, ",")
		}
		lines = append(lines, l)
		return nil
	}, opts...)
	if err != nil {
		return "", err
	}
	sort.Strings(lines)
	q, err := query.Parse("cport:1 sort:id")
	if err != nil {
		return "", err
	}
	var found []string
	if _, _, _, err := v.SearchStreams(context.Background(), q, func(sc manager.StreamContext) error {
		found = append(found, fmt.Sprint(sc.Stream().ID()))
		return nil
	}); err != nil {
		return "", err
	}
	// a query that was parsed long before it is used (a stored query, a page of results asked for later): its time
	// filter is an absolute time between the captures of the menu, and what it means must not depend on when the view
	// took its snapshot or on when the question is asked
	var early []string
	if _, _, _, err := v.SearchStreams(context.Background(), storedTimeQuery(), func(sc manager.StreamContext) error {
		early = append(early, fmt.Sprint(sc.Stream().ID()))
		return nil
	}); err != nil {
		return "", err
	}
	found = append(found, "first packet before "+storedTimeText+":")
	found = append(found, early...)
	sc, err := v.Stream(0)
	if err != nil {
		return "", err
	}
	s0 := "none"
	if sc.Stream() != nil {
		o, err := ObserveStream(sc.Stream())
		if err != nil {
			return "", err
		}
		s0 = o.Digest
	}
	// every stream the enumeration showed must be found by the single-stream lookup, as the same version;
	// an id above all of them must not be found
	var lookups []string
	maxID := uint64(0)
	for _, l := range lines {
		idText, digest, _ := strings.Cut(l, " ")
		if i := strings.Index(digest, " tags="); i >= 0 {
			digest = digest[:i]
		}
		id, _ := strconv.ParseUint(idText, 10, 64)
		if id > maxID {
			maxID = id
		}
		sc, err := v.Stream(id)
		if err != nil {
			return "", err
		}
		switch {
		case sc.Stream() == nil:
			lookups = append(lookups, fmt.Sprintf("lookup %d finds nothing although the enumeration shows the stream", id))
		default:
			o, err := ObserveStream(sc.Stream())
			if err != nil {
				return "", err
			}
			if o.Digest != digest {
				lookups = append(lookups, fmt.Sprintf("lookup %d finds another version than the enumeration shows: %s", id, o.Digest))
			}
		}
	}
	if sc, err := v.Stream(maxID + 1); err == nil && sc.Stream() != nil && len(lines) != 0 {
		lookups = append(lookups, fmt.Sprintf("lookup %d finds a stream the enumeration does not show", maxID+1))
	}
	out := strings.Join(lines, "\n") + "\nsearch cport:1 -> " + strings.Join(found, ",") + "\nstream0=" + s0
	// the stored time query must select exactly the enumerated streams whose first packet lies before its bound
	sort.Slice(wantEarly, func(i, j int) bool {
		a, _ := strconv.Atoi(wantEarly[i])
		b, _ := strconv.Atoi(wantEarly[j])
		return a < b
	})
	if strings.Join(early, ",") != strings.Join(wantEarly, ",") {
		lookups = append(lookups, fmt.Sprintf("a search for %q (parsed earlier in this process) returns the streams [%s], the enumeration shows [%s] with a first packet before that time", "ftime::"+storedTimeText, strings.Join(early, ","), strings.Join(wantEarly, ",")))
	}
	if len(lookups) != 0 {
		out += "\nLOOKUP " + strings.Join(lookups, "\nLOOKUP ")
	}
	return out, nil
}

var _ = mc.Fatal

const storedTimeText = "2020-01-01 1200+2500ms"

var storedTimeBound = Base.Add(2500 * time.Millisecond)

var (
	storedOnce sync.Once
	storedQ    *query.Query
)

// storedTimeQuery is parsed once per process, at the first use; every later use is seconds to minutes after that.
func storedTimeQuery() *query.Query {
	storedOnce.Do(func() {
		q, err := query.Parse("ftime:\":" + storedTimeText + "\" sort:id")
		if err != nil {
			mc.Fatal("stored query: %v", err)
		}
		storedQ = q
	})
	return storedQ
}
