package svc

import (
	"fmt"
	"net"
	"os"
	"path/filepath"
	"sort"
	"strings"

	"github.com/spq/pkappa2/internal/index"
	"github.com/spq/pkappa2/internal/index/manager"
	"github.com/spq/pkappa2/verifx/ref"
)

// Snapshot is a consistent picture of the service (taken inside the service loop) plus what the
// harness itself holds.
type Snapshot struct {
	St         manager.VerifState
	Rank       map[string]int // index file name -> rank by name among the files on disk and the known readers
	OnDisk     []string       // *.idx files in the index directory (base names, sorted)
	Visible    map[uint64]*index.Stream
	digests    map[*index.Reader]string
	PC         int
	SnapMissed []string
	Parked     []*Job
	ViewIdx    map[string][]*index.Reader
	ViewTags   map[string]string // the tag snapshot each held view works with
	Released   map[string]bool
}

func (w *World) Snapshot(pc int) (*Snapshot, error) {
	s := &Snapshot{St: w.Mgr.VerifDump(), Rank: map[string]int{}, digests: map[*index.Reader]string{}, PC: pc, SnapMissed: append([]string(nil), w.SnapMissed...), ViewIdx: map[string][]*index.Reader{}, ViewTags: map[string]string{}, Released: map[string]bool{}}
	ents, err := os.ReadDir(w.IndexDir)
	if err != nil {
		return nil, err
	}
	names := map[string]bool{}
	for _, e := range ents {
		if strings.HasSuffix(e.Name(), ".idx") {
			s.OnDisk = append(s.OnDisk, e.Name())
			names[e.Name()] = true
		}
	}
	sort.Strings(s.OnDisk)
	for r := range s.St.UsedIndexes {
		names[filepath.Base(r.Filename())] = true
	}
	var all []string
	for n := range names {
		all = append(all, n)
	}
	sort.Strings(all)
	for i, n := range all {
		s.Rank[n] = i
	}
	w.mu.Lock()
	for _, j := range w.parked {
		s.Parked = append(s.Parked, j)
	}
	w.mu.Unlock()
	sort.Slice(s.Parked, func(i, k int) bool { return jobLess(s.Parked[i], s.Parked[k]) })
	for _, hv := range w.Views {
		s.ViewIdx[hv.Name] = hv.View.VerifViewIndexes()
		s.Released[hv.Name] = hv.Released
		if !hv.Released {
			// which streams were pending for the view decides what it shares with the service and
			// what it still evaluates itself
			vt := hv.View.VerifViewTags()
			var names []string
			for n := range vt {
				names = append(names, n)
			}
			sort.Strings(names)
			var sb strings.Builder
			for _, n := range names {
				fmt.Fprintf(&sb, " %s:m%v:u%v", n, vt[n][0], vt[n][1])
			}
			s.ViewTags[hv.Name] = sb.String() + " pending-at-open{" + hv.PendingAtOpen + "}"
		}
	}
	s.Visible, err = VisibleThrough(s.St.Indexes)
	if err != nil {
		return nil, err
	}
	return s, nil
}

func (s *Snapshot) readerDigest(r *index.Reader) string {
	if d, ok := s.digests[r]; ok {
		return d
	}
	var parts []string
	if err := r.AllStreams(func(st *index.Stream) error {
		parts = append(parts, fmt.Sprintf("%d:%d/%d", st.ID(), st.ClientBytes, st.ServerBytes))
		return nil
	}); err != nil {
		parts = append(parts, "unreadable:"+err.Error())
	}
	sort.Strings(parts)
	d := strings.Join(parts, ",")
	s.digests[r] = d
	return d
}

func (s *Snapshot) readerName(r *index.Reader) string {
	return fmt.Sprintf("f%d{%s}", s.Rank[filepath.Base(r.Filename())], s.readerDigest(r))
}

func (s *Snapshot) readersName(rs []*index.Reader) string {
	n := make([]string, len(rs))
	for i, r := range rs {
		n[i] = s.readerName(r)
	}
	return "[" + strings.Join(n, " ") + "]"
}

// Canon renders everything the future behaviour of the service and of the harness can depend on.
// Index files enter by the rank of their name (a restart stacks them by name) and by content.
func (s *Snapshot) Canon() string {
	var sb strings.Builder
	fmt.Fprintf(&sb, "pc=%d next=%d all=%v upd=%v res=%v add=%v unmerge=%d queue=%v flags=%v%v%v\n", s.PC, s.St.NextStreamID, s.St.AllStreams, s.St.UpdatedDuring, s.St.ResetDuring, s.St.AddedDuring,
		s.St.NUnmergeableIndexes, s.St.ImportJobs, s.St.MergeJobRunning, s.St.TaggingJobRunning, s.St.ConverterJobRunning)
	if len(s.SnapMissed) != 0 {
		fmt.Fprintf(&sb, "snapshot saves missed=%v\n", s.SnapMissed)
	}
	for _, t := range s.St.Tags {
		fmt.Fprintf(&sb, "tag %s|%s|%s|%v|m%v|u%v|r%v\n", t.Name, t.Definition, t.Color, t.Converters, t.Matches, t.Uncertain, t.ReferencedBy)
	}
	sb.WriteString("indexes")
	for _, r := range s.St.Indexes {
		fmt.Fprintf(&sb, " %s*%d", s.readerName(r), s.St.UsedIndexes[r])
	}
	sb.WriteString("\nother-used")
	var other []string
	inList := map[*index.Reader]bool{}
	for _, r := range s.St.Indexes {
		inList[r] = true
	}
	for r, n := range s.St.UsedIndexes {
		if !inList[r] {
			other = append(other, fmt.Sprintf("%s*%d", s.readerName(r), n))
		}
	}
	sort.Strings(other)
	sb.WriteString(strings.Join(other, " "))
	sb.WriteString("\ndisk")
	for _, n := range s.OnDisk {
		fmt.Fprintf(&sb, " f%d", s.Rank[n])
	}
	var cn []string
	for n, ids := range s.St.StreamsToConvert {
		cn = append(cn, fmt.Sprintf("%s todo%v cached%v", n, ids, s.St.ConverterCached[n]))
	}
	sort.Strings(cn)
	fmt.Fprintf(&sb, "\nconv %v\n", cn)
	for _, j := range s.Parked {
		fmt.Fprintf(&sb, "job %s.%s", j.Kind, j.Gate)
		for _, a := range j.Args {
			switch x := a.(type) {
			case []*index.Reader:
				sb.WriteString(" " + s.readersName(x))
			case []string, string, int, uint64:
				fmt.Fprintf(&sb, " %v", x)
			default:
				// converters / bitmask pointers: covered by the state above
			}
		}
		if j.Gate == "begin" && j.InputDigest != "" {
			// what a started job was handed determines what it will deliver
			sb.WriteString(" in{" + strings.ReplaceAll(j.InputDigest, "\n", "; ") + "}")
		}
		sb.WriteString("\n")
	}
	var vn []string
	for n, idx := range s.ViewIdx {
		if s.Released[n] {
			vn = append(vn, fmt.Sprintf("view %s released", n))
			continue
		}
		vn = append(vn, fmt.Sprintf("view %s %s tags{%s}", n, s.readersName(idx), s.ViewTags[n]))
	}
	sort.Strings(vn)
	sb.WriteString(strings.Join(vn, "\n"))
	return sb.String()
}

// RecFromStream builds the abstract record of a stored stream (the stream's current data).
func RecFromStream(s *index.Stream) (*ref.Rec, error) {
	r := &ref.Rec{ID: s.ID(), CPort: s.ClientPort, SPort: s.ServerPort, CBytes: s.ClientBytes, SBytes: s.ServerBytes,
		FTime: s.FirstPacket(), LTime: s.LastPacket(), Tags: map[string]ref.TagState{}, Reps: map[string][]ref.Chunk{}}
	parse := func(t string) net.IP {
		p := net.ParseIP(t)
		if v4 := p.To4(); v4 != nil {
			return v4
		}
		return p
	}
	r.CHost, r.SHost = parse(s.ClientHostIP()), parse(s.ServerHostIP())
	switch s.Protocol() {
	case "TCP":
		r.Proto = ref.ProtoTCP
	case "UDP":
		r.Proto = ref.ProtoUDP
	case "SCTP":
		r.Proto = ref.ProtoSCTP
	}
	data, err := s.Data()
	if err != nil {
		return nil, err
	}
	var ch []ref.Chunk
	for _, d := range data {
		ch = append(ch, ref.Chunk{Dir: int(d.Direction), Data: d.Content})
	}
	r.Reps[""] = ch
	return r, nil
}
