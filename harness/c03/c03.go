// Package c03: query normalisation preserves meaning.  Every expression tree up to a bound is
// printed, parsed by the real parser and its normal form is evaluated on every record of an
// abstract universe that realises every combination of the values the atoms look at.
package c03

import (
	"crypto/sha1"
	"encoding/hex"
	"fmt"
	"sort"
	"strings"
	"time"

	"github.com/spq/pkappa2/internal/query"
	"github.com/spq/pkappa2/verifx/mc"
	"github.com/spq/pkappa2/verifx/ref"
	"rsc.io/binaryregexp"
)

type caseT struct {
	node *ref.Node
	text string
	// groups overrides the field groups of the universe (nil: the groups the atoms read)
	groups []string
}

func Run(tier string) int {
	rep := mc.NewReporter("C03", tier, "model_checking")
	rep.Driver = "c03"
	budget := 170 * time.Second
	if tier == "thorough" {
		budget = 14 * time.Minute
	}
	deadline := time.Now().Add(budget)
	alphabet := ref.Alphabet()
	groups := ref.Groups()
	atomGroups := map[*ref.Atom][]string{}
	var core []ref.AtomDef
	for _, a := range alphabet {
		atomGroups[a.Atom] = a.Groups
		if a.Core {
			core = append(core, a)
		}
	}
	// families: (leaves, nots, alphabet)
	type family struct {
		leaves, nots int
		atoms        []ref.AtomDef
		name         string
	}
	var mini []ref.AtomDef
	for _, a := range alphabet {
		if a.Mini {
			mini = append(mini, a)
		}
	}
	// quick: the three-leaf families use slightly smaller alphabets than thorough so that the tier
	// finishes within its budget on a loaded machine (an unfinished run is reported as not exhaustive)
	var mini9 []ref.AtomDef
	for _, a := range mini {
		if a.Text != "protocol:tcp" {
			mini9 = append(mini9, a)
		}
	}
	fams := []family{
		{1, 1, alphabet, "1 leaf, <=1 not, full alphabet"},
		{2, 1, alphabet, "2 leaves, <=1 not, full alphabet"},
		{2, 2, core, "2 leaves, <=2 nots, core alphabet"},
		{3, 0, core[:min(len(core), 11)], "3 leaves, no not, 11 core atoms"},
		{3, 1, mini9, "3 leaves, <=1 not, 9 mini atoms"},
	}
	if tier == "thorough" {
		fams = []family{
			{1, 1, alphabet, "1 leaf, <=1 not, full alphabet"},
			{2, 3, alphabet, "2 leaves, <=3 nots, full alphabet"},
			{3, 1, core, "3 leaves, <=1 not, core alphabet"},
			{3, 2, mini, "3 leaves, <=2 nots, mini alphabet"},
			{3, 0, alphabet, "3 leaves, no not, full alphabet"},
			{4, 1, mini[:min(len(mini), 7)], "4 leaves, <=1 not, 7 mini atoms"},
		}
	}
	var cases []caseT
	famCounts := map[string]int{}
	seenText := map[string]bool{}
	skippedUndefined, skippedExponential := 0, 0
	atomShape := map[*ref.Atom][2]int{}
	for _, a := range alphabet {
		atomShape[a.Atom] = [2]int{a.W, a.C}
	}
	for _, fm := range fams {
		ref.Trees(fm.atoms, fm.leaves, fm.nots, func(n *ref.Node) {
			if !n.WellDefined() {
				skippedUndefined++
				return
			}
			if _, _, cost := ref.Shape(n, atomShape); cost > 2000 {
				skippedExponential++
				return
			}
			t := n.Text()
			if seenText[t] {
				return
			}
			seenText[t] = true
			cases = append(cases, caseT{n, t, nil})
			famCounts[fm.name]++
		})
	}
	// THEN chains of 2-5 elements, each a data atom or an OR group of two: the shapes in which the
	// normaliser concatenates sequences repeatedly
	{
		byText := map[string]*ref.Atom{}
		for _, a := range alphabet {
			byText[a.Text] = a.Atom
		}
		el := func(t string) *ref.Node { return ref.A(byText[t]) }
		elems := []func() *ref.Node{
			func() *ref.Node { return el("cdata:a") }, func() *ref.Node { return el("sdata:a") }, func() *ref.Node { return el("cdata:b") },
			func() *ref.Node { return el("sdata:b") }, func() *ref.Node { return el("data:a") },
			func() *ref.Node { return ref.Or(el("cdata:a"), el("sdata:b")) },
		}
		maxChain := 4
		if tier == "thorough" {
			maxChain = 5
		}
		var rec func(cur []int)
		rec = func(cur []int) {
			if len(cur) >= 2 {
				kids := make([]*ref.Node, len(cur))
				for i, c := range cur {
					kids[i] = elems[c]()
				}
				for _, n := range []*ref.Node{ref.Then(kids...), ref.Not(ref.Then(kids...))} {
					// same construction-cost rule as the tree families: a negated chain whose
					// expansion has many alternatives is "negating a large disjunction"
					if _, _, cost := ref.Shape(n, atomShape); cost > 2000 {
						skippedExponential++
						continue
					}
					t := n.Text()
					if !seenText[t] {
						seenText[t] = true
						cases = append(cases, caseT{n, t, []string{"datalong"}})
						famCounts["then chains of 2-"+fmt.Sprint(maxChain)+" data elements (plain and negated)"]++
					}
				}
			}
			if len(cur) == maxChain {
				return
			}
			for i := range elems {
				rec(append(cur, i))
			}
		}
		rec(nil)
	}
	// degenerate sub-expressions in context: for every pair (P, Q) of atoms of the full alphabet whose
	// conjunction is a contradiction or whose disjunction is a tautology on the universe (computed by the
	// reference evaluator), the pair is combined with a third atom X in the shapes in which a simplifier
	// has to carry "matches nothing" / "matches everything" through OR, AND and NOT
	{
		type pr struct{ p, q ref.AtomDef }
		var contra, tauto []pr
		res := map[string]*binaryregexp.Regexp{}
		for i, p := range alphabet {
			for _, q := range alphabet[i+1:] {
				if p.Atom.Data != nil || q.Atom.Data != nil {
					continue
				}
				gs := map[string]bool{}
				for _, g := range p.Groups {
					gs[g] = true
				}
				for _, g := range q.Groups {
					gs[g] = true
				}
				var gn []string
				for g := range gs {
					gn = append(gn, g)
				}
				sort.Strings(gn)
				allFalse, allTrue := true, true
				for _, r := range ref.Universe(groups, gn) {
					a, b := p.Atom.Eval(r), q.Atom.Eval(r)
					if a && b {
						allFalse = false
					}
					if !(a || b) {
						allTrue = false
					}
				}
				if allFalse {
					contra = append(contra, pr{p, q})
				}
				if allTrue {
					tauto = append(tauto, pr{p, q})
				}
			}
		}
		_ = res
		xs := core
		if tier != "thorough" && len(xs) > 8 {
			xs = xs[:8]
		}
		addCase := func(n *ref.Node, fam string) {
			if !n.WellDefined() {
				return
			}
			if _, _, cost := ref.Shape(n, atomShape); cost > 2000 {
				skippedExponential++
				return
			}
			t := n.Text()
			if !seenText[t] {
				seenText[t] = true
				cases = append(cases, caseT{n, t, nil})
				famCounts[fam]++
			}
		}
		for _, c := range contra {
			P, Q := ref.A(c.p.Atom), ref.A(c.q.Atom)
			for _, x := range xs {
				if x.Atom.Data != nil {
					continue
				}
				X := ref.A(x.Atom)
				fam := "contradictory pair in context (OR/AND/NOT around it)"
				addCase(ref.Or(X, ref.Not(ref.And(P, Q))), fam)
				addCase(ref.And(X, ref.Not(ref.And(P, Q))), fam)
				addCase(ref.Or(X, ref.And(P, Q)), fam)
				addCase(ref.Not(ref.Or(X, ref.And(P, Q))), fam)
				addCase(ref.Not(ref.And(X, ref.Not(ref.And(P, Q)))), fam)
				addCase(ref.Or(ref.Not(ref.And(P, Q)), X), fam)
			}
		}
		for _, c := range tauto {
			P, Q := ref.A(c.p.Atom), ref.A(c.q.Atom)
			for _, x := range xs {
				if x.Atom.Data != nil {
					continue
				}
				X := ref.A(x.Atom)
				fam := "tautological pair in context (OR/AND/NOT around it)"
				addCase(ref.And(X, ref.Or(P, Q)), fam)
				addCase(ref.Or(X, ref.Not(ref.Or(P, Q))), fam)
				addCase(ref.And(X, ref.Not(ref.Or(P, Q))), fam)
				addCase(ref.Not(ref.And(X, ref.Or(P, Q))), fam)
			}
		}
		famCounts["contradictory pairs found"] = len(contra)
		famCounts["tautological pairs found"] = len(tauto)
	}
	// number filters with arithmetic over the stream's own fields: every sum of up to three signed
	// variables plus a constant, as exact value, lower bound and upper bound, plain, negated and in
	// conjunctions of two (the shapes the common-factor / contradiction simplification rewrites)
	{
		arith := arithAtoms()
		for _, a := range arith {
			for _, n := range []*ref.Node{ref.A(a), ref.Not(ref.A(a))} {
				t := n.Text()
				if !seenText[t] {
					seenText[t] = true
					cases = append(cases, caseT{n, t, []string{"byteswide"}})
					famCounts["number filters with field arithmetic (plain and negated)"]++
				}
			}
		}
		// pairs over a reduced set: every 7th atom
		var red []*ref.Atom
		for i, a := range arith {
			if i%7 == 0 || tier == "thorough" && i%3 == 0 {
				red = append(red, a)
			}
		}
		for i, a := range red {
			for _, b := range red[i+1:] {
				n := ref.And(ref.A(a), ref.A(b))
				t := n.Text()
				if !seenText[t] {
					seenText[t] = true
					cases = append(cases, caseT{n, t, []string{"byteswide"}})
					famCounts["conjunctions of two number filters with field arithmetic"]++
				}
			}
		}
	}
	for _, a := range wideArithAtoms() {
		n := ref.A(a)
		t := n.Text()
		if !seenText[t] {
			seenText[t] = true
			cases = append(cases, caseT{n, t, []string{"id", "bytes", "port"}})
			famCounts["number filters summing three distinct variables (single field and shorthands, bounds and ranges)"]++
		}
	}
	// time filters whose value is another time field of the same stream plus or minus a duration: as a single
	// value, as lower / upper bound and as a range, plain and negated
	for _, a := range timeArithAtoms() {
		for _, n := range []*ref.Node{ref.A(a), ref.Not(ref.A(a))} {
			t := n.Text()
			if !seenText[t] {
				seenText[t] = true
				cases = append(cases, caseT{n, t, []string{"timewide"}})
				famCounts["time filters with field arithmetic (plain and negated)"]++
			}
		}
	}
	// data filters with variables of a sub-query: the evaluator cannot compute them, the universe assigns each
	// a truth value of its own.  Elements that differ only in the variable, its sub-query or its position are
	// different atoms; trees of <=3 leaves over five of them and two ordinary atoms
	{
		var op []ref.AtomDef
		for _, t := range []string{`cdata:"@s:a@"`, `cdata:"@s:b@"`, `sdata:"@s:a@"`, `cdata:"v@s:a@"`, `cdata:"v@t:a@"`, `cdata:"@s:a@v"`} {
			q, err := query.Parse(t)
			if err != nil || len(q.Conditions) != 1 || len(q.Conditions[0]) != 1 {
				mc.Fatal("opaque atom %s: %v %v", t, err, q)
			}
			dc, ok := q.Conditions[0][0].(*query.DataCondition)
			if !ok || len(dc.Elements) != 1 || dc.Inverted {
				mc.Fatal("opaque atom %s is not one plain data filter element", t)
			}
			key := ref.OpaqueKey(dc.Elements[0])
			g := "opaque " + t
			groups[g] = &ref.Group{Name: g, Values: []func(r *ref.Rec){
				func(r *ref.Rec) {
					if r.Opaque == nil {
						r.Opaque = map[string]bool{}
					}
					r.Opaque[key] = false
				},
				func(r *ref.Rec) {
					if r.Opaque == nil {
						r.Opaque = map[string]bool{}
					}
					r.Opaque[key] = true
				}}}
			a := ref.AtomDef{Atom: &ref.Atom{Text: t, Eval: func(r *ref.Rec) bool { return r.Opaque[key] }}, Groups: []string{g}, W: 1, C: 1}
			atomGroups[a.Atom] = a.Groups
			atomShape[a.Atom] = [2]int{1, 1}
			op = append(op, a)
		}
		for _, a := range alphabet {
			if a.Text == "cport:80" || a.Text == "cdata:a" {
				op = append(op, a)
			}
		}
		for _, fm := range []struct{ leaves, nots int }{{2, 2}, {3, 1}} {
			ref.Trees(op, fm.leaves, fm.nots, func(n *ref.Node) {
				if !n.WellDefined() || n.HasThen() {
					return // a THEN over filters whose verdict is assigned has no assigned meaning
				}
				t := n.Text()
				if seenText[t] || !strings.Contains(t, "@") {
					return
				}
				seenText[t] = true
				cases = append(cases, caseT{n, t, nil})
				famCounts["data filters with sub-query variables as free atoms"]++
			})
		}
	}
	// tag filters of the searched stream and of the streams sub-queries pick, on the same and on different tags:
	// "tag:a" and "@o:tag:a" are different facts (free atoms of the universe, four states each)
	{
		var op []ref.AtomDef
		for _, spec := range [][3]string{{"tag:a", "", "tag/a"}, {"@o:tag:a", "o", "tag/a"}, {"@p:tag:a", "p", "tag/a"}, {"@o:tag:b", "o", "tag/b"}, {"@o:service:s", "o", "service/s"}, {"tag:b", "", "tag/b"}} {
			text, sq, tag := spec[0], spec[1], spec[2]
			key := tag
			if sq != "" {
				key = sq + "@" + tag
			}
			g := "tagfact " + key
			var vals []func(*ref.Rec)
			for _, st := range []ref.TagState{ref.TagMatching, ref.TagFailing, ref.TagUncertainMatching, ref.TagUncertainFailing} {
				st := st
				vals = append(vals, func(r *ref.Rec) { r.Tags[key] = st })
			}
			groups[g] = &ref.Group{Name: g, Values: vals}
			a := ref.AtomDef{Atom: &ref.Atom{Text: text, Eval: func(r *ref.Rec) bool {
				st, ok := r.Tags[key]
				return ok && (st == ref.TagMatching || st == ref.TagUncertainMatching)
			}}, Groups: []string{g}, W: 1, C: 1}
			atomGroups[a.Atom] = a.Groups
			atomShape[a.Atom] = [2]int{1, 1}
			op = append(op, a)
		}
		for _, a := range alphabet {
			if a.Text == "cport:80" {
				op = append(op, a)
			}
		}
		for _, fm := range []struct{ leaves, nots int }{{2, 2}, {3, 2}} {
			ref.Trees(op, fm.leaves, fm.nots, func(n *ref.Node) {
				if !n.WellDefined() || n.HasThen() {
					return
				}
				t := n.Text()
				if seenText[t] || !strings.Contains(t, "@") {
					return
				}
				seenText[t] = true
				cases = append(cases, caseT{n, t, nil})
				famCounts["tag filters of the searched stream and of sub-query streams as separate facts"]++
			})
		}
	}
	uniCache := map[string][]*ref.Rec{}
	job := mc.ShardedJob{
		N:        len(cases),
		CaseName: func(i int) string { return cases[i].text },
		Timeout:  60 * time.Second,
		Deadline: deadline,
		Run: func(i int) mc.CaseResult {
			var out mc.CaseResult
			c := cases[i]
			q, err := query.Parse(c.text)
			if err != nil {
				out.Violations = append(out.Violations, mc.Violation{Symptom: "parse.error", Key: c.text, Msg: fmt.Sprintf("well-formed query %q rejected: %v", c.text, err), Replay: map[string]any{"query": c.text}})
				return out
			}
			gset := map[string]bool{}
			c.node.Atoms(func(a *ref.Atom) {
				for _, g := range atomGroups[a] {
					gset[g] = true
				}
			})
			var gnames []string
			for g := range gset {
				gnames = append(gnames, g)
			}
			sort.Strings(gnames)
			if c.groups != nil {
				gnames = c.groups
			}
			key := strings.Join(gnames, ",")
			recs, ok := uniCache[key]
			if !ok {
				recs = ref.Universe(groups, gnames)
				uniCache[key] = recs
			}
			res := map[string]*binaryregexp.Regexp{}
			anyTrue, anyFalse := false, false
			more, less := 0, 0
			var firstMore, firstLess *ref.Rec
			for _, r := range recs {
				want := c.node.Eval(r, res)
				got := false
				if q.Conditions != nil {
					got, err = ref.EvalConditions(q.Conditions, r, q.ReferenceTime, res)
					if err != nil {
						mc.Fatal("evaluating conditions of %q: %v", c.text, err)
					}
				}
				if want {
					anyTrue = true
				} else {
					anyFalse = true
				}
				if got && !want {
					if more == 0 {
						firstMore = r
					}
					more++
				}
				if !got && want {
					if less == 0 {
						firstLess = r
					}
					less++
				}
			}
			out.Counters = map[string]int64{"recs": int64(len(recs))}
			if anyTrue && anyFalse {
				out.Counters["nontrivial"] = 1
			}
			norm := "nothing"
			if q.Conditions != nil {
				norm = q.Conditions.String()
			} else {
				out.Counters["impossible"] = 1
			}
			if more != 0 {
				out.Violations = append(out.Violations, mc.Violation{Symptom: "normalisation.accepts-more", Key: c.text,
					Msg:    fmt.Sprintf("query %q normalises to %s which accepts %d of %d records the expression rejects, e.g. %s", c.text, norm, more, len(recs), descRec(firstMore, gnames)),
					Replay: map[string]any{"query": c.text, "record": descRec(firstMore, gnames)}})
			}
			if less != 0 {
				sym := "normalisation.accepts-less"
				if q.Conditions == nil {
					sym = "normalisation.reported-impossible"
				}
				out.Violations = append(out.Violations, mc.Violation{Symptom: sym, Key: c.text,
					Msg:    fmt.Sprintf("query %q normalises to %s which rejects %d of %d records the expression accepts, e.g. %s", c.text, norm, less, len(recs), descRec(firstLess, gnames)),
					Replay: map[string]any{"query": c.text, "record": descRec(firstLess, gnames)}})
			}
			h := sha1.Sum([]byte(norm))
			out.Outcome = hex.EncodeToString(h[:8])
			if i%(len(cases)/8+1) == 0 {
				out.Sample = fmt.Sprintf("%s  =>  %s  (universe %d records)", c.text, norm, len(recs))
			}
			return out
		},
	}
	st := job.Execute(rep)
	evals, recEvals, nontrivial, impossibleReported := st.Done, st.Counters["recs"], st.Counters["nontrivial"], st.Counters["impossible"]
	outcomes, samples := st.Outcomes, st.Samples
	timedOut := 0
	if st.TimedOut {
		timedOut = 1
	}
	var slow []string
	for _, i := range st.Hangs {
		slow = append(slow, "no answer within 60s: "+cases[i].text)
	}
	for _, i := range st.Crashes {
		slow = append(slow, "worker died (memory limit or fatal error): "+cases[i].text+" :: "+firstLine(st.CrashText[i]))
	}
	rep.Coverage["cases_without_answer"] = slow
	cv := rep.Coverage
	cv["evaluations"] = evals
	cv["distinct_nontrivial"] = nontrivial
	cv["states"] = evals
	cv["transitions"] = recEvals
	cv["traces_validated_against_impl"] = evals
	cv["rule"] = "every expression tree of the listed families (atoms x AND/OR/THEN/NOT, explicit parentheses) is parsed by query.Parse and its normal form evaluated on every record of the product universe of the field groups its atoms read; non-trivial = the expression is neither a tautology nor a contradiction on that universe"
	cv["families"] = famCounts
	cv["cases"] = len(cases)
	cv["trees_skipped_then_undefined"] = skippedUndefined
	cv["trees_skipped_negation_exponential_by_construction"] = skippedExponential
	cv["record_evaluations"] = recEvals
	cv["queries_reported_as_matching_nothing"] = impossibleReported
	cv["distinct_outcomes"] = len(outcomes)
	cv["samples"] = samples
	cv["exhaustive"] = timedOut == 0
	if timedOut != 0 {
		cv["caps_hit"] = []string{"deadline"}
	}
	rep.Assumptions = []string{
		"THEN is defined by the in-app help: sequential match of data filters; over groups it pairs every data atom left with every one right, distributes over OR; a side without data filters makes THEN an AND; trees with negation below THEN are excluded",
		"tag atoms: member iff the stream's tag state is matching or uncertain-matching",
		"one payload representation (raw) in this driver; multi-representation semantics are C04's",
		"absolute times only, TZ=UTC",
	}
	if len(outcomes) < 5 {
		mc.Fatal("vacuous: %d outcomes", len(outcomes))
	}
	return rep.Finish()
}

// arithAtoms enumerates number filters on cbytes / sbytes whose value is a sum of variables and a constant.
func arithAtoms() []*ref.Atom {
	type term struct {
		neg bool
		v   string // "cbytes" | "sbytes"
	}
	vars := []string{"cbytes", "sbytes"}
	var sums [][]term
	for _, a := range vars {
		sums = append(sums, []term{{false, a}})
		for _, bn := range []bool{false, true} {
			for _, b := range vars {
				sums = append(sums, []term{{false, a}, {bn, b}})
				for _, cn := range []bool{false, true} {
					for _, c := range vars {
						sums = append(sums, []term{{false, a}, {bn, b}, {cn, c}})
					}
				}
			}
		}
	}
	consts := []int64{0, 1, 2, 3, 5, -1, -2, -3, -5}
	var out []*ref.Atom
	// "bytes" is the shorthand for "cbytes or sbytes": the value is translated once per field
	for _, key := range []string{"cbytes", "sbytes", "bytes"} {
		for _, sum := range sums {
			for _, k := range consts {
				var sb strings.Builder
				for i, t := range sum {
					if t.neg {
						sb.WriteString("-")
					} else if i > 0 {
						sb.WriteString("+")
					}
					sb.WriteString("@" + t.v + "@")
				}
				if k > 0 {
					fmt.Fprintf(&sb, "+%d", k)
				} else if k < 0 {
					fmt.Fprintf(&sb, "%d", k)
				}
				expr := sb.String()
				sum, k, key := sum, k, key
				val := func(r *ref.Rec) (v, e int64) {
					get := func(n string) int64 {
						if n == "cbytes" {
							return int64(r.CBytes)
						}
						return int64(r.SBytes)
					}
					e = k
					for _, t := range sum {
						if t.neg {
							e -= get(t.v)
						} else {
							e += get(t.v)
						}
					}
					return get(key), e
				}
				if key == "bytes" {
					both := func(rel func(v, e int64) bool) func(r *ref.Rec) bool {
						return func(r *ref.Rec) bool {
							_, e := val(r)
							return rel(int64(r.CBytes), e) || rel(int64(r.SBytes), e)
						}
					}
					out = append(out,
						&ref.Atom{Text: key + ":" + expr, Eval: both(func(v, e int64) bool { return v == e })},
						&ref.Atom{Text: key + ":" + expr + ":", Eval: both(func(v, e int64) bool { return v >= e })},
						&ref.Atom{Text: key + "::" + expr, Eval: both(func(v, e int64) bool { return v <= e })},
					)
					continue
				}
				out = append(out,
					&ref.Atom{Text: key + ":" + expr, Eval: func(r *ref.Rec) bool { v, e := val(r); return v == e }},
					&ref.Atom{Text: key + ":" + expr + ":", Eval: func(r *ref.Rec) bool { v, e := val(r); return v >= e }},
					&ref.Atom{Text: key + "::" + expr, Eval: func(r *ref.Rec) bool { v, e := val(r); return v <= e }},
				)
			}
		}
	}
	return out
}

// wideArithAtoms: number filters whose value sums THREE DISTINCT variables (id, byte counts, ports) with signs and a
// small constant, for a single-field key and for the two shorthands; also ranges whose two bounds are such sums.
func wideArithAtoms() []*ref.Atom {
	vars := []string{"id", "cbytes", "sbytes", "cport", "sport"}
	get := func(r *ref.Rec, n string) int64 {
		switch n {
		case "id":
			return int64(r.ID)
		case "cbytes":
			return int64(r.CBytes)
		case "sbytes":
			return int64(r.SBytes)
		case "cport":
			return int64(r.CPort)
		}
		return int64(r.SPort)
	}
	type sumT struct {
		text string
		val  func(r *ref.Rec) int64
	}
	var sums []sumT
	for a := 0; a < len(vars); a++ {
		for b := a + 1; b < len(vars); b++ {
			for c := b + 1; c < len(vars); c++ {
				for sg := 0; sg < 4; sg++ {
					for _, k := range []int64{0, 1, -80} {
						va, vb, vc, sb, sc := vars[a], vars[b], vars[c], int64(1), int64(1)
						t := "@" + va + "@"
						if sg&1 != 0 {
							sb = -1
							t += "-@" + vb + "@"
						} else {
							t += "+@" + vb + "@"
						}
						if sg&2 != 0 {
							sc = -1
							t += "-@" + vc + "@"
						} else {
							t += "+@" + vc + "@"
						}
						if k > 0 {
							t += fmt.Sprintf("+%d", k)
						} else if k < 0 {
							t += fmt.Sprint(k)
						}
						k := k
						sums = append(sums, sumT{t, func(r *ref.Rec) int64 { return get(r, va) + sb*get(r, vb) + sc*get(r, vc) + k }})
					}
				}
			}
		}
	}
	fields := map[string][]string{"cport": {"cport"}, "port": {"cport", "sport"}, "bytes": {"cbytes", "sbytes"}, "id": {"id"}}
	var out []*ref.Atom
	for _, key := range []string{"cport", "port", "bytes", "id"} {
		fs := fields[key]
		any := func(rel func(v int64, r *ref.Rec) bool) func(r *ref.Rec) bool {
			return func(r *ref.Rec) bool {
				for _, f := range fs {
					if rel(get(r, f), r) {
						return true
					}
				}
				return false
			}
		}
		for i, sm := range sums {
			sm := sm
			out = append(out,
				&ref.Atom{Text: key + ":" + sm.text, Eval: any(func(v int64, r *ref.Rec) bool { return v == sm.val(r) })},
				&ref.Atom{Text: key + ":" + sm.text + ":", Eval: any(func(v int64, r *ref.Rec) bool { return v >= sm.val(r) })},
				&ref.Atom{Text: key + "::" + sm.text, Eval: any(func(v int64, r *ref.Rec) bool { return v <= sm.val(r) })},
			)
			// a range between two sums (every 7th pair)
			if i%7 == 0 {
				hi := sums[(i*5+3)%len(sums)]
				out = append(out, &ref.Atom{Text: key + ":" + sm.text + ":" + hi.text, Eval: any(func(v int64, r *ref.Rec) bool { return v >= sm.val(r) && v <= hi.val(r) })})
			}
		}
	}
	return out
}

// timeArithAtoms enumerates ftime / ltime / time filters whose bounds are @ftime@ or @ltime@ plus or minus a duration.
func timeArithAtoms() []*ref.Atom {
	type expr struct {
		text string
		val  func(r *ref.Rec) time.Time
	}
	var exprs []expr
	for _, v := range []string{"ftime", "ltime"} {
		for _, d := range []struct {
			t string
			d time.Duration
		}{{"", 0}, {"+4s", 4 * time.Second}, {"-5s", -5 * time.Second}, {"+1s", time.Second}, {"+1h", time.Hour}, {"-1h", -time.Hour}} {
			v, d := v, d
			exprs = append(exprs, expr{"@" + v + "@" + d.t, func(r *ref.Rec) time.Time {
				if v == "ftime" {
					return r.FTime.Add(d.d)
				}
				return r.LTime.Add(d.d)
			}})
		}
	}
	exprs = append(exprs, expr{"2020-01-01 120003", func(*ref.Rec) time.Time { return ref.T0.Add(3 * time.Second) }})
	var out []*ref.Atom
	for _, key := range []string{"ftime", "ltime", "time"} {
		key := key
		// lo / hi of the filter: nil = open
		mk := func(text string, lo, hi func(r *ref.Rec) time.Time) {
			out = append(out, &ref.Atom{Text: text, Eval: func(r *ref.Rec) bool {
				first, last := r.FTime, r.LTime
				switch key {
				case "ftime":
					last = first
				case "ltime":
					first = last
				}
				// the span [first,last] of the filter's field(s) must reach lo and must not start after hi
				if lo != nil && last.Before(lo(r)) {
					return false
				}
				if hi != nil && first.After(hi(r)) {
					return false
				}
				return true
			}})
		}
		for _, a := range exprs {
			mk(key+`:"`+a.text+`"`, a.val, a.val)
			mk(key+`:"`+a.text+`:"`, a.val, nil)
			mk(key+`:":`+a.text+`"`, nil, a.val)
			for _, b := range exprs {
				mk(key+`:"`+a.text+":"+b.text+`"`, a.val, b.val)
			}
		}
	}
	return out
}

func descRec(r *ref.Rec, groups []string) string {
	var parts []string
	for _, g := range groups {
		switch g {
		case "id":
			parts = append(parts, fmt.Sprintf("id=%d", r.ID))
		case "port":
			parts = append(parts, fmt.Sprintf("cport=%d sport=%d", r.CPort, r.SPort))
		case "bytes", "byteswide":
			parts = append(parts, fmt.Sprintf("cbytes=%d sbytes=%d", r.CBytes, r.SBytes))
		case "host":
			parts = append(parts, fmt.Sprintf("chost=%s shost=%s", r.CHost, r.SHost))
		case "proto":
			parts = append(parts, fmt.Sprintf("proto=%d", r.Proto))
		case "time", "timewide":
			parts = append(parts, fmt.Sprintf("ftime=%s ltime=%s", r.FTime.Format("150405"), r.LTime.Format("150405")))
		case "data":
			s := ""
			for _, c := range r.Reps[""] {
				s += fmt.Sprintf("%c%q", "CS"[c.Dir], c.Data)
			}
			parts = append(parts, "data="+s)
		default:
			parts = append(parts, fmt.Sprintf("%s=%d", g, r.Tags[g]))
		}
	}
	return strings.Join(parts, " ")
}

func firstLine(s string) string {
	if i := strings.IndexByte(s, '\n'); i >= 0 {
		return s[:i]
	}
	return s
}
