// Package c04: payload filters (alone, negated, combined, chained with THEN, with captures and
// converter representations) agree with a naive left-to-right regex scan, for every regex of a
// grammar and every payload layout of an alphabet.
package c04

import (
	"context"
	"fmt"
	"os"
	"path/filepath"
	"sort"
	"strings"
	"sync"
	"sync/atomic"
	"time"

	"github.com/spq/pkappa2/internal/index"
	"github.com/spq/pkappa2/internal/query"
	"github.com/spq/pkappa2/verifx/mc"
	"github.com/spq/pkappa2/verifx/ref"
	"rsc.io/binaryregexp"
)

type world struct {
	reader *index.Reader
	recs   []*ref.Rec // by stream id
	convs  map[string]index.ConverterAccess
}

// layouts: every sequence of <= maxChunks chunks, each chunk a direction and one of the words.
func layouts(words []string, maxChunks int) [][]ref.Chunk {
	var types []ref.Chunk
	for _, d := range []int{ref.DirC2S, ref.DirS2C} {
		for _, w := range words {
			types = append(types, ref.Chunk{Dir: d, Data: []byte(w)})
		}
	}
	out := [][]ref.Chunk{nil}
	var rec func(cur []ref.Chunk)
	rec = func(cur []ref.Chunk) {
		if len(cur) > 0 {
			out = append(out, append([]ref.Chunk{}, cur...))
		}
		if len(cur) == maxChunks {
			return
		}
		for _, t := range types {
			rec(append(cur, t))
		}
	}
	rec(nil)
	return out
}

func buildWorld(dir string, lay [][]ref.Chunk, long bool) *world {
	w := &world{convs: map[string]index.ConverterAccess{}}
	wr, err := index.NewWriter(filepath.Join(dir, fmt.Sprintf("c04_%d.idx", len(lay))))
	if err != nil {
		mc.Fatal("%v", err)
	}
	c1, c2 := ref.FakeConverter{}, ref.FakeConverter{}
	base := time.Date(2020, 1, 1, 0, 0, 0, 0, time.UTC)
	for id, l := range lay {
		s := &ref.StreamSpec{Name: "s", ID: uint64(id), Client: []byte{10, 0, 0, 1}, Server: []byte{10, 0, 0, 2}, CPort: 1, SPort: 2, Start: base}
		for i, c := range l {
			s.Pkts = append(s.Pkts, ref.PktSpec{Dir: c.Dir, OffsetUs: int64(i), File: "c04.pcap", Index: uint64(id*8 + i), Data: c.Data})
		}
		if len(s.Pkts) == 0 {
			s.Pkts = []ref.PktSpec{{Dir: ref.DirC2S, File: "c04.pcap", Index: uint64(id * 8)}}
		}
		if ok, err := wr.AddStream(s.ToStream(), s.ID); err != nil || !ok {
			mc.Fatal("AddStream: %v %v", ok, err)
		}
		r := s.Rec()
		// converter representations: conv1 caches output for ids = 1 mod 3 (the payload with directions
		// flipped), conv2 for ids = 2 mod 6 (the payload reversed chunk-wise); others have no cached output
		if id%3 == 1 {
			var out []ref.Chunk
			for _, c := range l {
				out = append(out, ref.Chunk{Dir: 1 - c.Dir, Data: c.Data})
			}
			c1[uint64(id)] = out
			r.Reps["conv1"] = out
		}
		if id%6 == 2 {
			var out []ref.Chunk
			for i := len(l) - 1; i >= 0; i-- {
				out = append(out, l[i])
			}
			c2[uint64(id)] = out
			r.Reps["conv2"] = out
		}
		w.recs = append(w.recs, r)
	}
	rd, err := wr.Finalize()
	if err != nil {
		mc.Fatal("Finalize: %v", err)
	}
	w.reader = rd
	w.convs["conv1"], w.convs["conv2"] = c1, c2
	_ = long
	return w
}

func quote(re string) string { return `"` + strings.ReplaceAll(strings.ReplaceAll(re, `"`, `""`), "@", "@@") + `"` }

type qcase struct {
	node *ref.Node
	text string
	fam  string
}

func dataAtom(key, conv, re string) *ref.Atom {
	text := key
	if conv != "" {
		text += "." + conv
	}
	text += ":" + quote(re)
	var alts []ref.SeqElem
	switch key {
	case "cdata":
		alts = []ref.SeqElem{{Dir: ref.DirC2S, Regex: re, Conv: conv}}
	case "sdata":
		alts = []ref.SeqElem{{Dir: ref.DirS2C, Regex: re, Conv: conv}}
	default:
		alts = []ref.SeqElem{{Dir: ref.DirC2S, Regex: re, Conv: conv}, {Dir: ref.DirS2C, Regex: re, Conv: conv}}
	}
	return &ref.Atom{Text: text, Data: alts}
}

// varAtom builds a data atom whose regex text contains @v@ (not quoted through quote()).
func varAtom(key, re string) *ref.Atom {
	dir := ref.DirC2S
	if key == "sdata" {
		dir = ref.DirS2C
	}
	return &ref.Atom{Text: key + `:"` + re + `"`, Data: []ref.SeqElem{{Dir: dir, Regex: re}}}
}

func buildQueries(tier string) ([]qcase, map[string]int) {
	size := 3
	if tier == "thorough" {
		size = 4
	}
	all, _ := ref.SmallRegexGrammar.Enumerate(size)
	// drop regexes that can match the empty string only trivially? no: keep everything
	small, _ := ref.SmallRegexGrammar.Enumerate(2)
	pairSet := append([]string{}, small...)
	pairSet = append(pairSet, "ab", "a.*b", "b$", "^a", `a\b`, "a|ba", "[ab]b", "a+b", "(?i:A)b", "b?a")
	var out []qcase
	counts := map[string]int{}
	add := func(fam string, n *ref.Node) {
		out = append(out, qcase{n, n.Text(), fam})
		counts[fam]++
	}
	// regexes shaped after the search shortcuts: literal prefix only, constant suffix only, fixed length
	// with a suffix that overlaps itself, prefix and suffix, suffix behind a loop, alternatives of
	// different length behind/before literals
	shortcut := []string{"[ab]aa", ".aa", "[ab]ab", "[ab]-a", "(?:a|b)aa", "[ab]{2}aa", ".ba", "[^a]aa", "[ab]a", ".a.a", "a.*aa", "aa.*a", "a[ab]a", "a.a", "ab?a", "(?:ab?|-)a",
		"(?:a*|b-)a", "[ab]*aa", "a+ba", "-a*a", "aa[ab]", "[ab]aa[ab]", "(?:aa|b)a", "a{2,3}b", "[ab]{1,2}-a"}
	all = append(all, shortcut...)
	for _, re := range all {
		add("single cdata", ref.A(dataAtom("cdata", "", re)))
		add("negated sdata", ref.Not(ref.A(dataAtom("sdata", "", re))))
		add("single data.none", ref.A(dataAtom("data", "none", re)))
		add("single cdata.conv1", ref.A(dataAtom("cdata", "conv1", re)))
		add("negated sdata.conv2", ref.Not(ref.A(dataAtom("sdata", "conv2", re))))
	}
	for _, r1 := range pairSet {
		for _, r2 := range pairSet {
			a1c, a2c, a2s := dataAtom("cdata", "", r1), dataAtom("cdata", "", r2), dataAtom("sdata", "", r2)
			add("then c>s", ref.Then(ref.A(a1c), ref.A(a2s)))
			add("then c>c", ref.Then(ref.A(a1c), ref.A(a2c)))
			add("then s>c", ref.Then(ref.A(dataAtom("sdata", "", r1)), ref.A(a2c)))
			add("and sharing", ref.And(ref.A(a1c), ref.A(a2c)))
			add("negated then (raw only)", ref.Not(ref.Then(ref.A(dataAtom("cdata", "none", r1)), ref.A(dataAtom("sdata", "none", r2)))))
			add("then + and sharing an expression", ref.And(ref.Then(ref.A(a1c), ref.A(a2s)), ref.A(dataAtom("cdata", "", r2))))
		}
	}
	tri := []string{"a", "b", "ab", ".", "b$", "^a", "a+", "[ab]"}
	for _, r1 := range tri {
		for _, r2 := range tri {
			for _, r3 := range tri {
				add("then c>s>c", ref.Then(ref.A(dataAtom("cdata", "", r1)), ref.A(dataAtom("sdata", "", r2)), ref.A(dataAtom("cdata", "", r3))))
				add("then c>c>s", ref.Then(ref.A(dataAtom("cdata", "", r1)), ref.A(dataAtom("cdata", "", r2)), ref.A(dataAtom("sdata", "", r3))))
			}
		}
	}
	// expressions with a literal prefix and a bounded, variable length (optional tail, counted repetition, alternatives
	// of different length) in front of a follower: where the match ENDS decides what the follower sees, and a capture
	// carries the matched text on; payloads like "aab-" start a false match one byte before the real one
	bounded := []string{"ab-?", "aab?", "ab{1,2}", "a(?:b|b-)", "ab[ab-]?", "a-?b?", "aa(?:b|)", "ab?-", "a[ab]b?", "aa[ab-]b?", "a(?:a|ab)", "-a{1,2}",
		// a class behind the literal prefix that rejects the prefix's own bytes: "aab.." holds an occurrence of the prefix that starts no match
		"a[b-]a?", "aa[b-]a?", "a[b-]{1,2}", "a[b-](?:a|)", "ab[b-]a?", "a[b-]a{0,2}"}
	for _, r1 := range bounded {
		for _, r2 := range []string{"-", "b", "a", "^-", "b$", ".", "[ab]", "a-"} {
			add("bounded prefix then c>c", ref.Then(ref.A(dataAtom("cdata", "", r1)), ref.A(dataAtom("cdata", "", r2))))
			add("bounded prefix then c>s", ref.Then(ref.A(dataAtom("cdata", "", r1)), ref.A(dataAtom("sdata", "", r2))))
			add("bounded prefix then s>s (conv1)", ref.Then(ref.A(dataAtom("sdata", "conv1", r1)), ref.A(dataAtom("sdata", "conv1", r2))))
		}
		for _, use := range []string{"@v@", "^@v@$", "@v@$", "-@v@"} {
			for _, k2 := range []string{"cdata", "sdata"} {
				add("bounded capture then variable", ref.Then(ref.A(dataAtom("cdata", "", "(?P<v>"+r1+")")), ref.A(varAtom(k2, use))))
			}
		}
	}
	// expressions that start with a greedy (or lazy) wildcard: the match ends behind the LAST (first) occurrence of
	// what follows the wildcard, which decides what a follower sees and what a capture binds
	for _, r1 := range []string{".*a", "(?s).*a", ".*ab", ".*?a", "[ab]*a", ".*(?:a|-)", "(?s:.*)-", ".+b"} {
		for _, r2 := range []string{"-", "b", "a", "^-", "b$", ".", "a-"} {
			add("leading wildcard then c>c", ref.Then(ref.A(dataAtom("cdata", "", r1)), ref.A(dataAtom("cdata", "", r2))))
			add("leading wildcard then c>s", ref.Then(ref.A(dataAtom("cdata", "", r1)), ref.A(dataAtom("sdata", "", r2))))
			add("leading wildcard then s>c (conv1)", ref.Then(ref.A(dataAtom("sdata", "conv1", r1)), ref.A(dataAtom("cdata", "conv1", r2))))
		}
	}
	for _, cap := range []string{".*(?P<v>[ab])", "(?s).*-(?P<v>.)", ".*?(?P<v>[ab-])", ".*a(?P<v>[ab-]?)"} {
		for _, use := range []string{"@v@", "^@v@", "@v@$", "-@v@"} {
			for _, k2 := range []string{"cdata", "sdata"} {
				add("leading wildcard capture then variable", ref.Then(ref.A(dataAtom("cdata", "", cap)), ref.A(varAtom(k2, use))))
			}
		}
	}
	// captures reused by a later element
	for _, cap := range []string{"(?P<v>a)", "(?P<v>[ab])", "(?P<v>.)b", "(?P<v>a|ab)", "(?P<v>[ab]+)", "-(?P<v>.)"} {
		for _, use := range []string{"@v@", "@v@b", "b@v@", "^@v@", "@v@$", "@v@@v@"} {
			for _, k2 := range []string{"cdata", "sdata"} {
				add("capture then variable", ref.Then(ref.A(dataAtom("cdata", "", cap)), ref.A(varAtom(k2, use))))
				add("capture (server) then variable", ref.Then(ref.A(dataAtom("sdata", "", cap)), ref.A(varAtom(k2, use))))
			}
		}
	}
	return out, counts
}

func Run(tier string) int {
	rep := mc.NewReporter("C04", tier, "model_checking")
	rep.Driver = "c04"
	ref.InternFiles("c04.pcap")
	dir, err := os.MkdirTemp("", "verif-c04-")
	if err != nil {
		mc.Fatal("%v", err)
	}
	defer os.RemoveAll(dir)
	budget := 100 * time.Second
	words := []string{"a", "b", "-", "ab", "ba", "a-", "aa"}
	if tier == "thorough" {
		budget = 14 * time.Minute
		words = []string{"a", "b", "-", "ab", "ba", "a-", "-b", "aa", "A"}
	}
	deadline := time.Now().Add(budget)
	lay := layouts(words, 3)
	w := buildWorld(dir, lay, false)
	defer w.reader.Close()
	queries, famCounts := buildQueries(tier)
	var evals, streamEvals, nontrivial int64
	var timedOut int32
	var mu sync.Mutex
	outcomes := map[int]int{}
	var samples []string
	mc.ParFor(len(queries), func(qi int) {
		if atomic.LoadInt32(&timedOut) != 0 {
			return
		}
		if qi%8 == 0 && time.Now().After(deadline) {
			atomic.StoreInt32(&timedOut, 1)
			return
		}
		qc := queries[qi]
		bad := func(sym, key, f string, a ...any) {
			rep.Report(mc.Violation{Symptom: sym, Key: key, Msg: fmt.Sprintf("query %s: ", qc.text) + fmt.Sprintf(f, a...), Replay: map[string]any{"query": qc.text, "family": qc.fam}})
		}
		q, err := query.Parse(qc.text)
		if err != nil {
			bad("parse.error", qc.text, "%v", err)
			return
		}
		res := map[string]*binaryregexp.Regexp{}
		want := map[uint64]bool{}
		for id, r := range w.recs {
			if qc.node.Eval(r, res) {
				want[uint64(id)] = true
			}
		}
		got := map[uint64]bool{}
		if q.Conditions != nil {
			var streams []*index.Stream
			if pt := mc.Try(func() {
				streams, _, _, err = index.SearchStreams(context.Background(), []*index.Reader{w.reader}, nil, q.ReferenceTime, q.Conditions, nil, []query.Sorting{{Key: query.SortingKeyID}}, 0, 0, nil, w.convs, false)
			}); pt != "" {
				bad("search.panic", qc.text, "%s", pt)
				return
			}
			if err != nil {
				bad("search.error", qc.text, "%v", err)
				return
			}
			for _, s := range streams {
				got[s.ID()] = true
			}
		}
		var missing, extra []uint64
		for id := range want {
			if !got[id] {
				missing = append(missing, id)
			}
		}
		for id := range got {
			if !want[id] {
				extra = append(extra, id)
			}
		}
		sort.Slice(missing, func(i, j int) bool { return missing[i] < missing[j] })
		sort.Slice(extra, func(i, j int) bool { return extra[i] < extra[j] })
		if len(missing) != 0 {
			id := missing[0]
			bad("data.not-selected", qc.text, "%d streams the naive scan selects are not returned, e.g. stream %d %s (representations %s)", len(missing), id, descChunks(lay[id]), descReps(w.recs[id]))
		}
		if len(extra) != 0 {
			id := extra[0]
			bad("data.wrongly-selected", qc.text, "%d streams are returned that the naive scan rejects, e.g. stream %d %s (representations %s)", len(extra), id, descChunks(lay[id]), descReps(w.recs[id]))
		}
		atomic.AddInt64(&evals, 1)
		atomic.AddInt64(&streamEvals, int64(len(w.recs)))
		if len(want) != 0 && len(want) != len(w.recs) {
			atomic.AddInt64(&nontrivial, 1)
		}
		mu.Lock()
		outcomes[len(want)]++
		if len(samples) < 8 && qi%(len(queries)/8+1) == 0 {
			samples = append(samples, fmt.Sprintf("%s selects %d of %d payload layouts", qc.text, len(want), len(w.recs)))
		}
		mu.Unlock()
	}, func(i int, text string) {
		rep.Report(mc.Violation{Symptom: "panic", Key: queries[i].text, Msg: queries[i].text + ": " + text})
	})
	subCases := subQueryCaptures(rep, w, &evals, &nontrivial)
	cv := rep.Coverage
	cv["sub_query_capture_cases"] = subCases
	cv["sub_query_capture_rule"] = "@sub:cdata.R:\"capture\" [-]cdata.R:\"...@sub:v@...\" for R in {none, conv1}: a stream is selected iff SOME stream whose client data (in R) matches the capture expression yields a value v (group of the leftmost-first match) for which the plain scan of the stream's client data finds (negated: does not find) the expression with v substituted as literal text"
	cv["evaluations"] = evals
	cv["distinct_nontrivial"] = nontrivial
	cv["states"] = evals
	cv["transitions"] = streamEvals
	cv["traces_validated_against_impl"] = evals
	cv["rule"] = "every query of the listed families (every regex AST up to the stated size, pairs and triples over a reduced regex set chained with THEN / AND, negations, captures reused as variables, converter selectors) is run through index.SearchStreams on one index that holds every payload layout (every sequence of <=3 chunks, each a direction and one of the words; a third of the streams with one, a sixth with a second cached converter output) and compared stream by stream with a naive regexp scan; non-trivial = the filter selects a proper non-empty subset of the layouts"
	cv["queries"] = len(queries)
	cv["query_families"] = famCounts
	cv["payload_layouts"] = len(lay)
	cv["words"] = words
	cv["stream_evaluations"] = streamEvals
	cv["distinct_outcomes"] = len(outcomes)
	cv["samples"] = samples
	cv["exhaustive"] = timedOut == 0
	if timedOut != 0 {
		cv["caps_hit"] = []string{"deadline"}
	}
	rep.Assumptions = []string{
		"naive scan: each element is searched leftmost-first on the untrimmed remaining bytes of its direction; a match hides, for the other direction, everything up to and including the chunk that holds the last matched byte; a positive filter holds iff some searched representation has it, a negated one iff none has",
		"negated sequences are only enumerated on the raw representation (.none): their meaning over several representations is the recorded finding KF-C02-3",
		"rsc.io/binaryregexp is the trusted matcher",
	}
	if len(outcomes) < 5 {
		mc.Fatal("vacuous: %d outcomes", len(outcomes))
	}
	return rep.Finish()
}

func descChunks(c []ref.Chunk) string {
	s := ""
	for _, x := range c {
		s += fmt.Sprintf("%c%q", "CS"[x.Dir], x.Data)
	}
	if s == "" {
		return "(empty)"
	}
	return s
}

func descReps(r *ref.Rec) string {
	var k []string
	for n, c := range r.Reps {
		if n == "" {
			n = "raw"
		}
		k = append(k, n+"="+descChunks(c))
	}
	sort.Strings(k)
	return strings.Join(k, " ")
}


// subQueryCaptures: data filters whose expression takes a value captured in a sub-query, plain and negated, each on
// one representation.  The meaning is existential over the streams of the sub-query (the one the in-app help gives
// for variables of sub-queries): see the rule text in the evidence.
func subQueryCaptures(rep *mc.Reporter, w *world, evals, nontrivial *int64) int {
	clientBuf := func(r *ref.Rec, conv string) ([]byte, bool) {
		key := conv
		if conv == "none" {
			key = ""
		}
		ch, ok := r.Reps[key]
		if !ok {
			return nil, false
		}
		var b []byte
		for _, c := range ch {
			if c.Dir == ref.DirC2S {
				b = append(b, c.Data...)
			}
		}
		return b, true
	}
	n := 0
	for _, conv := range []string{"none", "conv1"} {
		for _, capRe := range []string{"^(?P<v>ab|ba)$", "^(?P<v>a.)", "(?P<v>-[ab])", "^(?P<v>a-?)$"} {
			cre := binaryregexp.MustCompile(capRe)
			values := map[string]bool{}
			for _, r := range w.recs {
				b, ok := clientBuf(r, conv)
				if !ok {
					continue
				}
				if loc := cre.FindSubmatchIndex(b); loc != nil && loc[2] >= 0 {
					values[string(b[loc[2]:loc[3]])] = true
				}
			}
			for _, use := range []string{"@sub:v@", "^@sub:v@", "@sub:v@$", "a@sub:v@", "^@sub:v@$"} {
				for _, neg := range []string{"", "-"} {
					n++
					text := fmt.Sprintf("@sub:cdata.%s:%s %scdata.%s:\"%s\"", conv, quote(capRe), neg, conv, use)
					bad := func(sym, f string, a ...any) {
						rep.Report(mc.Violation{Symptom: sym, Key: text, Msg: fmt.Sprintf("query %s: ", text) + fmt.Sprintf(f, a...), Replay: map[string]any{"query": text, "family": "sub-query captures"}})
					}
					q, err := query.Parse(text)
					if err != nil {
						bad("parse.error", "%v", err)
						continue
					}
					var res []*binaryregexp.Regexp
					for v := range values {
						res = append(res, binaryregexp.MustCompile(strings.ReplaceAll(use, "@sub:v@", "(?:"+binaryregexp.QuoteMeta(v)+")")))
					}
					want := map[uint64]bool{}
					for id, r := range w.recs {
						b, ok := clientBuf(r, conv)
						if !ok {
							continue // no such representation: neither the filter nor its negation can be judged on it
						}
						for _, re := range res {
							if re.Match(b) != (neg == "-") {
								want[uint64(id)] = true
								break
							}
						}
					}
					got := map[uint64]bool{}
					var streams []*index.Stream
					if pt := mc.Try(func() {
						streams, _, _, err = index.SearchStreams(context.Background(), []*index.Reader{w.reader}, nil, q.ReferenceTime, q.Conditions, nil, []query.Sorting{{Key: query.SortingKeyID}}, 0, 0, nil, w.convs, false)
					}); pt != "" {
						bad("search.panic", "%s", pt)
						continue
					}
					if err != nil {
						bad("search.error", "%v", err)
						continue
					}
					for _, st := range streams {
						got[st.ID()] = true
					}
					var missing, extra []uint64
					for id := range want {
						if !got[id] {
							missing = append(missing, id)
						}
					}
					for id := range got {
						if !want[id] {
							// a stream without the representation: what a negated filter says about it is not claimed
							if _, ok := clientBuf(w.recs[id], conv); !ok {
								continue
							}
							extra = append(extra, id)
						}
					}
					sort.Slice(missing, func(i, j int) bool { return missing[i] < missing[j] })
					sort.Slice(extra, func(i, j int) bool { return extra[i] < extra[j] })
					var vs []string
					for v := range values {
						vs = append(vs, v)
					}
					sort.Strings(vs)
					if len(missing) != 0 {
						bad("data.not-selected", "the sub-query yields the values %q; %d streams that the plain scan selects are not returned, e.g. stream %d (representations %s)", vs, len(missing), missing[0], descReps(w.recs[missing[0]]))
					}
					if len(extra) != 0 {
						bad("data.wrongly-selected", "the sub-query yields the values %q; %d streams are returned that the plain scan rejects, e.g. stream %d (representations %s)", vs, len(extra), extra[0], descReps(w.recs[extra[0]]))
					}
					atomic.AddInt64(evals, 1)
					if len(want) != 0 && len(want) != len(w.recs) {
						atomic.AddInt64(nontrivial, 1)
					}
				}
			}
		}
	}
	return n
}
