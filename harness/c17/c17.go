// Package c17: the three bitmask containers against a plain integer-set model, explored by
// breadth-first search over operation sequences on two registers.
package c17

import (
	"fmt"
	"sort"
	"strings"
	"time"

	"github.com/spq/pkappa2/internal/tools/bitmask"
	"github.com/spq/pkappa2/verifx/mc"
)

const observeUpTo = 210

type set map[uint]bool

func (s set) copy() set {
	r := set{}
	for k := range s {
		r[k] = true
	}
	return r
}
func (s set) sorted() []uint {
	r := make([]uint, 0, len(s))
	for k := range s {
		r = append(r, k)
	}
	sort.Slice(r, func(i, j int) bool { return r[i] < r[j] })
	return r
}
func (s set) String() string { return fmt.Sprint(s.sorted()) }
func (s set) equal(o set) bool {
	if len(s) != len(o) {
		return false
	}
	for k := range s {
		if !o[k] {
			return false
		}
	}
	return true
}
func (s set) length() int {
	l := 0
	for k := range s {
		if int(k)+1 > l {
			l = int(k) + 1
		}
	}
	return l
}
func (s set) inject(p uint, v bool) set {
	r := set{}
	for k := range s {
		if k >= p {
			r[k+1] = true
		} else {
			r[k] = true
		}
	}
	if v {
		r[p] = true
	}
	return r
}
func (s set) extract(p uint) (set, bool) {
	r := set{}
	for k := range s {
		if k > p {
			r[k-1] = true
		} else if k < p {
			r[k] = true
		}
	}
	return r, s[p]
}

type reg struct {
	m set
	l bitmask.LongBitmask
	s bitmask.ShortBitmask
	c bitmask.ConnectedBitmask
}

type world struct {
	preDesc string
	r   [2]reg
	ops []op
}

type op struct {
	name string
	kind string
	pos  uint
	val  bool
}

func buildOps(positions []uint) []op {
	var ops []op
	for _, k := range []string{"set", "unset", "flip", "inject1", "inject0", "extract"} {
		for _, p := range positions {
			ops = append(ops, op{name: fmt.Sprintf("A.%s(%d)", k, p), kind: k, pos: p})
		}
	}
	for _, k := range []string{"or", "and", "xor", "sub", "orcopy", "andcopy", "xorcopy", "subcopy", "copyAB", "swap", "shrink", "copyself"} {
		ops = append(ops, op{name: "A." + k, kind: k})
	}
	return ops
}

func (w *world) Enabled(o int) bool { return true }
func (w *world) Close()             {}

func (w *world) Apply(oi int) []mc.Violation {
	o := w.ops[oi]
	a, b := &w.r[0], &w.r[1]
	var viol []mc.Violation
	bad := func(sym, format string, args ...any) {
		viol = append(viol, mc.Violation{Symptom: sym, Key: o.name + " pre:" + w.preDesc, Msg: fmt.Sprintf(format, args...)})
	}
	w.preDesc = fmt.Sprintf("A=%v/%s B=%v/%s", a.m, mc.Dump(a.c), b.m, mc.Dump(b.c))
	bBefore := mc.Dump(b.l) + mc.Dump(b.s) + mc.Dump(b.c)
	checkB := true
	switch o.kind {
	case "set":
		a.m[o.pos] = true
		a.l.Set(o.pos)
		a.s.Set(o.pos)
		a.c.Set(o.pos)
	case "unset":
		delete(a.m, o.pos)
		a.l.Unset(o.pos)
		a.s.Unset(o.pos)
		a.c.Unset(o.pos)
	case "flip":
		if a.m[o.pos] {
			delete(a.m, o.pos)
		} else {
			a.m[o.pos] = true
		}
		a.l.Flip(o.pos)
		a.s.Flip(o.pos)
		a.c.Flip(o.pos)
	case "inject1", "inject0":
		v := o.kind == "inject1"
		a.m = a.m.inject(o.pos, v)
		a.l.Inject(o.pos, v)
		a.s.Inject(o.pos, v)
		a.c.Inject(o.pos, v)
	case "extract":
		var want bool
		a.m, want = a.m.extract(o.pos)
		if got := a.s.Extract(o.pos); got != want {
			bad("short.extract.result", "ShortBitmask.Extract(%d) returned %v, model %v", o.pos, got, want)
		}
		if got := a.c.Extract(o.pos); got != want {
			bad("connected.extract.result", "ConnectedBitmask.Extract(%d) returned %v, model %v", o.pos, got, want)
		}
		// LongBitmask has no Extract: rebuild it from the model
		a.l = bitmask.LongBitmask{}
		for _, k := range a.m.sorted() {
			a.l.Set(k)
		}
	case "or", "and", "xor", "sub":
		switch o.kind {
		case "or":
			for k := range b.m {
				a.m[k] = true
			}
			a.l.Or(b.l)
			a.s.Or(b.s)
			a.c.Or(b.c)
		case "and":
			for k := range a.m {
				if !b.m[k] {
					delete(a.m, k)
				}
			}
			a.l.And(b.l)
			a.s.And(b.s)
			a.c.And(b.c)
		case "xor":
			n := a.m.copy()
			for k := range b.m {
				if n[k] {
					delete(n, k)
				} else {
					n[k] = true
				}
			}
			a.m = n
			a.l.Xor(b.l)
			a.s.Xor(b.s)
			a.c.Xor(b.c)
		case "sub":
			for k := range b.m {
				delete(a.m, k)
			}
			a.l.Sub(b.l)
			a.s.Sub(b.s)
			a.c.Sub(b.c)
		}
	case "orcopy", "andcopy", "xorcopy", "subcopy":
		aBefore := mc.Dump(a.l) + mc.Dump(a.s) + mc.Dump(a.c)
		n := a.m.copy()
		var l bitmask.LongBitmask
		var s bitmask.ShortBitmask
		var c bitmask.ConnectedBitmask
		switch o.kind {
		case "orcopy":
			for k := range b.m {
				n[k] = true
			}
			l, s, c = a.l.OrCopy(b.l), a.s.OrCopy(b.s), a.c.OrCopy(b.c)
		case "andcopy":
			for k := range a.m {
				if !b.m[k] {
					delete(n, k)
				}
			}
			l, s, c = a.l.AndCopy(b.l), a.s.AndCopy(b.s), a.c.AndCopy(b.c)
		case "xorcopy":
			for k := range b.m {
				if n[k] {
					delete(n, k)
				} else {
					n[k] = true
				}
			}
			l, s, c = a.l.XorCopy(b.l), a.s.XorCopy(b.s), a.c.XorCopy(b.c)
		case "subcopy":
			for k := range b.m {
				delete(n, k)
			}
			l, s, c = a.l.SubCopy(b.l), a.s.SubCopy(b.s), a.c.SubCopy(b.c)
		}
		if aAfter := mc.Dump(a.l) + mc.Dump(a.s) + mc.Dump(a.c); aAfter != aBefore {
			bad("copyop.modified-receiver", "%s changed its receiver: %s -> %s", o.kind, aBefore, aAfter)
		}
		// independence of the result from its operands: scribble on the result, operands must not move
		probe := func() string { return mc.Dump(a.l) + mc.Dump(a.s) + mc.Dump(a.c) + mc.Dump(b.l) + mc.Dump(b.s) + mc.Dump(b.c) }
		before := probe()
		l2, s2, c2 := l.Copy(), s.Copy(), c.Copy()
		for _, p := range []uint{0, 1, 63, 64, 130} {
			l.Flip(p)
			s.Flip(p)
			c.Flip(p)
		}
		if after := probe(); after != before {
			bad("copyop.aliased", "result of %s shares storage with an operand: operands changed from %s to %s after flipping bits of the result", o.kind, before, after)
		}
		a.m, a.l, a.s, a.c = n, l2, s2, c2
	case "copyAB":
		b.m, b.l, b.s, b.c = a.m.copy(), a.l.Copy(), a.s.Copy(), a.c.Copy()
		checkB = false
	case "copyself":
		// Copy must be independent of the source
		l, s, c := a.l.Copy(), a.s.Copy(), a.c.Copy()
		before := mc.Dump(a.l) + mc.Dump(a.s) + mc.Dump(a.c)
		for _, p := range []uint{0, 1, 63, 64, 130} {
			l.Flip(p)
			s.Flip(p)
			c.Flip(p)
		}
		if after := mc.Dump(a.l) + mc.Dump(a.s) + mc.Dump(a.c); after != before {
			bad("copy.aliased", "Copy shares storage with its source")
		}
	case "swap":
		*a, *b = *b, *a
		checkB = false
	case "shrink":
		a.l.Shrink()
		a.s.Shrink()
	}
	if checkB {
		if bAfter := mc.Dump(b.l) + mc.Dump(b.s) + mc.Dump(b.c); bAfter != bBefore {
			bad("operand.modified", "%s changed the other operand: %s -> %s", o.name, bBefore, bAfter)
		}
	}
	w.observe(bad)
	return viol
}

func (w *world) observe(bad func(sym, format string, args ...any)) {
	for ri, name := range []string{"A", "B"} {
		r := &w.r[ri]
		type impl struct {
			n                string
			isSet            func(uint) bool
			ones, length     func() int
			zero             func() bool
		}
		impls := []impl{
			{"long", r.l.IsSet, r.l.OnesCount, r.l.Len, r.l.IsZero},
			{"short", r.s.IsSet, r.s.OnesCount, r.s.Len, r.s.IsZero},
			{"connected", r.c.IsSet, r.c.OnesCount, r.c.Len, r.c.IsZero},
		}
		for _, im := range impls {
			for p := uint(0); p < observeUpTo; p++ {
				if got := im.isSet(p); got != r.m[p] {
					bad(im.n+".isset", "%s.%s.IsSet(%d)=%v, model set %v (representation %s)", name, im.n, p, got, r.m, w.repr(r, im.n))
					break
				}
			}
			if got := im.ones(); got != len(r.m) {
				bad(im.n+".onescount", "%s.%s.OnesCount()=%d, model %d %v (representation %s)", name, im.n, got, len(r.m), r.m, w.repr(r, im.n))
			}
			if got := im.length(); got != r.m.length() {
				bad(im.n+".len", "%s.%s.Len()=%d, model %d %v (representation %s)", name, im.n, got, r.m.length(), r.m, w.repr(r, im.n))
			}
			if got := im.zero(); got != (len(r.m) == 0) {
				bad(im.n+".iszero", "%s.%s.IsZero()=%v, model %v (representation %s)", name, im.n, got, r.m, w.repr(r, im.n))
			}
		}
		// Next from every position
		sorted := r.m.sorted()
		for p := uint(0); p < observeUpTo; p++ {
			q := p
			ok := r.l.Next(&q)
			i := sort.Search(len(sorted), func(i int) bool { return sorted[i] >= p })
			if i == len(sorted) {
				if ok {
					bad("long.next", "%s.long.Next(%d) found %d, model has nothing at or above", name, p, q)
					break
				}
			} else if !ok || q != sorted[i] {
				bad("long.next", "%s.long.Next(%d)=(%v,%d), model next is %d", name, p, ok, q, sorted[i])
				break
			}
		}
	}
	a, b := &w.r[0], &w.r[1]
	want := a.m.equal(b.m)
	if got := a.l.Equal(b.l); got != want {
		bad("long.equal", "long.Equal=%v for A=%v B=%v (representations %s / %s)", got, a.m, b.m, mc.Dump(a.l), mc.Dump(b.l))
	}
	if got := a.s.Equal(b.s); got != want {
		bad("short.equal", "short.Equal=%v for A=%v B=%v (representations %s / %s)", got, a.m, b.m, mc.Dump(a.s), mc.Dump(b.s))
	}
	if got := a.c.Equal(b.c); got != want {
		bad("connected.equal", "connected.Equal=%v for A=%v B=%v (representations %s / %s)", got, a.m, b.m, mc.Dump(a.c), mc.Dump(b.c))
	}
	if got := b.l.Equal(a.l); got != want {
		bad("long.equal", "long.Equal (B,A)=%v for A=%v B=%v", got, a.m, b.m)
	}
	if got := b.s.Equal(a.s); got != want {
		bad("short.equal", "short.Equal (B,A)=%v for A=%v B=%v (representations %s / %s)", got, a.m, b.m, mc.Dump(a.s), mc.Dump(b.s))
	}
}

func (w *world) repr(r *reg, n string) string {
	switch n {
	case "long":
		return mc.Dump(r.l)
	case "short":
		return mc.Dump(r.s)
	}
	return mc.Dump(r.c)
}

func (w *world) Canon() string {
	var sb strings.Builder
	for i := range w.r {
		r := &w.r[i]
		sb.WriteString(mc.Dump(r.l))
		sb.WriteString(mc.Dump(r.s))
		sb.WriteString(mc.Dump(r.c))
		sb.WriteString("|")
	}
	return sb.String()
}

func (w *world) Outcome() string { return w.r[0].m.String() + w.r[1].m.String() }

func Run(tier string) int {
	rep := mc.NewReporter("C17", tier, "model_checking")
	rep.Driver = "c17"
	positions := []uint{0, 1, 63, 64, 65, 128}
	depth := 5
	budget := 60 * time.Second
	if tier == "thorough" {
		positions = []uint{0, 1, 2, 62, 63, 64, 65, 127, 128, 129}
		depth = 5
		budget = 12 * time.Minute
	}
	ops := buildOps(positions)
	spec := mc.Spec{
		New: func() mc.World {
			return &world{r: [2]reg{{m: set{}}, {m: set{}}}, ops: ops}
		},
		NumOps: len(ops),
		OpName: func(o int) string { return ops[o].name },
		NonTrivial: func(p []int) bool {
			// non-trivial: a binary operation or inject/extract is applied when both registers were written before
			wroteB, bin := false, false
			for _, o := range p {
				switch ops[o].kind {
				case "copyAB", "swap":
					wroteB = true
				case "or", "and", "xor", "sub", "orcopy", "andcopy", "xorcopy", "subcopy", "inject0", "inject1", "extract":
					if wroteB {
						bin = true
					}
				}
			}
			return bin
		},
	}
	st := mc.BFS(spec, depth, 0, time.Now().Add(budget), rep)
	st.FillCoverage(rep.Coverage, "BFS over operation sequences on two registers held in all three representations plus a map model; "+
		"a state is the tuple of the six internal representations (read by reflection); non-trivial = a binary op, inject or extract applied after register B was written")
	rep.Coverage["positions"] = positions
	rep.Coverage["ops"] = len(ops)
	rep.Coverage["depth_bound"] = depth
	rep.Assumptions = []string{"LongBitmask has no Extract: after an extract the long register is rebuilt from the model",
		"observers: IsSet on 0..209, OnesCount, Len, IsZero, Next from 0..209, Equal both ways, operand immutability and result independence"}
	if st.States < 50 || st.Outcomes < 10 {
		mc.Fatal("vacuous exploration: states=%d outcomes=%d", st.States, st.Outcomes)
	}
	return rep.Finish()
}
