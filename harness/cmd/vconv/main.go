// vconv is the deterministic converter the harness supplies to the service: for every stream it
// outputs one client chunk with the upper-cased client payload and one server chunk with the
// decimal byte count of the server payload (a pure function of the payload, see svc.ConvExpected).
package main

import (
	"bufio"
	"encoding/base64"
	"encoding/json"
	"fmt"
	"os"
	"path/filepath"
	"runtime"
	"strings"
)

type chunk struct {
	Direction   string
	Content     string
	Time        string
	ContentType string `json:",omitempty"`
}

func main() {
	// thousands of these processes can be alive at once under the checker: one scheduler thread each is enough
	runtime.GOMAXPROCS(1)
	in := bufio.NewReaderSize(os.Stdin, 1<<20)
	out := bufio.NewWriter(os.Stdout)
	if f := os.Getenv("VCONV_COUNT_FILE"); f != "" {
		defer func() {}()
	}
	for {
		meta, err := in.ReadString('\n')
		if err != nil {
			return
		}
		var c, s []byte
		t := "2020-01-01T00:00:00"
		for {
			line, err := in.ReadString('\n')
			if err != nil {
				return
			}
			if line == "\n" {
				break
			}
			var ch chunk
			if err := json.Unmarshal([]byte(line), &ch); err != nil {
				fmt.Fprintln(os.Stderr, "bad chunk:", err)
				os.Exit(1)
			}
			b, _ := base64.StdEncoding.DecodeString(ch.Content)
			if ch.Direction == "client-to-server" {
				c = append(c, b...)
			} else {
				s = append(s, b...)
			}
			t = ch.Time
		}
		// invocation log for the harness (append-only, one line per conversion)
		if f := os.Getenv("VCONV_LOG"); f != "" {
			if lf, err := os.OpenFile(f, os.O_APPEND|os.O_CREATE|os.O_WRONLY, 0o644); err == nil {
				fmt.Fprintf(lf, "%s", meta)
				lf.Close()
			}
		}
		// installed under a name that starts with "convflaky" the converter dies the first time it is handed a stream (once per
		// stream; the marker lives next to the converter directory, which belongs to one service instance)
		if base := filepath.Base(os.Args[0]); strings.HasPrefix(base, "convflaky") {
			var m struct{ StreamID uint64 }
			json.Unmarshal([]byte(meta), &m)
			marker := filepath.Join(filepath.Dir(filepath.Dir(os.Args[0])), fmt.Sprintf("%s-died-on-%d", base, m.StreamID))
			if _, err := os.Stat(marker); err != nil {
				os.WriteFile(marker, nil, 0o644)
				fmt.Fprintf(os.Stderr, "dying once on %s", meta)
				os.Exit(3)
			}
		}
		// installed under a name that starts with "convoddtime" the converter answers the first request for every stream
		// with a chunk whose time the service cannot read, followed by more chunk lines than any stream of the harness
		// has packets; it then goes on as if nothing had happened (the service has to stop this process - whatever
		// it has not read of this answer must not be taken for the answer to the next request)
		if base := filepath.Base(os.Args[0]); strings.HasPrefix(base, "convoddtime") {
			var m struct{ StreamID uint64 }
			json.Unmarshal([]byte(meta), &m)
			marker := filepath.Join(filepath.Dir(filepath.Dir(os.Args[0])), fmt.Sprintf("%s-oddtime-on-%d", base, m.StreamID))
			if _, err := os.Stat(marker); err != nil {
				os.WriteFile(marker, nil, 0o644)
				out.WriteString("{\"Direction\":\"client-to-server\",\"Content\":\"b2Rk\",\"Time\":\"2020-01-01T12:00:01.5+00:00\"}\n")
				for i := 0; i < 12; i++ {
					out.WriteString("{\"Direction\":\"client-to-server\",\"Content\":\"bGVmdG92ZXI=\",\"Time\":\"2020-01-01T00:00:00\"}\n")
				}
				out.WriteString("\n")
				out.WriteString(strings.TrimRight(meta, "\n"))
				out.WriteByte('\n')
				out.Flush()
				continue
			}
		}
		// failure modes for the race pass: the process dies / breaks the protocol on a stream whose
		// upper-cased client payload contains the given text
		if v := os.Getenv("VCONV_DIE_ON"); v != "" && strings.Contains(strings.ToUpper(string(c)), v) {
			fmt.Fprintf(os.Stderr, "dying on %s", meta)
			os.Exit(3)
		}
		if v := os.Getenv("VCONV_BAD_ON"); v != "" && strings.Contains(strings.ToUpper(string(c)), v) {
			fmt.Fprintf(os.Stderr, "breaking the protocol on %s", meta)
			out.WriteString("{\"Direction\":\"sideways\",\"Content\":\"\",\"Time\":\"2020-01-01T00:00:00\"}\n\n")
			out.WriteString(strings.TrimRight(meta, "\n"))
			out.WriteByte('\n')
			out.Flush()
			continue
		}
		// the race pass wants the service's stderr reader goroutine to be busy
		if os.Getenv("VCONV_STDERR") != "" {
			fmt.Fprintf(os.Stderr, "converted %s", meta)
		}
		// ... and with "loud" to have produced far more than any line buffer holds (150 lines of 800 bytes per
		// stream, one write each), so that lines the service keeps are older than what its reader's buffer holds now
		if os.Getenv("VCONV_STDERR") == "loud" {
			for i := 0; i < 150; i++ {
				fmt.Fprintf(os.Stderr, "debug %04d %s\n", i, strings.Repeat("x", 780))
			}
		}
		// the executable can be "replaced by another one": a generation number next to the converter directory is
		// part of what it outputs (read per stream, the harness writes the file when it replaces the executable)
		gen := ""
		if b, err := os.ReadFile(filepath.Join(filepath.Dir(filepath.Dir(os.Args[0])), filepath.Base(os.Args[0])+".gen")); err == nil {
			gen = "#" + strings.TrimSpace(string(b))
		}
		for _, ch := range []chunk{
			{Direction: "client-to-server", Content: base64.StdEncoding.EncodeToString([]byte(strings.ToUpper(string(c)) + gen)), Time: t},
			{Direction: "server-to-client", Content: base64.StdEncoding.EncodeToString([]byte(fmt.Sprint(len(s)))), Time: t},
		} {
			b, _ := json.Marshal(ch)
			out.Write(b)
			out.WriteByte('\n')
		}
		out.WriteByte('\n')
		out.WriteString(strings.TrimRight(meta, "\n"))
		out.WriteByte('\n')
		out.Flush()
	}
}
