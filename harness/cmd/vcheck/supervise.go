package main

import (
	"bytes"
	"fmt"
	"io"
	"os"
	"os/exec"
	"regexp"
	"strings"
	"sync"

	"github.com/spq/pkappa2/verifx/mc"
)

// The drivers run the code under test inside this process.  A panic or a fatal runtime error in a
// goroutine of the code under test (the service loop, a background job) ends the process before
// any verdict is written.  The check therefore runs in a child; when the child is ended by the Go
// runtime and the failing goroutine was executing repository code, the parent reports it as a
// violation of the property being checked (no property holds for a history on which the process
// dies), with the crash text as replay.  "harness error" exits and everything else stay exit 2.

type tailBuf struct {
	mu  sync.Mutex
	buf []byte
	max int
}

func (t *tailBuf) Write(p []byte) (int, error) {
	t.mu.Lock()
	defer t.mu.Unlock()
	t.buf = append(t.buf, p...)
	if len(t.buf) > 2*t.max {
		t.buf = append([]byte(nil), t.buf[len(t.buf)-t.max:]...)
	}
	return len(p), nil
}

var (
	reCrash = regexp.MustCompile(`(?m)^(panic: .*|fatal error: .*)$`)
)

func supervise(prop, tier string) int {
	cmd := exec.Command(os.Args[0], os.Args[1:]...)
	cmd.Env = append(os.Environ(), "VERIF_SUPERVISED=1")
	cmd.Stdin = nil
	cmd.Stdout = os.Stdout
	tb := &tailBuf{max: 4 << 20}
	cmd.Stderr = io.MultiWriter(os.Stderr, tb)
	err := cmd.Run()
	if err == nil {
		return 0
	}
	ee, ok := err.(*exec.ExitError)
	if !ok {
		fmt.Fprintf(os.Stderr, "harness error: %v\n", err)
		return 2
	}
	code := ee.ExitCode()
	if code == 1 {
		return 1
	}
	out := tb.buf
	loc := reCrash.FindIndex(out)
	if loc == nil || bytes.Contains(out, []byte("harness error:")) {
		if code < 0 {
			fmt.Fprintf(os.Stderr, "harness error: checker ended by %v\n", ee)
			return 2
		}
		return code
	}
	crash := string(out[loc[0]:])
	msg := string(out[loc[0]:loc[1]])
	// the failing goroutine is the first one printed after the message
	first := crash
	if i := strings.Index(crash, "\n\ngoroutine "); i >= 0 {
		if j := strings.Index(crash[i+2:], "\n\n"); j >= 0 {
			first = crash[:i+2+j]
		}
	}
	// the first frame of the failing goroutine whose source lies in the repository (inlining can give
	// it the name of a harness function, the file tells)
	where := ""
	lines := strings.Split(first, "\n")
	for i, l := range lines {
		if strings.HasPrefix(l, "\t"+mc.RepoDir+"/") && !strings.Contains(l, "/verif_") && i > 0 {
			file := strings.TrimPrefix(strings.Fields(l)[0], mc.RepoDir+"/")
			if k := strings.LastIndex(file, ":"); k >= 0 {
				file = file[:k]
			}
			fn := lines[i-1]
			if k := strings.LastIndex(fn, "("); k >= 0 {
				fn = fn[:k]
			}
			if k := strings.LastIndex(fn, "/"); k >= 0 {
				fn = fn[k+1:]
			}
			where = file + " " + fn
			break
		}
	}
	if where == "" {
		// not in repository code: a harness or runtime problem
		return 2
	}
	if len(crash) > 6000 {
		crash = crash[:6000]
	}
	// addresses and temporary names vary from run to run
	key := regexp.MustCompile(`0x[0-9a-f]+|verif-[a-z0-9-]+|\d{4}-\d{2}-\d{2}_\d+\.\d+\.\d+`).ReplaceAllString(msg, "_") + " in " + where
	rep := mc.NewReporter(prop, tier, "model_checking")
	rep.Driver = "supervisor"
	rep.Coverage["exhaustive"] = false
	rep.Coverage["caps_hit"] = []string{"the checker process was ended by the Go runtime while executing repository code; the exploration did not finish"}
	rep.Coverage["states"] = 0
	rep.Coverage["transitions"] = 0
	rep.Report(mc.Violation{Symptom: "process.died", Key: key,
		Msg:    "the code under test ended the process during the exploration (every explored history is a legal use of the code): " + crash,
		Replay: map[string]any{"crash": crash, "args": os.Args[1:]}})
	return rep.Finish()
}
