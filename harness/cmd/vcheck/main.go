package main

import (
	"flag"
	"fmt"
	"io"
	"log"
	"os"
	"strings"

	"github.com/spq/pkappa2/verifx/c01"
	"github.com/spq/pkappa2/verifx/c02"
	"github.com/spq/pkappa2/verifx/c03"
	"github.com/spq/pkappa2/verifx/c07"
	"github.com/spq/pkappa2/verifx/c11"
	"github.com/spq/pkappa2/verifx/c12"
	"github.com/spq/pkappa2/verifx/c14"
	"github.com/spq/pkappa2/verifx/c04"
	"github.com/spq/pkappa2/verifx/c05"
	"github.com/spq/pkappa2/verifx/c08"
	"github.com/spq/pkappa2/verifx/c15"
	"github.com/spq/pkappa2/verifx/c17"
	"github.com/spq/pkappa2/verifx/csvc"
	"github.com/spq/pkappa2/verifx/c18"
	"github.com/spq/pkappa2/verifx/c19"
	"github.com/spq/pkappa2/verifx/c20"
)

func main() {
	prop := flag.String("prop", "", "property id")
	tier := flag.String("tier", "quick", "quick|thorough")
	c12Journal := flag.String("c12-journal", "", "internal: run a C12 history in VERIF_WORLD_DIR (under strace)")
	c20Child := flag.Int("c20-child", -1, "internal: run one C20 pair (race build)")
	svcReplay := flag.String("svc-replay", "", "scenario|event;event;... : replay one service history and print every state")
	replay := flag.String("replay", "", "replay file written with a VIOLATION line: run that one case again and print what is observed (exit 1 if it still fails)")
	flag.Parse()
	log.SetOutput(io.Discard) // the code under test logs every import/merge
	if t := os.Getenv("VERIF_TIER"); t != "" && *tier == "" {
		*tier = t
	}
	if os.Getenv("VERIF_SUPERVISED") == "" && os.Getenv("VERIF_WORKER") == "" && *c20Child < 0 && *c12Journal == "" && *svcReplay == "" && *replay == "" && *prop != "" {
		os.Exit(supervise(*prop, *tier))
	}
	if *replay != "" {
		os.Exit(replayFile(*prop, *tier, *replay))
	}
	if *c20Child >= 0 {
		os.Exit(c20.Child(*c20Child))
	}
	if *c12Journal != "" {
		os.Exit(c12.JournalChild(*c12Journal))
	}
	if *svcReplay != "" {
		sc, p, _ := strings.Cut(*svcReplay, "|")
		var path []string
		for _, e := range strings.Split(p, ";") {
			if e = strings.TrimSpace(e); e != "" {
				path = append(path, e)
			}
		}
		os.Exit(csvc.Replay(*tier, sc, path))
	}
	os.Exit(runProp(*prop, *tier))
}

func runProp(propv, tierv string) int {
	prop, tier := &propv, &tierv
	var code int
	switch *prop {
	case "C04":
		code = c04.Run(*tier)
	case "C05":
		code = c05.Run(*tier)
	case "C08":
		code = c08.Run(*tier)
	case "C15":
		code = c15.Run(*tier)
	case "C17":
		code = c17.Run(*tier)
	case "C01":
		code = c01.Run(*tier)
	case "C02":
		code = c02.Run(*tier)
	case "C03":
		code = c03.Run(*tier)
	case "C06", "C09", "C10", "C13", "C16":
		code = csvc.Run(*prop, *tier)
	case "C07":
		code = c07.Run(*tier)
	case "C11":
		code = c11.Run(*tier)
	case "C12":
		code = c12.Run(*tier)
	case "C14":
		code = c14.Run(*tier)
	case "C18":
		code = c18.Run(*tier)
	case "C19":
		code = c19.Run(*tier)
	case "C20":
		code = c20.Run(*tier)
	default:
		fmt.Fprintf(os.Stderr, "unknown property %q\n", *prop)
		code = 2
	}
	return code
}
