package main

import (
	"encoding/json"
	"fmt"
	"os"

	"github.com/spq/pkappa2/verifx/c05"
	"github.com/spq/pkappa2/verifx/c08"
)

// replayFile runs the single case recorded in a replay file (as written next to a VIOLATION line) again,
// outside the explorer, and prints what it observes.  Exit 1 if the case still fails, 0 if it passes,
// 2 if the driver has no single-case replay.
func replayFile(prop, tier, path string) int {
	b, err := os.ReadFile(path)
	if err != nil {
		fmt.Fprintln(os.Stderr, err)
		return 2
	}
	var f struct {
		Property string          `json:"property"`
		Symptom  string          `json:"symptom"`
		Key      string          `json:"key"`
		Replay   json.RawMessage `json:"replay"`
	}
	if err := json.Unmarshal(b, &f); err != nil {
		fmt.Fprintln(os.Stderr, err)
		return 2
	}
	if len(f.Replay) == 0 {
		f.Replay = b // a bare case
	}
	if prop == "" {
		prop = f.Property
	}
	fmt.Printf("replaying %s case %s\n  recorded symptom: %s\n", prop, f.Key, f.Symptom)
	switch prop {
	case "C05":
		var ic c05.ImportCase
		if err := json.Unmarshal(f.Replay, &ic); err != nil {
			fmt.Fprintln(os.Stderr, err)
			return 2
		}
		fs, canon := c05.Replay(ic)
		fmt.Printf("visible streams:\n%s\n", canon)
		for _, x := range fs {
			fmt.Printf("FINDING %s: %s\n", x.Symptom, x.Msg)
		}
		if len(fs) > 0 {
			return 1
		}
		return 0
	case "C08":
		var c c08.Case
		if err := json.Unmarshal(f.Replay, &c); err != nil {
			fmt.Fprintln(os.Stderr, err)
			return 2
		}
		fs := c08.Replay(c)
		for _, x := range fs {
			fmt.Printf("FINDING %s\n", x)
		}
		if len(fs) > 0 {
			return 1
		}
		return 0
	}
	// generic replay: the driver enumerates its tier again, only the recorded case (same key) is judged
	// and neither evidence nor replay files are written
	if f.Key == "" {
		fmt.Fprintf(os.Stderr, "replay file %s names no case\n", path)
		return 2
	}
	os.Setenv("VERIF_REPLAY_KEY", f.Key)
	os.Setenv("VERIF_SUPERVISED", "replay")
	return runProp(prop, tier)
}
