module github.com/spq/pkappa2/verifx

go 1.25.0

require (
	github.com/gopacket/gopacket v1.6.1
	github.com/spq/pkappa2 v0.0.0
	rsc.io/binaryregexp v0.2.0
)

require (
	github.com/alecthomas/participle/v2 v2.1.4 // indirect
	github.com/fsnotify/fsnotify v1.10.1 // indirect
	golang.org/x/net v0.55.0 // indirect
	golang.org/x/sys v0.46.0 // indirect
)

replace github.com/spq/pkappa2 => /repo
