module github.com/spq/pkappa2/verifx

go 1.25.0

require (
	github.com/spq/pkappa2 v0.0.0
	rsc.io/binaryregexp v0.2.0
)

replace github.com/spq/pkappa2 => /repo
