// Package c01: every list of streams (up to a bound, over a collision-forcing shape alphabet) is
// written with the real index.Writer and read back through every read path of index.Reader.
package c01

import (
	"bytes"
	"fmt"
	"net"
	"os"
	"path/filepath"
	"sort"
	"strings"
	"sync"
	"sync/atomic"
	"time"

	"github.com/spq/pkappa2/internal/index"
	"github.com/spq/pkappa2/verifx/mc"
	"github.com/spq/pkappa2/verifx/ref"
)

var base = time.Date(2020, 1, 1, 12, 0, 0, 500_000_000, time.UTC)

func ip4(a, b, c, d byte) net.IP { return net.IP{a, b, c, d} }
func ip6(last byte, k byte) net.IP {
	p := make(net.IP, 16)
	p[0], p[1], p[14], p[15] = 0xfe, 0x80, k, last
	return p
}

func fill(n int, seed byte) []byte {
	b := make([]byte, n)
	for i := range b {
		b[i] = seed + byte(i*7)
	}
	return b
}

// Shape builds the k-th stream of a list.
type Shape struct {
	Name  string
	Heavy bool // large payload / many packets: only in lists of length <= 2 in quick
	Make  func(k int) *ref.StreamSpec
}

func simplePkts(k int, file string, chunks ...ref.Chunk) []ref.PktSpec {
	var out []ref.PktSpec
	for i, c := range chunks {
		out = append(out, ref.PktSpec{Dir: c.Dir, OffsetUs: int64(i) * 1000, File: file, Index: uint64(k*1000 + i), Data: c.Data})
	}
	return out
}

func C(s string) ref.Chunk { return ref.Chunk{Dir: ref.DirC2S, Data: []byte(s)} }
func S(s string) ref.Chunk { return ref.Chunk{Dir: ref.DirS2C, Data: []byte(s)} }

func shapes() []Shape {
	A, B := ip4(10, 0, 0, 1), ip4(10, 0, 0, 2)
	start := func(k int) time.Time { return base.Add(time.Duration(k) * time.Second) }
	mk := func(name string, heavy bool, f func(k int) *ref.StreamSpec) Shape {
		return Shape{name, heavy, func(k int) *ref.StreamSpec { s := f(k); s.Name = name; return s }}
	}
	var sh []Shape
	sh = append(sh, mk("v4 a>b tcp CSC", false, func(k int) *ref.StreamSpec {
		return &ref.StreamSpec{Client: A, Server: B, CPort: 1000, SPort: 80, Start: start(k), Pkts: simplePkts(k, "f1.pcap", C("hello"), S("world"), C("!"))}
	}))
	sh = append(sh, mk("v4 b>a udp server-first", false, func(k int) *ref.StreamSpec {
		return &ref.StreamSpec{Client: B, Server: A, CPort: 53, SPort: 53, UDP: true, Start: start(k), Pkts: simplePkts(k, "f1.pcap", S("s1"), C("c1"), S("s2"))}
	}))
	sh = append(sh, mk("v4 a>a no payload", false, func(k int) *ref.StreamSpec {
		return &ref.StreamSpec{Client: A, Server: A, CPort: 1, SPort: 65535, Start: start(k), Pkts: simplePkts(k, "f1.pcap", C(""), S(""), C(""))}
	}))
	sh = append(sh, mk("v4 new hosts", false, func(k int) *ref.StreamSpec {
		return &ref.StreamSpec{Client: ip4(10, 1, byte(k), 1), Server: ip4(10, 1, byte(k), 2), CPort: 2000, SPort: 443, Start: start(k), Pkts: simplePkts(k, "f2.pcap", C("x"), S("yy"))}
	}))
	sh = append(sh, mk("v6 x>y tcp", false, func(k int) *ref.StreamSpec {
		return &ref.StreamSpec{Client: ip6(1, 0), Server: ip6(2, 0), CPort: 3000, SPort: 80, Start: start(k), Pkts: simplePkts(k, "f1.pcap", C("six"), S("6"))}
	}))
	sh = append(sh, mk("v6 new hosts udp", false, func(k int) *ref.StreamSpec {
		return &ref.StreamSpec{Client: ip6(1, byte(k+1)), Server: ip6(2, byte(k+1)), CPort: 4000, SPort: 4001, UDP: true, Start: start(k), Pkts: simplePkts(k, "f2.pcap", C("u"))}
	}))
	sh = append(sh, mk("same-direction burst <50ms", false, func(k int) *ref.StreamSpec {
		return &ref.StreamSpec{Client: A, Server: B, CPort: 1001, SPort: 80, Start: start(k), Pkts: simplePkts(k, "f1.pcap", C("a"), C("b"), C("c"), S("d"), S("e"))}
	}))
	sh = append(sh, mk("same-direction gaps >=50ms", false, func(k int) *ref.StreamSpec {
		p := simplePkts(k, "f1.pcap", C("a"), C("b"), C("c"), S("d"), S("e"), C("f"))
		for i := range p {
			p[i].OffsetUs = int64(i) * 50_000
		}
		return &ref.StreamSpec{Client: A, Server: B, CPort: 1002, SPort: 80, Start: start(k), Pkts: p}
	}))
	for _, n := range []int{65535, 65536, 70000, 131073} {
		n := n
		sh = append(sh, mk(fmt.Sprintf("chunk of %d bytes", n), true, func(k int) *ref.StreamSpec {
			return &ref.StreamSpec{Client: A, Server: B, CPort: 1003, SPort: 80, Start: start(k), Pkts: simplePkts(k, "f1.pcap", C("pre"), ref.Chunk{Dir: ref.DirS2C, Data: fill(n, byte(n))}, C("post"))}
		}))
		// the packet that is split into several records is the first / the last packet of the stream
		// (the last record of the stream is then a continuation record), or the only one
		if n == 65535 {
			continue
		}
		sh = append(sh, mk(fmt.Sprintf("chunk of %d bytes on the last packet", n), true, func(k int) *ref.StreamSpec {
			return &ref.StreamSpec{Client: A, Server: B, CPort: 1016, SPort: 80, Start: start(k), Pkts: simplePkts(k, "f1.pcap", C("pre"), S("mid"), ref.Chunk{Dir: ref.DirC2S, Data: fill(n, byte(n+1))})}
		}))
		sh = append(sh, mk(fmt.Sprintf("chunk of %d bytes on the first packet", n), true, func(k int) *ref.StreamSpec {
			return &ref.StreamSpec{Client: A, Server: B, CPort: 1017, SPort: 80, Start: start(k), Pkts: simplePkts(k, "f1.pcap", ref.Chunk{Dir: ref.DirS2C, Data: fill(n, byte(n+2))}, C("post"), S(""))}
		}))
		if n == 70000 {
			sh = append(sh, mk("chunk of 70000 bytes on the only packet", true, func(k int) *ref.StreamSpec {
				return &ref.StreamSpec{Client: A, Server: B, CPort: 1018, SPort: 80, UDP: true, Start: start(k), Pkts: simplePkts(k, "f1.pcap", ref.Chunk{Dir: ref.DirC2S, Data: fill(n, 7)})}
			}))
		}
	}
	for _, n := range []int{1, 254, 255, 256, 300} {
		n := n
		sh = append(sh, mk(fmt.Sprintf("%d payload-less packets between chunks", n), n > 1, func(k int) *ref.StreamSpec {
			ch := []ref.Chunk{C("first")}
			for i := 0; i < n; i++ {
				if i%2 == 0 {
					ch = append(ch, S(""))
				} else {
					ch = append(ch, C(""))
				}
			}
			ch = append(ch, S("second"), C(""), C("third"))
			return &ref.StreamSpec{Client: A, Server: B, CPort: 1004, SPort: 80, Start: start(k), Pkts: simplePkts(k, "f1.pcap", ch...)}
		}))
	}
	// a packet of more than 64 KiB (two packet records) behind k small packets: its records straddle the multiples of
	// 256 records at which a reader that fetches packet records in pages starts a new page
	for _, n := range []int{254, 255, 256, 511} {
		n := n
		sh = append(sh, mk(fmt.Sprintf("%d payload-less packets, then a chunk of 70000 bytes", n), true, func(k int) *ref.StreamSpec {
			ch := []ref.Chunk{}
			for i := 0; i < n; i++ {
				if i%2 == 0 {
					ch = append(ch, C(""))
				} else {
					ch = append(ch, S(""))
				}
			}
			ch = append(ch, ref.Chunk{Dir: ref.DirS2C, Data: fill(70000, byte(n))}, C("post"))
			return &ref.StreamSpec{Client: A, Server: B, CPort: 1019, SPort: 80, Start: start(k), Pkts: simplePkts(k, "f1.pcap", ch...)}
		}))
	}
	sh = append(sh, mk("300 payload-less packets before first chunk", true, func(k int) *ref.StreamSpec {
		var ch []ref.Chunk
		for i := 0; i < 300; i++ {
			ch = append(ch, C(""))
		}
		ch = append(ch, S("late"), C(""))
		return &ref.StreamSpec{Client: A, Server: B, CPort: 1005, SPort: 80, Start: start(k), Pkts: simplePkts(k, "f1.pcap", ch...)}
	}))
	sh = append(sh, mk("equal timestamps", false, func(k int) *ref.StreamSpec {
		p := simplePkts(k, "f1.pcap", C("a"), S("b"), C("c"))
		for i := range p {
			p[i].OffsetUs = 0
		}
		return &ref.StreamSpec{Client: A, Server: B, CPort: 1006, SPort: 80, Start: start(k), Pkts: p}
	}))
	sh = append(sh, mk("duration just below 2^32us", false, func(k int) *ref.StreamSpec {
		p := simplePkts(k, "f1.pcap", C("a"), S("b"))
		p[1].OffsetUs = 1<<32 - 1
		return &ref.StreamSpec{Client: A, Server: B, CPort: 1007, SPort: 80, Start: start(k), Pkts: p}
	}))
	sh = append(sh, mk("duration above 2^32us, one wrap", false, func(k int) *ref.StreamSpec {
		p := simplePkts(k, "f1.pcap", C("a"), S("b"), C("c"), S(""))
		p[1].OffsetUs, p[2].OffsetUs, p[3].OffsetUs = 1<<31, 1<<32+5, 1<<32+6
		return &ref.StreamSpec{Client: A, Server: B, CPort: 1008, SPort: 80, Start: start(k), Pkts: p}
	}))
	sh = append(sh, mk("two wraps of the us counter", false, func(k int) *ref.StreamSpec {
		p := simplePkts(k, "f1.pcap", C("a"), S("b"), C("c"), S("d"), C("e"))
		p[1].OffsetUs, p[2].OffsetUs, p[3].OffsetUs, p[4].OffsetUs = 1<<31, 1<<32+5, 1<<32+1<<31+9, 1<<33+7
		return &ref.StreamSpec{Client: A, Server: B, CPort: 1009, SPort: 80, Start: start(k), Pkts: p}
	}))
	// the wrap of the 32-bit microsecond counter falls between two payload-less packets, the data packets on
	// both sides are more than 2^32 us apart (a long idle connection held open by keep-alives)
	sh = append(sh, mk("wrap between two payload-less packets", true, func(k int) *ref.StreamSpec {
		p := simplePkts(k, "f1.pcap", C("request"), S(""), C(""), S("response"), C(""))
		p[1].OffsetUs, p[2].OffsetUs, p[3].OffsetUs, p[4].OffsetUs = 3_000_000_000, 4_500_000_000, 5_000_000_000, 5_000_000_001
		return &ref.StreamSpec{Client: A, Server: B, CPort: 1019, SPort: 80, Start: start(k), Pkts: p}
	}))
	sh = append(sh, mk("two wraps, each between payload-less packets", true, func(k int) *ref.StreamSpec {
		p := simplePkts(k, "f1.pcap", C("a"), S(""), C(""), S("b"), C(""), S(""), C("c"))
		p[1].OffsetUs, p[2].OffsetUs, p[3].OffsetUs = 3_000_000_000, 4_400_000_000, 4_400_000_001
		p[4].OffsetUs, p[5].OffsetUs, p[6].OffsetUs = 7_000_000_000, 8_700_000_000, 8_700_000_500
		return &ref.StreamSpec{Client: A, Server: B, CPort: 1020, SPort: 80, Start: start(k), Pkts: p}
	}))
	sh = append(sh, mk("wrap between a payload-less packet and the next data packet", true, func(k int) *ref.StreamSpec {
		p := simplePkts(k, "f1.pcap", C("a"), S(""), S("b"), C("c"))
		p[1].OffsetUs, p[2].OffsetUs, p[3].OffsetUs = 4_000_000_000, 4_400_000_000, 4_400_000_100
		return &ref.StreamSpec{Client: A, Server: B, CPort: 1021, SPort: 80, Start: start(k), Pkts: p}
	}))
	sh = append(sh, mk("starts before every other stream", false, func(k int) *ref.StreamSpec {
		return &ref.StreamSpec{Client: B, Server: A, CPort: 1010, SPort: 80, Start: base.Add(-time.Duration(10+k) * time.Second).Add(-250 * time.Millisecond), Pkts: simplePkts(k, "f0.pcap", C("early"), S("bird"))}
	}))
	sh = append(sh, mk("two captures alternating", false, func(k int) *ref.StreamSpec {
		p := simplePkts(k, "f1.pcap", C("a"), S("b"), C("c"), S("d"))
		p[1].File, p[3].File = "f2.pcap", "f2.pcap"
		return &ref.StreamSpec{Client: A, Server: B, CPort: 1011, SPort: 80, Start: start(k), Pkts: p}
	}))
	sh = append(sh, mk("first packet in later-sorting capture", false, func(k int) *ref.StreamSpec {
		p := simplePkts(k, "f2.pcap", C("a"), S("b"))
		p[1].File = "f1.pcap"
		return &ref.StreamSpec{Client: A, Server: B, CPort: 1012, SPort: 80, Start: start(k), Pkts: p}
	}))
	sh = append(sh, mk("packet index crosses 2^32", false, func(k int) *ref.StreamSpec {
		p := simplePkts(k, "f1.pcap", C("a"), S("b"), C("c"))
		// first packets of the streams of one file lie in different 2^32 windows, and their order by the
		// low 32 bits differs from their order by the full index
		p[0].Index = []uint64{1<<32 + 5, 10, 1<<33 + 1}[k%3]
		p[1].Index, p[2].Index = p[0].Index+1<<32-3, p[0].Index+1<<33
		return &ref.StreamSpec{Client: A, Server: B, CPort: 1013, SPort: 80, Start: start(k), Pkts: p}
	}))
	sh = append(sh, mk("server data only", false, func(k int) *ref.StreamSpec {
		return &ref.StreamSpec{Client: A, Server: B, CPort: 1014, SPort: 80, Start: start(k), Pkts: simplePkts(k, "f1.pcap", C(""), S("banner"), C(""))}
	}))
	// payload chunks of size 0 (the stream lists a chunk without bytes for a payload-less packet): as a run of
	// its own between two runs of the other direction, in front of server data, next to data of its own
	// direction, at the end; chunks of equal length around it (a reader out of step then swaps, not fails)
	for _, ec := range []struct {
		name   string
		chunks []ref.Chunk
		empty  []int
	}{
		{"empty chunk as a run of its own", []ref.Chunk{C("GET /a"), S(""), C("GET /b"), S("200 OK")}, []int{1}},
		{"empty client chunk before server data", []ref.Chunk{C(""), S("banner"), C("x")}, []int{0}},
		{"empty chunk next to data of its direction", []ref.Chunk{C("a"), C(""), S("b"), S(""), S("c")}, []int{1, 3}},
		{"empty chunk at the end", []ref.Chunk{C("a"), S("b"), C("")}, []int{2}},
		{"two empty runs in a row", []ref.Chunk{C("aaaa"), S(""), C(""), S("bbbb"), C("cccc")}, []int{1, 2}},
		{"only empty chunks", []ref.Chunk{C(""), S("")}, []int{0, 1}},
	} {
		ec := ec
		sh = append(sh, mk(ec.name, false, func(k int) *ref.StreamSpec {
			p := simplePkts(k, "f1.pcap", ec.chunks...)
			for _, i := range ec.empty {
				p[i].EmptyChunk = true
			}
			return &ref.StreamSpec{Client: A, Server: B, CPort: 1022, SPort: 80, Start: start(k), Pkts: p}
		}))
	}
	sh = append(sh, mk("reassembly order differs from packet order", false, func(k int) *ref.StreamSpec {
		p := simplePkts(k, "f1.pcap", C("second"), S("first"), C("third"))
		p[0].DataRank, p[1].DataRank, p[2].DataRank = 1, 0, 2
		return &ref.StreamSpec{Client: A, Server: B, CPort: 1015, SPort: 80, Start: start(k), Pkts: p}
	}))
	return sh
}

var idPatterns = map[string]func(k int) uint64{
	"dense":      func(k int) uint64 { return uint64(k) },
	"sparse":     func(k int) uint64 { return []uint64{5, 1000, 1 << 33}[k%3] + uint64(k/3) },
	"descending": func(k int) uint64 { return uint64(90 - 40*k) },
	"huge":       func(k int) uint64 { return 1<<63 + uint64(k)*7 },
}

type caseT struct {
	shapes []int
	ids    string
}

type ctx struct {
	dir     string
	rep     *mc.Reporter
	shapes  []Shape
	evals   int64
	streams int64
	nontriv int64
	mu      sync.Mutex
	outcome map[string]int
	samples []string
}

func (c *ctx) name(cs caseT) string {
	n := make([]string, len(cs.shapes))
	for i, s := range cs.shapes {
		n[i] = c.shapes[s].Name
	}
	return "ids=" + cs.ids + " [" + strings.Join(n, " | ") + "]"
}

// CheckFile writes the specs into one index file and checks every read path.
func CheckFile(path string, specs []*ref.StreamSpec, report func(sym, msg string)) (r *index.Reader) {
	w, err := index.NewWriter(path)
	if err != nil {
		mc.Fatal("NewWriter: %v", err)
	}
	for _, s := range specs {
		ok, err := w.AddStream(s.ToStream(), s.ID)
		if err != nil || !ok {
			report("writer.refused", fmt.Sprintf("AddStream(%s id %d) = %v, %v", s.Name, s.ID, ok, err))
			w.Close()
			return nil
		}
	}
	r, err = w.Finalize()
	if err != nil {
		report("writer.finalize", fmt.Sprintf("Finalize: %v", err))
		return nil
	}
	CheckReader(r, specs, report)
	return r
}

// CheckReader compares everything C01 observes on a reader with the list of specs it must contain.
func CheckReader(r *index.Reader, specs []*ref.StreamSpec, report func(sym, msg string)) {
	byID := map[uint64]*ref.StreamSpec{}
	minID, maxID := ^uint64(0), uint64(0)
	for _, s := range specs {
		byID[s.ID] = s
		if s.ID < minID {
			minID = s.ID
		}
		if s.ID > maxID {
			maxID = s.ID
		}
	}
	if r.StreamCount() != len(specs) {
		report("reader.count", fmt.Sprintf("StreamCount %d, want %d", r.StreamCount(), len(specs)))
	}
	if len(specs) != 0 && (r.MinStreamID() != minID || r.MaxStreamID() != maxID) {
		report("reader.minmax", fmt.Sprintf("Min/MaxStreamID %d/%d, want %d/%d", r.MinStreamID(), r.MaxStreamID(), minID, maxID))
	}
	ids := r.StreamIDs()
	if len(ids) != len(specs) {
		report("reader.ids", fmt.Sprintf("StreamIDs has %d entries, want %d", len(ids), len(specs)))
	}
	for id := range ids {
		if byID[id] == nil {
			report("reader.ids", fmt.Sprintf("StreamIDs lists unknown id %d", id))
		}
	}
	seen := map[uint64]int{}
	if err := r.AllStreams(func(s *index.Stream) error { seen[s.ID()]++; return nil }); err != nil {
		report("reader.allstreams", fmt.Sprintf("AllStreams: %v", err))
	}
	for _, s := range specs {
		if seen[s.ID] != 1 {
			report("reader.allstreams", fmt.Sprintf("AllStreams yields id %d %d times", s.ID, seen[s.ID]))
		}
	}
	for _, want := range specs {
		got, err := r.StreamByID(want.ID)
		if err != nil || got == nil {
			report("lookup.by-id", fmt.Sprintf("StreamByID(%d) = %v, %v", want.ID, got, err))
			continue
		}
		for _, d := range ref.CompareStream(got, want) {
			report(d[0], fmt.Sprintf("stream %d (%s): %s", want.ID, want.Name, d[1]))
		}
		if _, err := got.MarshalJSON(); err != nil {
			report("stream.json", fmt.Sprintf("MarshalJSON(%d): %v", want.ID, err))
		}
	}
	// absent ids
	probe := []uint64{0, 1, ^uint64(0), minID - 1, minID + 1, maxID + 1, maxID - 1}
	for _, id := range probe {
		if byID[id] != nil {
			continue
		}
		if got, err := r.StreamByID(id); err != nil || got != nil {
			report("lookup.by-id-absent", fmt.Sprintf("StreamByID(%d) of an absent id = %v, %v", id, got, err))
		}
	}
	// first packet source: exactly the stored first packets, nothing around them
	first := map[[2]any]*ref.StreamSpec{}
	files := map[string]bool{"nofile.pcap": true, "": true}
	for _, s := range specs {
		first[[2]any{s.Pkts[0].File, s.Pkts[0].Index}] = s
		for _, p := range s.Pkts {
			files[p.File] = true
		}
	}
	for _, s := range specs {
		for pi, p := range s.Pkts {
			if pi > 3 && pi < len(s.Pkts)-2 {
				continue
			}
			for f := range files {
				for _, idx := range []uint64{p.Index, p.Index + 1, p.Index - 1, uint64(uint32(p.Index))} {
					want := first[[2]any{f, idx}]
					var got *index.Stream
					var err error
					if pt := mc.Try(func() { got, err = r.StreamByFirstPacketSource(f, idx) }); pt != "" {
						report("lookup.by-source-panic", fmt.Sprintf("StreamByFirstPacketSource(%q,%d) panicked: %s", f, idx, pt))
						continue
					}
					if err != nil {
						report("lookup.by-source", fmt.Sprintf("StreamByFirstPacketSource(%q,%d): %v", f, idx, err))
						continue
					}
					switch {
					case want == nil && got != nil:
						report("lookup.by-source-extra", fmt.Sprintf("StreamByFirstPacketSource(%q,%d) found stream %d, no stream starts there", f, idx, got.ID()))
					case want != nil && got == nil:
						report("lookup.by-source-missing", fmt.Sprintf("StreamByFirstPacketSource(%q,%d) found nothing, stream %d starts there", f, idx, want.ID))
					case want != nil && got.ID() != want.ID:
						// two streams may legitimately share a first packet source only if the specs say so
						report("lookup.by-source-wrong", fmt.Sprintf("StreamByFirstPacketSource(%q,%d) found stream %d, want %d", f, idx, got.ID(), want.ID))
					}
				}
			}
		}
	}
}

func (c *ctx) runCase(i int, cs caseT) {
	specs := make([]*ref.StreamSpec, len(cs.shapes))
	for k, si := range cs.shapes {
		specs[k] = c.shapes[si].Make(k)
		specs[k].ID = idPatterns[cs.ids](k)
	}
	path := filepath.Join(c.dir, fmt.Sprintf("c%d.idx", i))
	name := c.name(cs)
	failed := map[string]bool{}
	r := CheckFile(path, specs, func(sym, msg string) {
		failed[sym] = true
		c.rep.Report(mc.Violation{Symptom: sym, Key: name, Msg: name + ": " + msg, Replay: map[string]any{"shapes": name, "ids": cs.ids}})
	})
	digest := ""
	if r != nil {
		r.AllStreams(func(s *index.Stream) error {
			digest += fmt.Sprintf("%d:%d:%d:%s;", s.ID(), s.ClientBytes, s.ServerBytes, s.FirstPacket().UTC().Format("150405.000"))
			return nil
		})
		r.Close()
	}
	os.Remove(path)
	atomic.AddInt64(&c.evals, 1)
	atomic.AddInt64(&c.streams, int64(len(specs)))
	if len(cs.shapes) > 1 {
		atomic.AddInt64(&c.nontriv, 1)
	}
	keys := make([]string, 0, len(failed))
	for k := range failed {
		keys = append(keys, k)
	}
	sort.Strings(keys)
	c.mu.Lock()
	c.outcome[strings.Join(keys, ",")+"|"+digest]++
	if len(c.samples) < 6 && i%997 == 0 {
		c.samples = append(c.samples, name)
	}
	c.mu.Unlock()
}

func Run(tier string) int {
	rep := mc.NewReporter("C01", tier, "model_checking")
	rep.Driver = "c01"
	ref.InternFiles("f0.pcap", "f1.pcap", "f2.pcap", "nofile.pcap")
	dir, err := os.MkdirTemp("", "verif-c01-")
	if err != nil {
		mc.Fatal("%v", err)
	}
	defer os.RemoveAll(dir)
	budget := 150 * time.Second
	if tier == "thorough" {
		budget = 13 * time.Minute
	}
	deadline := time.Now().Add(budget)
	c := &ctx{dir: dir, rep: rep, shapes: shapes(), outcome: map[string]int{}}
	var cases []caseT
	idNames := []string{"dense", "sparse", "descending", "huge"}
	n := len(c.shapes)
	for _, ids := range idNames {
		for a := 0; a < n; a++ {
			cases = append(cases, caseT{[]int{a}, ids})
			for b := 0; b < n; b++ {
				cases = append(cases, caseT{[]int{a, b}, ids})
			}
		}
	}
	for _, ids := range idNames {
		if tier != "thorough" && ids != "descending" {
			continue
		}
		for a := 0; a < n; a++ {
			for b := 0; b < n; b++ {
				for d := 0; d < n; d++ {
					if tier != "thorough" && (c.shapes[a].Heavy || c.shapes[b].Heavy || c.shapes[d].Heavy) {
						continue
					}
					cases = append(cases, caseT{[]int{a, b, d}, ids})
				}
			}
		}
	}
	var timedOut int32
	mc.ParFor(len(cases), func(i int) {
		if atomic.LoadInt32(&timedOut) != 0 {
			return
		}
		if time.Now().After(deadline) {
			atomic.StoreInt32(&timedOut, 1)
			return
		}
		c.runCase(i, cases[i])
	}, func(i int, text string) {
		rep.Report(mc.Violation{Symptom: "panic", Key: c.name(cases[i]), Msg: c.name(cases[i]) + ": " + text})
	})
	// host-group boundary family
	hb, hbAll := hostBoundary(c, tier, deadline)
	if hb != hbAll {
		timedOut = 1
	}
	cv := rep.Coverage
	cv["evaluations"] = c.evals + int64(hb)
	cv["distinct_nontrivial"] = c.nontriv + int64(hb)
	cv["states"] = c.evals + int64(hb)
	cv["transitions"] = c.streams
	cv["traces_validated_against_impl"] = c.evals + int64(hb)
	cv["rule"] = "every list of <=3 streams over the shape alphabet x id pattern is written to a fresh index file and read back through StreamIDs/AllStreams/StreamByID/StreamByFirstPacketSource/Data/Packets/MarshalJSON; non-trivial = at least two streams share the file (host table, import table, reference time and packet table are shared); plus the host-group boundary family"
	cv["shapes"] = len(c.shapes)
	cv["id_patterns"] = idNames
	cv["files_written"] = c.evals
	cv["host_boundary_files"] = hb
	cv["samples"] = c.samples
	cv["distinct_outcomes"] = len(c.outcome)
	cv["exhaustive"] = timedOut == 0
	if timedOut != 0 {
		cv["caps_hit"] = []string{"deadline"}
	}
	rep.Assumptions = []string{
		"chunking inside one direction run (the reader's 50 ms presentation rule) is not compared; chunk times must be times of payload packets of that direction",
		"per-packet times are compared only when they are non-decreasing with gaps below 2^32 us (format limit); first/last packet time always",
		"each payload chunk is attributed to its own packet, as the reassembler does",
	}
	if c.evals < 10 {
		mc.Fatal("vacuous: %d files", c.evals)
	}
	return rep.Finish()
}

// hostBoundary fills one writer up to the limit of a host group and appends every short sequence
// of streams whose hosts are old or new.
func hostBoundary(c *ctx, tier string, deadline time.Time) (int, int) {
	type tail struct {
		name string
		mk   func(k int, nHosts int) *ref.StreamSpec
	}
	host := func(i int) net.IP { return ip4(11, byte(i>>16), byte(i>>8), byte(i)) }
	tails := []tail{
		{"old>old", func(k, n int) *ref.StreamSpec { return bstream(host(0), host(1), k) }},
		{"new>old", func(k, n int) *ref.StreamSpec { return bstream(host(n+10+2*k), host(1), k) }},
		{"old>new", func(k, n int) *ref.StreamSpec { return bstream(host(0), host(n+11+2*k), k) }},
		{"new>new", func(k, n int) *ref.StreamSpec { return bstream(host(n+10+2*k), host(n+11+2*k), k) }},
		{"v6", func(k, n int) *ref.StreamSpec { return bstream(ip6(1, byte(k)), ip6(2, byte(k)), k) }},
		{"v6 second new pair", func(k, n int) *ref.StreamSpec { return bstream(ip6(3, byte(k)), ip6(4, byte(k)), k) }},
	}
	// IPv4 groups hold 16384 hosts, IPv6 groups 4096; negative numbers fill with IPv6 hosts
	fills := []int{16382, 16383, 16384, -4095, -4096}
	maxTail := 2
	if tier == "thorough" {
		maxTail = 3
	}
	var seqs [][]int
	var gen func(cur []int)
	gen = func(cur []int) {
		if len(cur) > 0 {
			seqs = append(seqs, append([]int{}, cur...))
		}
		if len(cur) == maxTail {
			return
		}
		for t := range tails {
			gen(append(cur, t))
		}
	}
	gen(nil)
	type job struct {
		fill int
		seq  []int
	}
	var jobs []job
	for _, f := range fills {
		for _, s := range seqs {
			jobs = append(jobs, job{f, s})
		}
	}
	var done int64
	mc.ParFor(len(jobs), func(i int) {
		if time.Now().After(deadline) {
			return
		}
		j := jobs[i]
		// filler: streams between distinct hosts until the writer knows |j.fill| hosts
		var specs []*ref.StreamSpec
		fillHost, n := host, j.fill
		if n < 0 {
			n = -n
			fillHost = func(i int) net.IP {
				p := make(net.IP, 16)
				p[0], p[1], p[13], p[14], p[15] = 0x20, 0x01, byte(i>>16), byte(i>>8), byte(i)
				return p
			}
		}
		for h := 0; h+1 < n; h += 2 {
			specs = append(specs, bstream(fillHost(h), fillHost(h+1), len(specs)))
		}
		if n%2 == 1 {
			specs = append(specs, bstream(fillHost(n-1), fillHost(0), len(specs)))
		}
		names := []string{}
		for _, t := range j.seq {
			specs = append(specs, tails[t].mk(len(specs), j.fill))
			names = append(names, tails[t].name)
		}
		for k, s := range specs {
			s.ID = uint64(k)
			s.Name = "filler"
		}
		name := fmt.Sprintf("hosts=%d then [%s]", j.fill, strings.Join(names, ", "))
		for k := range j.seq {
			specs[len(specs)-len(j.seq)+k].Name = names[k]
		}
		path := filepath.Join(c.dir, fmt.Sprintf("hb%d.idx", i))
		nrep := 0
		r := CheckFile(path, specs, func(sym, msg string) {
			nrep++
			if nrep > 3 {
				return
			}
			c.rep.Report(mc.Violation{Symptom: "hostgroup." + sym, Key: name, Msg: name + ": " + msg, Replay: map[string]any{"case": name}})
		})
		if r != nil {
			r.Close()
		}
		os.Remove(path)
		atomic.AddInt64(&done, 1)
		c.mu.Lock()
		if len(c.samples) < 8 && i%40 == 0 {
			c.samples = append(c.samples, name)
		}
		c.mu.Unlock()
	}, func(i int, text string) {
		c.rep.Report(mc.Violation{Symptom: "hostgroup.panic", Key: fmt.Sprint(jobs[i]), Msg: text})
	})
	return int(done), len(jobs)
}

func bstream(cl, sv net.IP, k int) *ref.StreamSpec {
	return &ref.StreamSpec{Client: cl, Server: sv, CPort: 1, SPort: 2, Start: base.Add(time.Duration(k) * time.Millisecond),
		Pkts: []ref.PktSpec{{Dir: ref.DirC2S, OffsetUs: 0, File: "f1.pcap", Index: uint64(k), Data: []byte{byte(k)}}}}
}

var _ = bytes.Equal
