package mc

import (
	"fmt"
	"runtime"
	"runtime/debug"
	"sync"
	"sync/atomic"
)

// ParFor runs f(i) for i in [0,n) on all cores.  A panic inside f is converted into a call of
// onPanic(i, text) so that "the implementation panicked" is an outcome the caller can attribute
// to a case instead of a crash of the checker.
func ParFor(n int, f func(i int), onPanic func(i int, text string)) {
	workers := runtime.GOMAXPROCS(0)
	if workers > n {
		workers = n
	}
	var next int64 = -1
	var wg sync.WaitGroup
	for w := 0; w < workers; w++ {
		wg.Add(1)
		go func() {
			defer wg.Done()
			for {
				i := int(atomic.AddInt64(&next, 1))
				if i >= n {
					return
				}
				func() {
					defer func() {
						if r := recover(); r != nil {
							if onPanic != nil {
								onPanic(i, fmt.Sprintf("%v\n%s", r, debug.Stack()))
							} else {
								panic(r)
							}
						}
					}()
					f(i)
				}()
			}
		}()
	}
	wg.Wait()
}

// Try runs f and returns the panic text, if any.
func Try(f func()) (panicText string) {
	defer func() {
		if r := recover(); r != nil {
			panicText = fmt.Sprintf("%v", r)
		}
	}()
	f()
	return ""
}
