package mc

// E6: stateless exploration of thread interleavings of real code under a cooperative scheduler.
//
// The code under test is built with its import of "sync" rewritten to internal/verifsync (overlay): every lock
// acquisition of a controlled goroutine is a scheduling point at which the scheduler - not the Go runtime - decides
// who runs next.  Exactly one controlled goroutine runs at any time; the lock state is kept by the scheduler.
// Explore enumerates all schedules with at most `bound` preemptions (a preemption = switching away from a goroutine
// that could have continued), depth first, by re-running the scenario from scratch with a forced prefix of choices.

import (
	"fmt"
	"strings"
	"time"

	"github.com/spq/pkappa2/internal/verifsync"
)

type schedThread struct {
	id      int
	wake    chan struct{}
	done    bool
	started bool
	// parked at an acquisition
	want   *verifsync.LockState
	shared bool
	try    bool
	tryOK  bool
	panic  string
	// parked at a reading of the clock
	atClock bool
	clock   time.Time
}

// SchedPoint is one decision of an execution.
type SchedPoint struct {
	Enabled             []int // thread ids in canonical order: the running thread first if it can continue, then ascending
	Chosen              int   // index into Enabled
	RunningStillEnabled bool
	// Data: not a choice of thread but of an environment answer (how far the clock has moved at a reading): the
	// alternatives are numbered 0..len(Enabled)-1 and cost no preemption
	Data bool
}

// SchedRun is one complete execution.
type SchedRun struct {
	Points   []SchedPoint
	Deadlock bool     // no thread could run although not all had finished
	Blocked  []string // what the threads were waiting for at a deadlock
	Panics   []string
}

func (r *SchedRun) Choices() []int {
	out := make([]int, len(r.Points))
	for i, p := range r.Points {
		out[i] = p.Chosen
	}
	return out
}

// Schedule renders the order in which threads were given the processor.
func (r *SchedRun) Schedule() string {
	var sb strings.Builder
	for i, p := range r.Points {
		if i > 0 {
			sb.WriteByte(' ')
		}
		if p.Data {
			fmt.Fprintf(&sb, "clock+%dms", p.Chosen)
			continue
		}
		fmt.Fprintf(&sb, "T%d", p.Enabled[p.Chosen])
	}
	return sb.String()
}

type scheduler struct {
	threads []*schedThread
	cur     *schedThread
	yield   chan struct{}
	clock   time.Time
}

// SchedClockBase is what the controlled clock shows before it was moved.
var SchedClockBase = time.Date(2024, 1, 2, 3, 4, 5, 0, time.UTC)

// Now: the thread parks; when it is chosen to go on, the scheduler decides whether the clock still shows the same
// millisecond or the next one.
func (s *scheduler) Now() time.Time {
	t := s.cur
	t.want, t.atClock = nil, true
	s.park()
	t.atClock = false
	return t.clock
}

func (s *scheduler) Controlled() bool { return s.cur != nil }

func (s *scheduler) park() {
	t := s.cur
	s.yield <- struct{}{}
	<-t.wake
}

func (s *scheduler) Acquire(l *verifsync.LockState, shared bool) {
	t := s.cur
	t.want, t.shared, t.try = l, shared, false
	s.park()
	// the scheduler only wakes a thread whose lock is free
	if shared {
		l.Readers++
	} else {
		l.Writer = true
	}
	t.want = nil
}

func (s *scheduler) TryAcquire(l *verifsync.LockState, shared bool) bool {
	t := s.cur
	t.want, t.shared, t.try = l, shared, true
	s.park()
	t.want = nil
	if !l.Free(shared) {
		return false
	}
	if shared {
		l.Readers++
	} else {
		l.Writer = true
	}
	return true
}

func (s *scheduler) Release(l *verifsync.LockState, shared bool) {
	if shared {
		if l.Readers == 0 {
			panic("verifsync: RUnlock of a lock without readers")
		}
		l.Readers--
		return
	}
	if !l.Writer {
		panic("verifsync: Unlock of an unlocked lock")
	}
	l.Writer = false
}

func (t *schedThread) enabled() bool {
	if t.done {
		return false
	}
	if t.want == nil || t.try {
		return true
	}
	return t.want.Free(t.shared)
}

// RunSchedule executes the thread bodies once.  The first len(prefix) decisions are forced (an index that is out of
// range is a harness error: the execution did not repeat), later ones take choice 0.
func RunSchedule(bodies []func(), prefix []int) *SchedRun {
	s := &scheduler{yield: make(chan struct{}), clock: SchedClockBase}
	for i := range bodies {
		s.threads = append(s.threads, &schedThread{id: i, wake: make(chan struct{})})
	}
	verifsync.Install(s)
	defer verifsync.Install(nil)
	for i, body := range bodies {
		t, body := s.threads[i], body
		go func() {
			<-t.wake
			defer func() {
				if r := recover(); r != nil {
					t.panic = fmt.Sprint(r)
				}
				t.done = true
				s.yield <- struct{}{}
			}()
			body()
		}()
	}
	run := &SchedRun{}
	var last *schedThread
	for {
		var en []int
		if last != nil && last.enabled() {
			en = append(en, last.id)
		}
		for _, t := range s.threads {
			if t != last && t.enabled() {
				en = append(en, t.id)
			}
		}
		if len(en) == 0 {
			for _, t := range s.threads {
				if !t.done {
					run.Deadlock = true
					run.Blocked = append(run.Blocked, fmt.Sprintf("T%d waits for a lock (shared=%v) held by writer=%v readers=%d", t.id, t.shared, t.want.Writer, t.want.Readers))
				}
			}
			break
		}
		choice := 0
		if n := len(run.Points); n < len(prefix) {
			choice = prefix[n]
			if choice < 0 || choice >= len(en) {
				Fatal("scheduler: replay diverged at decision %d: choice %d of %d enabled threads", n, choice, len(en))
			}
		}
		run.Points = append(run.Points, SchedPoint{Enabled: en, Chosen: choice, RunningStillEnabled: last != nil && last.enabled()})
		t := s.threads[en[choice]]
		if t.atClock {
			// the reading of the clock: the same millisecond as the last reading, or the next one
			adv := 0
			if n := len(run.Points); n < len(prefix) {
				adv = prefix[n]
				if adv < 0 || adv > 1 {
					Fatal("scheduler: replay diverged at decision %d: clock choice %d", n, adv)
				}
			}
			run.Points = append(run.Points, SchedPoint{Enabled: []int{0, 1}, Chosen: adv, Data: true})
			s.clock = s.clock.Add(time.Duration(adv) * time.Millisecond)
			t.clock = s.clock
		}
		s.cur = t
		t.wake <- struct{}{}
		<-s.yield
		s.cur = nil
		last = t
	}
	for _, t := range s.threads {
		if t.panic != "" {
			run.Panics = append(run.Panics, fmt.Sprintf("T%d: %s", t.id, t.panic))
		}
	}
	// threads blocked forever at a deadlock stay parked on their wake channel; they hold no resources of
	// the harness besides their stack
	return run
}

// ExploreStats counts what one call of Explore covered.
type SchedStats struct {
	Executions int64
	Points     int64
	MaxPoints  int
	Deadlocks  int64
}

// ExploreSchedules runs every schedule of the scenario with at most bound preemptions.  mk builds a fresh instance of
// the scenario (fresh objects under test) and returns the thread bodies; check judges one finished execution (it
// receives what mk returned as context) and returns false to stop the exploration.
func ExploreSchedules(bound int, mk func() (bodies []func(), ctx any), check func(run *SchedRun, ctx any) bool, st *SchedStats) {
	var explore func(prefix []int) bool
	explore = func(prefix []int) bool {
		bodies, ctx := mk()
		run := RunSchedule(bodies, prefix)
		st.Executions++
		st.Points += int64(len(run.Points))
		if len(run.Points) > st.MaxPoints {
			st.MaxPoints = len(run.Points)
		}
		if run.Deadlock {
			st.Deadlocks++
		}
		if !check(run, ctx) {
			return false
		}
		// preemptions used before each point
		pre := 0
		used := make([]int, len(run.Points))
		for i, p := range run.Points {
			used[i] = pre
			if !p.Data && p.RunningStillEnabled && p.Chosen != 0 {
				pre++
			}
		}
		choices := run.Choices()
		for i := len(prefix); i < len(run.Points); i++ {
			p := run.Points[i]
			for alt := 1; alt < len(p.Enabled); alt++ {
				cost := used[i]
				if !p.Data && p.RunningStillEnabled {
					cost++
				}
				if cost > bound {
					continue
				}
				next := append(append([]int{}, choices[:i]...), alt)
				if !explore(next) {
					return false
				}
			}
		}
		return true
	}
	explore(nil)
}
