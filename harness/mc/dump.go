package mc

import (
	"fmt"
	"reflect"
	"strings"
)

// Dump renders any value, following pointers and reading unexported fields (read-only, through
// reflection), so that the *representation* of an object can be part of a canonical state
// without the harness naming private fields.
func Dump(v any) string {
	var sb strings.Builder
	dump(&sb, reflect.ValueOf(v), 0)
	return sb.String()
}

func dump(sb *strings.Builder, v reflect.Value, depth int) {
	if depth > 200 {
		sb.WriteString("<deep>")
		return
	}
	switch v.Kind() {
	case reflect.Invalid:
		sb.WriteString("nil")
	case reflect.Ptr, reflect.Interface:
		if v.IsNil() {
			sb.WriteString("nil")
			return
		}
		sb.WriteString("&")
		dump(sb, v.Elem(), depth+1)
	case reflect.Struct:
		sb.WriteString("{")
		for i := 0; i < v.NumField(); i++ {
			if i > 0 {
				sb.WriteString(" ")
			}
			dump(sb, v.Field(i), depth+1)
		}
		sb.WriteString("}")
	case reflect.Slice, reflect.Array:
		if v.Kind() == reflect.Slice && v.IsNil() {
			sb.WriteString("[]")
			return
		}
		sb.WriteString("[")
		for i := 0; i < v.Len(); i++ {
			if i > 0 {
				sb.WriteString(" ")
			}
			dump(sb, v.Index(i), depth+1)
		}
		// what lies between len and cap is part of the representation too: a later reslice can make
		// it visible again, so two objects that differ only there have different futures
		if v.Kind() == reflect.Slice && v.Cap() > v.Len() && v.Cap()-v.Len() <= 64 {
			full := v.Slice(0, v.Cap())
			sb.WriteString(" ;")
			for i := v.Len(); i < full.Len(); i++ {
				sb.WriteString(" ")
				dump(sb, full.Index(i), depth+1)
			}
		}
		sb.WriteString("]")
	case reflect.Bool:
		fmt.Fprintf(sb, "%v", v.Bool())
	case reflect.Int, reflect.Int8, reflect.Int16, reflect.Int32, reflect.Int64:
		fmt.Fprintf(sb, "%d", v.Int())
	case reflect.Uint, reflect.Uint8, reflect.Uint16, reflect.Uint32, reflect.Uint64, reflect.Uintptr:
		fmt.Fprintf(sb, "%d", v.Uint())
	case reflect.String:
		fmt.Fprintf(sb, "%q", v.String())
	default:
		fmt.Fprintf(sb, "<%s>", v.Kind())
	}
}
