package mc

import (
	"crypto/sha1"
	"fmt"
	"sort"
	"sync"
	"sync/atomic"
	"time"
)

// World is one live instance of the implementation under test together with its reference model.
// The explorer never clones a World: a successor state is obtained by building a fresh World and
// replaying the shortest known path to the parent state plus one more operation.
type World interface {
	// Enabled says whether op may be applied in the current state.
	Enabled(op int) bool
	// Apply performs op on implementation and model and returns the violations visible
	// afterwards (all observers compared).  A non-empty result marks the state as diverged:
	// it is reported and not expanded.
	Apply(op int) []Violation
	// Canon is the canonical form of everything future behaviour can depend on.
	Canon() string
	// Outcome is a digest of what a user can observe in this state (for vacuity statistics).
	Outcome() string
	Close()
}

type Spec struct {
	New     func() World
	NumOps  int
	OpName  func(op int) string
	// NonTrivial classifies a path (by op list) as exercising a collision, see evidence rule.
	NonTrivial func(path []int) bool
}

type BFSStats struct {
	States        int64
	Transitions   int64
	MaxDepth      int
	DepthComplete int
	Exhausted     bool // frontier became empty below the depth bound
	CapHit        string
	Outcomes      int
	NonTrivial    int64
	Samples       []string
	PerDepth      []int64
}

type key [12]byte

func hkey(s string) key {
	h := sha1.Sum([]byte(s))
	var k key
	copy(k[:], h[:12])
	return k
}

// BFS explores all operation sequences up to maxDepth breadth-first with canonical-state
// de-duplication.  deadline (zero = none) and maxStates stop the run early; the stats say so.
func BFS(spec Spec, maxDepth int, maxStates int64, deadline time.Time, rep *Reporter) BFSStats {
	var st BFSStats
	seen := map[key]struct{}{}
	outcomes := map[key]struct{}{}
	var mu sync.Mutex
	w0 := spec.New()
	seen[hkey(w0.Canon())] = struct{}{}
	outcomes[hkey(w0.Outcome())] = struct{}{}
	w0.Close()
	st.States = 1
	frontier := [][]int{{}}
	pathName := func(p []int) string {
		s := ""
		for i, o := range p {
			if i > 0 {
				s += " ; "
			}
			s += spec.OpName(o)
		}
		return s
	}
	for depth := 1; depth <= maxDepth && len(frontier) > 0; depth++ {
		var next [][]int
		level := map[key][]int{}
		var stop int32
		var newStates int64
		ParFor(len(frontier), func(i int) {
			if atomic.LoadInt32(&stop) != 0 {
				return
			}
			if !deadline.IsZero() && time.Now().After(deadline) {
				atomic.StoreInt32(&stop, 1)
				return
			}
			parent := frontier[i]
			for op := 0; op < spec.NumOps; op++ {
				w := spec.New()
				ok := true
				for _, o := range parent {
					if v := w.Apply(o); len(v) != 0 {
						// replay of a clean prefix diverged: nondeterminism in harness or code
						Fatal("replay divergence on prefix %q: %v", pathName(parent), v[0].Msg)
					}
				}
				if !w.Enabled(op) {
					w.Close()
					continue
				}
				path := append(append(make([]int, 0, len(parent)+1), parent...), op)
				var viol []Violation
				if pt := Try(func() { viol = w.Apply(op) }); pt != "" {
					viol = []Violation{{Symptom: "panic", Key: pathName(path), Msg: pt}}
					ok = false
				}
				atomic.AddInt64(&st.Transitions, 1)
				if len(viol) != 0 {
					for _, v := range viol {
						if v.Replay == nil {
							v.Replay = map[string]any{"path": opNames(spec, path)}
						}
						v.Msg = "after [" + pathName(path) + "]: " + v.Msg
						rep.Report(v)
					}
					if ok {
						w.Close()
					}
					continue
				}
				c, o := hkey(w.Canon()), hkey(w.Outcome())
				w.Close()
				mu.Lock()
				outcomes[o] = struct{}{}
				if _, dup := seen[c]; !dup {
					// several paths of this level may reach the state; keep the smallest one so
					// that the exploration (and its statistics) do not depend on worker timing
					if best, ok := level[c]; !ok || lessPath(path, best) {
						level[c] = path
					}
					if maxStates > 0 && int64(len(seen)+len(level)) >= maxStates {
						atomic.StoreInt32(&stop, 2)
					}
				}
				mu.Unlock()
			}
		}, func(i int, text string) {
			rep.Report(Violation{Symptom: "panic", Key: pathName(frontier[i]), Msg: text})
		})
		for c, path := range level {
			seen[c] = struct{}{}
			next = append(next, path)
		}
		sort.Slice(next, func(i, j int) bool { return lessPath(next[i], next[j]) })
		newStates = int64(len(next))
		for i, path := range next {
			if spec.NonTrivial != nil && spec.NonTrivial(path) {
				st.NonTrivial++
			}
			if len(st.Samples) < 8 && (i == 0 || i == len(next)/2 || i == len(next)-1) {
				st.Samples = append(st.Samples, pathName(path))
			}
		}
		st.States = int64(len(seen))
		st.PerDepth = append(st.PerDepth, newStates)
		st.MaxDepth = depth
		if s := atomic.LoadInt32(&stop); s != 0 {
			if s == 1 {
				st.CapHit = fmt.Sprintf("deadline while expanding depth %d", depth)
			} else {
				st.CapHit = fmt.Sprintf("state cap %d while expanding depth %d", maxStates, depth)
			}
			break
		}
		st.DepthComplete = depth
		frontier = next
		if len(frontier) == 0 {
			st.Exhausted = true
		}
	}
	st.Outcomes = len(outcomes)
	return st
}

func opNames(spec Spec, p []int) []string {
	r := make([]string, len(p))
	for i, o := range p {
		r[i] = spec.OpName(o)
	}
	return r
}

// FillCoverage stores the BFS statistics under the evidence keys of the model_checking level.
func (st BFSStats) FillCoverage(c map[string]any, rule string) {
	c["states"] = st.States
	c["transitions"] = st.Transitions
	c["traces_validated_against_impl"] = st.Transitions
	c["evaluations"] = st.Transitions
	c["distinct_nontrivial"] = st.NonTrivial
	c["rule"] = rule
	c["samples"] = st.Samples
	c["depth_completed"] = st.DepthComplete
	c["new_states_per_depth"] = st.PerDepth
	c["distinct_outcomes"] = st.Outcomes
	c["exhaustive"] = st.CapHit == ""
	if st.CapHit != "" {
		c["caps_hit"] = []string{st.CapHit}
	}
	c["state_space_closed"] = st.Exhausted
}

func lessPath(a, b []int) bool {
	for i := range a {
		if i >= len(b) {
			return false
		}
		if a[i] != b[i] {
			return a[i] < b[i]
		}
	}
	return len(a) < len(b)
}
