// Package mc holds the engine-independent parts of the checker: evidence files, violation
// reporting, known-findings matching, replay files and small parallel helpers.
package mc

import (
	"crypto/sha1"
	"encoding/hex"
	"encoding/json"
	"fmt"
	"os"
	"path/filepath"
	"regexp"
	"sort"
	"strconv"
	"strings"
	"sync"
	"time"
)

// VerifDir is the root of the verification tree (evidence, replay, known findings).
var VerifDir = func() string {
	if d := os.Getenv("VERIF_DIR"); d != "" {
		return d
	}
	return "/verif"
}()

// RepoDir is the root of the repository tree the checker was built from (source paths in stack
// traces and race reports start with it).
var RepoDir = func() string {
	if d := os.Getenv("REPO_DIR"); d != "" {
		return strings.TrimRight(d, "/")
	}
	return "/repo"
}()

// Violation is one failing case.  Symptom is an enum chosen by the invariant that failed, Key is
// a canonical rendering of the (minimal) counterexample, used for de-duplication and for the
// narrow known-finding matchers.  Replay is what gets written to the replay file.
type Violation struct {
	Symptom string `json:"symptom"`
	Key     string `json:"key"`
	Msg     string `json:"msg"`
	Replay  any    `json:"replay,omitempty"`
}

// Finding is one entry of /verif/known_findings.json.
type Finding struct {
	ID       string `json:"id"`
	Status   string `json:"status"` // "known" | "fixed"
	Property string `json:"property"`
	Commit   string `json:"commit,omitempty"`
	Summary  string `json:"summary"`
	Match    struct {
		Symptom string `json:"symptom"`
		Key     string `json:"key_regex"`
	} `json:"match"`
	re, sre *regexp.Regexp
}

type Reporter struct {
	Prop        string
	Tier        string
	Seed        int64
	Level       string
	Driver      string
	Coverage    map[string]any
	Assumptions []string

	start      time.Time
	mu         sync.Mutex
	violations []Violation
	seenKeys   map[string]bool
	findings   []*Finding
	knownHits  map[string]int
	suppressed int
}

func NewReporter(prop, tier, level string) *Reporter {
	seed, _ := strconv.ParseInt(os.Getenv("VERIF_SEED"), 10, 64)
	r := &Reporter{Prop: prop, Tier: tier, Seed: seed, Level: level, Coverage: map[string]any{},
		start: time.Now(), seenKeys: map[string]bool{}, knownHits: map[string]int{}}
	r.loadFindings()
	return r
}

func (r *Reporter) loadFindings() {
	b, err := os.ReadFile(filepath.Join(VerifDir, "known_findings.json"))
	if err != nil {
		return
	}
	var fs []*Finding
	if err := json.Unmarshal(b, &fs); err != nil {
		fmt.Fprintf(os.Stderr, "harness error: known_findings.json: %v\n", err)
		os.Exit(2)
	}
	for _, f := range fs {
		if f.Property != r.Prop || f.Status != "known" {
			continue
		}
		re, err := regexp.Compile(f.Match.Key)
		if err != nil {
			fmt.Fprintf(os.Stderr, "harness error: known_findings.json %s: %v\n", f.ID, err)
			os.Exit(2)
		}
		f.re = re
		// the symptom is an anchored regular expression (a plain name matches itself)
		sre, err := regexp.Compile("^(?:" + f.Match.Symptom + ")$")
		if err != nil {
			fmt.Fprintf(os.Stderr, "harness error: known_findings.json %s: %v\n", f.ID, err)
			os.Exit(2)
		}
		f.sre = sre
		r.findings = append(r.findings, f)
	}
}

// Report records a violation; duplicates (same symptom+key) are dropped.  Returns true when it is
// new and not covered by a known finding.
func (r *Reporter) Report(v Violation) bool {
	r.mu.Lock()
	defer r.mu.Unlock()
	k := v.Symptom + "\x00" + v.Key
	if r.seenKeys[k] {
		return false
	}
	r.seenKeys[k] = true
	for _, f := range r.findings {
		if f.sre.MatchString(v.Symptom) && f.re.MatchString(v.Key) {
			r.knownHits[f.ID]++
			r.suppressed++
			if p := os.Getenv("VERIF_DUMP_KNOWN"); p != "" {
				// debugging aid: which cases a known finding absorbed
				if fh, err := os.OpenFile(p, os.O_APPEND|os.O_CREATE|os.O_WRONLY, 0o644); err == nil {
					fmt.Fprintf(fh, "%s\t%s\t%s\n", f.ID, v.Symptom, v.Key)
					fh.Close()
				}
			}
			return false
		}
	}
	r.violations = append(r.violations, v)
	return true
}

func (r *Reporter) Violations() int {
	r.mu.Lock()
	defer r.mu.Unlock()
	return len(r.violations)
}

// Elapsed returns seconds since the reporter was created.
func (r *Reporter) Elapsed() float64 { return time.Since(r.start).Seconds() }

// Finish prints KNOWN-FINDING / VIOLATION lines, writes replay files and the evidence file and
// returns the process exit code.
func (r *Reporter) Finish() int {
	r.mu.Lock()
	defer r.mu.Unlock()
	if key := os.Getenv("VERIF_REPLAY_KEY"); key != "" {
		// replay of one recorded case by re-enumeration: only this case is judged, nothing is written
		n := 0
		for _, v := range r.violations {
			if v.Key == key {
				n++
				fmt.Printf("REPLAYED symptom=%s key=%s\n  %s\n", v.Symptom, trunc(v.Key, 400), trunc(v.Msg, 2400))
			}
		}
		if n == 0 {
			fmt.Printf("replay: the case %q was enumerated again by the %s tier and no longer fails (or is no longer part of this tier)\n", trunc(key, 400), r.Tier)
			return 0
		}
		return 1
	}
	ids := make([]string, 0, len(r.knownHits))
	for id := range r.knownHits {
		ids = append(ids, id)
	}
	sort.Strings(ids)
	var kf []string
	for _, id := range ids {
		for _, f := range r.findings {
			if f.ID == id {
				fmt.Printf("KNOWN-FINDING: property=%s %s: %s (matched %d distinct cases)\n", r.Prop, f.ID, f.Summary, r.knownHits[id])
				kf = append(kf, fmt.Sprintf("%s x%d", id, r.knownHits[id]))
			}
		}
	}
	sort.Slice(r.violations, func(i, j int) bool {
		a, b := r.violations[i], r.violations[j]
		if len(a.Key) != len(b.Key) {
			return len(a.Key) < len(b.Key)
		}
		return a.Key < b.Key
	})
	if p := os.Getenv("VERIF_DUMP_VIOLATIONS"); p != "" {
		var lines []string
		for _, v := range r.violations {
			lines = append(lines, v.Symptom+"\t"+v.Key)
		}
		os.WriteFile(p, []byte(strings.Join(lines, "\n")+"\n"), 0o644)
	}
	os.MkdirAll(filepath.Join(VerifDir, "replay"), 0o755)
	shown := 0
	perSym := map[string]int{}
	for _, v := range r.violations {
		if shown >= 24 {
			break
		}
		if perSym[v.Symptom] >= 4 {
			continue
		}
		perSym[v.Symptom]++
		shown++
		h := sha1.Sum([]byte(v.Symptom + "\x00" + v.Key))
		p := filepath.Join(VerifDir, "replay", fmt.Sprintf("%s-%s.json", r.Prop, hex.EncodeToString(h[:6])))
		b, _ := json.MarshalIndent(map[string]any{"property": r.Prop, "driver": r.Driver, "tier": r.Tier,
			"symptom": v.Symptom, "key": v.Key, "msg": v.Msg, "replay": v.Replay}, "", " ")
		os.WriteFile(p, b, 0o644)
		fmt.Printf("VIOLATION property=%s replay=%s\n", r.Prop, p)
		fmt.Printf("  symptom=%s key=%s\n  %s\n", v.Symptom, trunc(v.Key, 400), trunc(v.Msg, 1200))
	}
	if len(r.violations) != 0 {
		bySym := map[string]int{}
		for _, v := range r.violations {
			bySym[v.Symptom]++
		}
		fmt.Printf("  violations by symptom: %v\n", bySym)
		r.Coverage["violations_by_symptom"] = bySym
	}
	if len(r.violations) > shown {
		fmt.Printf("  (%d further distinct violations not shown)\n", len(r.violations)-shown)
	}
	r.Coverage["known_findings"] = kf
	r.Coverage["known_finding_cases_suppressed"] = r.suppressed
	ev := map[string]any{
		"property_id": r.Prop, "tier": r.Tier, "seed": r.Seed, "level": r.Level,
		"coverage": r.Coverage, "assumptions": r.Assumptions,
		"wall_s": time.Since(r.start).Seconds(), "violations": len(r.violations),
	}
	os.MkdirAll(filepath.Join(VerifDir, "evidence"), 0o755)
	b, _ := json.MarshalIndent(ev, "", " ")
	if err := os.WriteFile(filepath.Join(VerifDir, "evidence", r.Prop+".json"), b, 0o644); err != nil {
		fmt.Fprintf(os.Stderr, "harness error: %v\n", err)
		return 2
	}
	fmt.Printf("%s %s: wall=%.1fs violations=%d known=%v coverage=%s\n", r.Prop, r.Tier, time.Since(r.start).Seconds(), len(r.violations), kf, trunc(covSummary(r.Coverage), 600))
	if len(r.violations) != 0 {
		return 1
	}
	return 0
}

func covSummary(c map[string]any) string {
	keys := make([]string, 0, len(c))
	for k := range c {
		if k == "samples" || k == "rule" || k == "explanation" {
			continue
		}
		keys = append(keys, k)
	}
	sort.Strings(keys)
	s := ""
	for _, k := range keys {
		s += fmt.Sprintf("%s=%v ", k, c[k])
	}
	return s
}

func trunc(s string, n int) string {
	if len(s) > n {
		return s[:n] + "…"
	}
	return s
}

// Fatal reports a harness error (never a violation) and exits 2.
func Fatal(format string, a ...any) {
	fmt.Fprintf(os.Stderr, "harness error: "+format+"\n", a...)
	os.Exit(2)
}
