package mc

import (
	"bufio"
	"encoding/json"
	"fmt"
	"os"
	"os/exec"
	"runtime"
	"sort"
	"strconv"
	"strings"
	"sync"
	"syscall"
	"time"
)

// Worker-process support.  A driver whose cases can hang, exhaust memory or kill the process
// (parser loops, panics inside a service goroutine) runs them in worker subprocesses: the same
// binary is started with VERIF_WORKER=<shard>/<of>/<from>; it enumerates the same deterministic
// case list, handles the cases of its shard and reports "S <i>" before and "R <i> <json>" after
// each case on stdout.  The parent attributes a death or a watchdog expiry to the case that was
// started last, records it, and restarts the worker behind that case.

type CaseResult struct {
	Violations []Violation      `json:"v,omitempty"`
	Counters   map[string]int64 `json:"c,omitempty"`
	Outcome    string           `json:"o,omitempty"`
	Sample     string           `json:"s,omitempty"`
}

type ShardedJob struct {
	N        int
	Run      func(i int) CaseResult
	CaseName func(i int) string
	Timeout  time.Duration // watchdog per case (liveness only, orders of magnitude above normal)
	Deadline time.Time     // soft deadline for the whole job (zero = none)
	Workers  int
	MemLimit uint64 // bytes of address space per worker (0 = 6 GiB)
	each     func(i int, r CaseResult)
}

type ShardStats struct {
	Done      int64
	Counters  map[string]int64
	Outcomes  map[string]int
	Samples   []string
	Hangs     []int
	Crashes   []int
	TimedOut  bool
	CrashText map[int]string
}

func workerSpec() (shard, of, from int, ok bool) {
	s := os.Getenv("VERIF_WORKER")
	if s == "" {
		return 0, 0, 0, false
	}
	p := strings.Split(s, "/")
	if len(p) != 3 {
		Fatal("bad VERIF_WORKER %q", s)
	}
	shard, _ = strconv.Atoi(p[0])
	of, _ = strconv.Atoi(p[1])
	from, _ = strconv.Atoi(p[2])
	return shard, of, from, true
}

// IsWorker reports whether this process is a worker subprocess.
func IsWorker() bool { return os.Getenv("VERIF_WORKER") != "" }

// Execute runs the job: in a worker process it handles its shard and exits; in the parent it
// spawns the workers and returns the aggregated statistics (violations are reported to rep).
func (j *ShardedJob) Execute(rep *Reporter) ShardStats {
	if shard, of, from, ok := workerSpec(); ok {
		j.worker(shard, of, from)
		os.Exit(0)
	}
	return j.parent(rep)
}

// ExecuteCollect is Execute for the parent side with a callback for every case result.
func (j *ShardedJob) ExecuteCollect(rep *Reporter, each func(i int, r CaseResult)) ShardStats {
	j.each = each
	return j.parent(rep)
}

func (j *ShardedJob) worker(shard, of, from int) {
	lim := j.MemLimit
	if lim == 0 {
		lim = 6 << 30
	}
	syscall.Setrlimit(syscall.RLIMIT_AS, &syscall.Rlimit{Cur: lim, Max: lim})
	runtime.GOMAXPROCS(2)
	out := bufio.NewWriter(os.Stdout)
	for i := from; i < j.N; i++ {
		if i%of != shard {
			continue
		}
		if !j.Deadline.IsZero() && time.Now().After(j.Deadline) {
			fmt.Fprintf(out, "T %d\n", i)
			out.Flush()
			return
		}
		fmt.Fprintf(out, "S %d\n", i)
		out.Flush()
		var res CaseResult
		if pt := Try(func() { res = j.Run(i) }); pt != "" {
			res.Violations = append(res.Violations, Violation{Symptom: "panic", Key: j.CaseName(i), Msg: "panic: " + pt})
		}
		b, _ := json.Marshal(res)
		fmt.Fprintf(out, "R %d %s\n", i, b)
		out.Flush()
	}
	fmt.Fprintf(out, "E\n")
	out.Flush()
}

func (j *ShardedJob) parent(rep *Reporter) ShardStats {
	n := j.Workers
	if n == 0 {
		n = runtime.NumCPU()
	}
	if n > j.N {
		n = j.N
	}
	st := ShardStats{Counters: map[string]int64{}, Outcomes: map[string]int{}, CrashText: map[int]string{}}
	var mu sync.Mutex
	var wg sync.WaitGroup
	for s := 0; s < n; s++ {
		wg.Add(1)
		go func(shard int) {
			defer wg.Done()
			from := 0
			for from < j.N {
				next, done := j.superviseOne(shard, n, from, rep, &st, &mu)
				if done {
					return
				}
				from = next
			}
		}(s)
	}
	wg.Wait()
	sort.Ints(st.Hangs)
	sort.Ints(st.Crashes)
	return st
}

// superviseOne runs one worker process until it ends; returns the index to restart from.
func (j *ShardedJob) superviseOne(shard, of, from int, rep *Reporter, st *ShardStats, mu *sync.Mutex) (int, bool) {
	cmd := exec.Command(os.Args[0], os.Args[1:]...)
	cmd.Env = append(os.Environ(), fmt.Sprintf("VERIF_WORKER=%d/%d/%d", shard, of, from))
	stdout, err := cmd.StdoutPipe()
	if err != nil {
		Fatal("pipe: %v", err)
	}
	var stderr strings.Builder
	cmd.Stderr = &limitedWriter{w: &stderr, n: 1 << 16}
	if err := cmd.Start(); err != nil {
		Fatal("start worker: %v", err)
	}
	lines := make(chan string, 64)
	go func() {
		sc := bufio.NewScanner(stdout)
		sc.Buffer(make([]byte, 1<<20), 1<<28)
		for sc.Scan() {
			lines <- sc.Text()
		}
		close(lines)
	}()
	current := -1
	timeout := j.Timeout
	if timeout == 0 {
		timeout = 60 * time.Second
	}
	// a worker builds its list of cases before it reports the first one: on a loaded machine that
	// start-up can take minutes for the largest families and is not a hang of the code under test
	startup := 20 * time.Minute
	if startup < timeout {
		startup = timeout
	}
	timer := time.NewTimer(startup)
	defer timer.Stop()
	for {
		select {
		case l, ok := <-lines:
			if !ok {
				cmd.Wait()
				if current >= 0 {
					mu.Lock()
					st.Crashes = append(st.Crashes, current)
					st.CrashText[current] = head(stderr.String(), 1500)
					mu.Unlock()
					return current + 1, false
				}
				return j.N, true
			}
			if !timer.Stop() {
				select {
				case <-timer.C:
				default:
				}
			}
			timer.Reset(timeout)
			switch {
			case strings.HasPrefix(l, "S "):
				current, _ = strconv.Atoi(l[2:])
			case strings.HasPrefix(l, "R "):
				sp := strings.SplitN(l, " ", 3)
				var res CaseResult
				if err := json.Unmarshal([]byte(sp[2]), &res); err != nil {
					Fatal("worker protocol: %v", err)
				}
				for _, v := range res.Violations {
					rep.Report(v)
				}
				mu.Lock()
				if j.each != nil {
					idx, _ := strconv.Atoi(sp[1])
					j.each(idx, res)
				}
				st.Done++
				for k, v := range res.Counters {
					st.Counters[k] += v
				}
				if res.Outcome != "" {
					st.Outcomes[res.Outcome]++
				}
				if res.Sample != "" && len(st.Samples) < 10 && j.each == nil {
					st.Samples = append(st.Samples, res.Sample)
				}
				mu.Unlock()
				current = -1
			case strings.HasPrefix(l, "T "):
				mu.Lock()
				st.TimedOut = true
				mu.Unlock()
			case l == "E":
			}
		case <-timer.C:
			cmd.Process.Kill()
			cmd.Wait()
			if current < 0 {
				Fatal("worker %d silent for %v outside a case", shard, timeout)
			}
			mu.Lock()
			st.Hangs = append(st.Hangs, current)
			mu.Unlock()
			return current + 1, false
		}
	}
}

type limitedWriter struct {
	w *strings.Builder
	n int
}

func (l *limitedWriter) Write(p []byte) (int, error) {
	if l.w.Len() < l.n {
		l.w.Write(p)
	}
	return len(p), nil
}

func head(s string, n int) string {
	if len(s) > n {
		return s[:n]
	}
	return s
}
