package c12

import (
	"bufio"
	"fmt"
	"os"
	"regexp"
	"strconv"
	"strings"
)

// Mutation is one completed file-system mutation below the data directory, in the order the kernel
// performed them.
type Mutation struct {
	Kind string // create | write | truncate | unlink | rename | mkdir
	Path string // relative to the data directory
	To   string // rename target
	Off  int64
	Data []byte
	Len  int64
}

func (m Mutation) String() string {
	switch m.Kind {
	case "write":
		return fmt.Sprintf("write %s @%d +%d", m.Path, m.Off, len(m.Data))
	case "rename":
		return fmt.Sprintf("rename %s -> %s", m.Path, m.To)
	case "truncate":
		return fmt.Sprintf("truncate %s %d", m.Path, m.Len)
	}
	return m.Kind + " " + m.Path
}

func unhex(s string) string {
	var b []byte
	for i := 0; i < len(s); {
		if s[i] == '\\' && i+3 < len(s) && s[i+1] == 'x' {
			v, _ := strconv.ParseUint(s[i+2:i+4], 16, 8)
			b = append(b, byte(v))
			i += 4
			continue
		}
		b = append(b, s[i])
		i++
	}
	return string(b)
}

var (
	reLine    = regexp.MustCompile(`^(\d+)\s+(.*)$`)
	reResumed = regexp.MustCompile(`^<\.\.\. (\w+) resumed>(.*)$`)
	reFd      = regexp.MustCompile(`^(\d+)<([^>]*)>`)
	reRet     = regexp.MustCompile(`\)\s+= `)
)

// ParseJournal reads `strace -f -y -xx` output and returns the mutations of files below root.
func ParseJournal(file, root string) ([]Mutation, error) {
	f, err := os.Open(file)
	if err != nil {
		return nil, err
	}
	defer f.Close()
	sc := bufio.NewScanner(f)
	sc.Buffer(make([]byte, 1<<20), 1<<30)
	pending := map[string]string{}
	offsets := map[string]int64{} // fd number -> offset
	appendMode := map[string]bool{}
	sizes := map[string]int64{} // path -> size (for O_APPEND and SEEK_END)
	var out []Mutation
	rel := func(p string) (string, bool) {
		if strings.HasPrefix(p, root+"/") {
			return p[len(root)+1:], true
		}
		return "", false
	}
	grow := func(p string, end int64) {
		if sizes[p] < end {
			sizes[p] = end
		}
	}
	for sc.Scan() {
		m := reLine.FindStringSubmatch(sc.Text())
		if m == nil {
			continue
		}
		pid, rest := m[1], m[2]
		if strings.HasSuffix(rest, "<unfinished ...>") {
			pending[pid] = strings.TrimSuffix(rest, "<unfinished ...>")
			continue
		}
		if r := reResumed.FindStringSubmatch(rest); r != nil {
			rest = pending[pid] + r[2]
			delete(pending, pid)
		}
		paren := strings.IndexByte(rest, '(')
		loc := reRet.FindAllStringIndex(rest, -1)
		if paren < 0 || len(loc) == 0 {
			continue
		}
		eq, eqEnd := loc[len(loc)-1][0], loc[len(loc)-1][1]
		call, args, ret := rest[:paren], rest[paren+1:eq], strings.TrimSpace(rest[eqEnd:])
		if strings.HasPrefix(ret, "-1") || strings.HasPrefix(ret, "?") {
			continue
		}
		fdOf := func(a string) (string, string) {
			if x := reFd.FindStringSubmatch(a); x != nil {
				return x[1], unhex(x[2])
			}
			return "", ""
		}
		quoted := func(a string) []string {
			var res []string
			for {
				i := strings.IndexByte(a, '"')
				if i < 0 {
					return res
				}
				j := strings.IndexByte(a[i+1:], '"')
				if j < 0 {
					return res
				}
				res = append(res, unhex(a[i+1:i+1+j]))
				a = a[i+j+2:]
			}
		}
		switch call {
		case "openat", "creat":
			q := quoted(args)
			if len(q) == 0 {
				continue
			}
			path := q[0]
			fd, _ := fdOf(ret)
			p, ok := rel(path)
			offsets[fd] = 0
			appendMode[fd] = strings.Contains(args, "O_APPEND")
			if !ok {
				continue
			}
			if strings.Contains(args, "O_DIRECTORY") {
				continue
			}
			if strings.Contains(args, "O_CREAT") || call == "creat" {
				trunc := strings.Contains(args, "O_TRUNC") || call == "creat"
				out = append(out, Mutation{Kind: "create", Path: p, Len: map[bool]int64{true: 1, false: 0}[trunc]})
				if trunc {
					sizes[p] = 0
				}
			} else if strings.Contains(args, "O_TRUNC") {
				out = append(out, Mutation{Kind: "truncate", Path: p, Len: 0})
				sizes[p] = 0
			}
		case "write", "pwrite64":
			fd, path := fdOf(args)
			p, ok := rel(path)
			q := quoted(args)
			n, _ := strconv.ParseInt(ret, 10, 64)
			if !ok {
				if call == "write" {
					offsets[fd] += n
				}
				continue
			}
			data := []byte{}
			if len(q) != 0 {
				data = []byte(q[0])
			}
			if int64(len(data)) > n {
				data = data[:n]
			}
			if int64(len(data)) != n {
				return nil, fmt.Errorf("journal: write of %d bytes to %s logged with %d bytes (strace -s too small?)", n, p, len(data))
			}
			off := offsets[fd]
			if call == "pwrite64" {
				parts := strings.Split(args, ", ")
				off, _ = strconv.ParseInt(parts[len(parts)-1], 10, 64)
			} else {
				if appendMode[fd] {
					off = sizes[p]
				}
				offsets[fd] = off + n
			}
			grow(p, off+n)
			out = append(out, Mutation{Kind: "write", Path: p, Off: off, Data: data})
		case "lseek":
			fd, _ := fdOf(args)
			n, _ := strconv.ParseInt(ret, 10, 64)
			offsets[fd] = n
		case "ftruncate":
			_, path := fdOf(args)
			if p, ok := rel(path); ok {
				parts := strings.Split(args, ", ")
				n, _ := strconv.ParseInt(parts[len(parts)-1], 10, 64)
				sizes[p] = n
				out = append(out, Mutation{Kind: "truncate", Path: p, Len: n})
			}
		case "unlinkat", "unlink":
			q := quoted(args)
			if len(q) == 0 {
				continue
			}
			if p, ok := rel(q[0]); ok {
				if strings.Contains(args, "AT_REMOVEDIR") {
					continue
				}
				delete(sizes, p)
				out = append(out, Mutation{Kind: "unlink", Path: p})
			}
		case "rename", "renameat", "renameat2":
			q := quoted(args)
			if len(q) < 2 {
				continue
			}
			a, ok1 := rel(q[0])
			b, ok2 := rel(q[1])
			if ok1 && ok2 {
				sizes[b] = sizes[a]
				delete(sizes, a)
				out = append(out, Mutation{Kind: "rename", Path: a, To: b})
			}
		case "mkdirat", "mkdir":
			q := quoted(args)
			if len(q) == 0 {
				continue
			}
			if p, ok := rel(q[0]); ok {
				out = append(out, Mutation{Kind: "mkdir", Path: p})
			}
		case "close":
			fd, _ := fdOf(args)
			delete(offsets, fd)
			delete(appendMode, fd)
		}
	}
	return out, sc.Err()
}

// ConverterBin is the harness converter that files below conv/ are linked to when a tree is materialised.
var ConverterBin string

// FS is an in-memory directory tree.
type FS struct {
	Files map[string][]byte
	Dirs  map[string]bool
}

func NewFS() *FS { return &FS{Files: map[string][]byte{}, Dirs: map[string]bool{}} }

func (fs *FS) Clone() *FS {
	n := NewFS()
	for k, v := range fs.Files {
		n.Files[k] = v // contents are copy-on-write below
	}
	for k := range fs.Dirs {
		n.Dirs[k] = true
	}
	return n
}

// Apply performs a mutation; cut >= 0 shortens a write to its first cut bytes (torn write).
func (fs *FS) Apply(m Mutation, cut int) {
	switch m.Kind {
	case "mkdir":
		fs.Dirs[m.Path] = true
	case "create":
		if _, ok := fs.Files[m.Path]; !ok || m.Len == 1 {
			fs.Files[m.Path] = []byte{}
		}
	case "truncate":
		b := fs.Files[m.Path]
		n := make([]byte, m.Len)
		copy(n, b)
		fs.Files[m.Path] = n
	case "unlink":
		delete(fs.Files, m.Path)
	case "rename":
		fs.Files[m.To] = fs.Files[m.Path]
		delete(fs.Files, m.Path)
	case "write":
		data := m.Data
		if cut >= 0 && cut < len(data) {
			data = data[:cut]
		}
		old := fs.Files[m.Path]
		end := m.Off + int64(len(data))
		size := int64(len(old))
		if end > size {
			size = end
		}
		if len(data) == 0 {
			return
		}
		n := make([]byte, size)
		copy(n, old)
		copy(n[m.Off:], data)
		fs.Files[m.Path] = n
	}
}

// WriteTo materialises the tree below dir.
func (fs *FS) WriteTo(dir string) error {
	for d := range fs.Dirs {
		if err := os.MkdirAll(dir+"/"+d, 0o755); err != nil {
			return err
		}
	}
	for p, b := range fs.Files {
		if i := strings.LastIndexByte(p, '/'); i >= 0 {
			if err := os.MkdirAll(dir+"/"+p[:i], 0o755); err != nil {
				return err
			}
		}
		if strings.HasPrefix(p, "conv/") && ConverterBin != "" {
			// converters are linked, not copied (see svc.NewWorldIn)
			if err := os.Symlink(ConverterBin, dir+"/"+p); err != nil {
				return err
			}
			continue
		}
		if err := os.WriteFile(dir+"/"+p, b, 0o644); err != nil {
			return err
		}
	}
	return nil
}
