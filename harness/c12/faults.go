package c12

// Settings across a clean restart with a period in which the state directory cannot be written.
//
// Every sequence of up to three settings calls (config on/off, a webhook added / removed, an endpoint added /
// removed), with no fault or with the state directory unavailable during any contiguous part of the sequence, is run
// on the real service, followed by a clean shutdown and a start on the same directories.  What a call acknowledged
// (returned without error) after the last failed call on that setting must be there after the restart; a setting
// touched by a call that returned an error may have either value.

import (
	"fmt"
	"sort"
	"strings"
	"sync/atomic"

	"github.com/spq/pkappa2/verifx/mc"
	"github.com/spq/pkappa2/verifx/svc"
)

var settingCalls = []string{"config:on", "config:off", "webhook:http://127.0.0.1:9/a", "webhook.del:http://127.0.0.1:9/a", "endpoint:127.0.0.1:9", "endpoint.del:127.0.0.1:9"}

type faultCase struct {
	calls    []int
	from, to int // the state directory is unavailable for calls[from:to] (from == to: never)
}

func (c faultCase) String() string {
	var parts []string
	for i, k := range c.calls {
		if i == c.from && c.from != c.to {
			parts = append(parts, "[state directory unavailable")
		}
		parts = append(parts, settingCalls[k])
		if i == c.to-1 && c.from != c.to {
			parts = append(parts, "available again]")
		}
	}
	return strings.Join(parts, " ; ")
}

func settingsOf(w *svc.World) map[string]string {
	m := map[string]string{"config": fmt.Sprint(w.Mgr.Config().AutoInsertLimitToQuery)}
	wh := append([]string{}, w.Mgr.ListPcapProcessorWebhooks()...)
	sort.Strings(wh)
	m["webhooks"] = strings.Join(wh, ",")
	var ep []string
	for _, e := range w.Mgr.ListPcapOverIPEndpoints() {
		ep = append(ep, e.Address)
	}
	sort.Strings(ep)
	m["endpoints"] = strings.Join(ep, ",")
	return m
}

func settingOfCall(call string) string {
	switch {
	case strings.HasPrefix(call, "config:"):
		return "config"
	case strings.HasPrefix(call, "webhook"):
		return "webhooks"
	}
	return "endpoints"
}

func runSettingsFaults(rep *mc.Reporter, tier string) map[string]any {
	maxLen := 3
	var cases []faultCase
	var rec func(cur []int)
	rec = func(cur []int) {
		if n := len(cur); n > 0 {
			cases = append(cases, faultCase{calls: append([]int{}, cur...)})
			for i := 0; i < n; i++ {
				for j := i + 1; j <= n; j++ {
					cases = append(cases, faultCase{calls: append([]int{}, cur...), from: i, to: j})
				}
			}
		}
		if len(cur) == maxLen {
			return
		}
		for k := range settingCalls {
			rec(append(cur, k))
		}
	}
	rec(nil)
	var done, failedCalls, lost int64
	mc.ParFor(len(cases), func(ci int) {
		c := cases[ci]
		w, err := svc.NewWorld("")
		if err != nil {
			mc.Fatal("%v", err)
		}
		defer w.Destroy()
		// what the client was told: the value of each setting after its last acknowledged call, and whether a
		// call on it failed afterwards (then either value is acceptable)
		want := settingsOf(w)
		unsure := map[string]bool{}
		for i, k := range c.calls {
			if i == c.from && c.from != c.to {
				if err := w.ApplyAPI("fault:statedir-gone"); err != nil {
					mc.Fatal("%s: %v", c, err)
				}
			}
			n := len(w.Events)
			if err := w.ApplyAPI(settingCalls[k]); err != nil {
				mc.Fatal("%s: %v", c, err)
			}
			set := settingOfCall(settingCalls[k])
			if strings.Contains(w.Events[n], "-> error") {
				atomic.AddInt64(&failedCalls, 1)
				unsure[set] = true
			} else {
				want[set] = settingsOf(w)[set]
				unsure[set] = false
			}
			if i == c.to-1 && c.from != c.to {
				if err := w.ApplyAPI("fault:statedir-back"); err != nil {
					mc.Fatal("%s: %v", c, err)
				}
			}
		}
		if err := w.Restart(); err != nil {
			rep.Report(mc.Violation{Symptom: "c12.settings.restart-failed", Key: c.String(), Msg: fmt.Sprintf("after [%s] a clean shutdown and start fails: %v", c, err), Replay: map[string]any{"case": c.String()}})
			return
		}
		got := settingsOf(w)
		for _, set := range []string{"config", "webhooks", "endpoints"} {
			if !unsure[set] && got[set] != want[set] {
				atomic.AddInt64(&lost, 1)
				rep.Report(mc.Violation{Symptom: "c12.settings.acknowledged-setting-lost", Key: c.String(),
					Msg:    fmt.Sprintf("after [%s], a clean shutdown and a start: %s is %q, the last acknowledged call left it as %q", c, set, got[set], want[set]),
					Replay: map[string]any{"case": c.String()}})
			}
		}
		atomic.AddInt64(&done, 1)
	}, func(i int, text string) {
		rep.Report(mc.Violation{Symptom: "c12.settings.panic", Key: cases[i].String(), Msg: text})
	})
	return map[string]any{
		"settings_fault_cases":        len(cases),
		"settings_fault_cases_run":    done,
		"settings_calls_that_failed":  failedCalls,
		"settings_fault_rule":         "every sequence of <=3 settings calls (config on/off, webhook add/remove, endpoint add/remove) x {no fault, state directory unavailable during any contiguous part of the sequence}, then a clean shutdown and a start on the same directories: a setting whose last call was acknowledged has the acknowledged value (a setting whose last call returned an error may have either)",
	}
}
