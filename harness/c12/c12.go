// Package c12: state survives a clean restart and a process kill at any point.  A history is run
// once on the real service under strace; every prefix of the resulting file-system mutation journal
// (with torn variants of the last write) is materialised and recovered from with the real
// manager.New in a supervised worker.
package c12

import (
	"encoding/json"
	"fmt"
	"os"
	"os/exec"
	"path/filepath"
	"sort"
	"strings"
	"time"

	"github.com/spq/pkappa2/verifx/mc"
	"github.com/spq/pkappa2/verifx/svc"
)

type History struct {
	Name      string
	Converter bool
	Events    []string // api:<call> | step:<kind> | drain
}

func histories(tier string) []History {
	h := []History{
		{Name: "converter", Converter: true, Events: []string{"api:import:P1", "drain", "api:addtag:tag/p=cport:1", "api:converters:tag/p=conv", "drain", "api:import:P3", "drain", "api:import:P2", "drain"}},
		{Name: "tags-imports-merge", Events: []string{"api:addtag:tag/d=cdata:foo3", "api:addtag:tag/i=id:1:", "api:color:tag/d=#abcdef", "api:config:on", "api:webhook:http://127.0.0.1:9/hook", "api:endpoint:127.0.0.1:9", "api:import:P1", "drain", "api:import:P2", "drain",
			"api:addtag:mark/m=id:0", "api:markadd:mark/m=1", "api:addtag:tag/r=-tag:d", "api:addtag:tag/w=tag:d @s:tag:d sport:@s:sport@", "drain", "api:import:P3", "drain", "api:deltag:tag/r", "api:rename:mark/m=mark/n", "drain"}},
		{Name: "merge-overtaken-by-import", Events: []string{"api:import:P1", "step:import", "step:import", "api:import:P2", "step:import", "step:import", "api:import:P3",
			"step:import", "step:import", "step:merge", "step:merge", "drain", "api:addtag:service/s=sport:53", "drain"}},
	}
	h = append(h,
		// an out-of-order capture that resets a stored stream, then a capture that only continues it: the index
		// file that sorts last holds nothing but an old, low stream id; marks on the highest ids
		History{Name: "reset-then-extension-only", Events: []string{"api:addtag:service/s=sport:53", "api:import:P1+P2", "drain", "api:import:P0", "drain", "api:addtag:mark/k=id:2", "api:import:P3", "drain",
			"api:markadd:mark/k=3", "api:import:P6", "drain", "api:markdel:mark/k=2", "drain"}},
		// settings, webhooks and endpoints that are added AND removed again, a tag that is renamed and deleted:
		// what was acknowledged as gone must stay gone
		History{Name: "settings-added-and-removed", Events: []string{"api:config:on", "api:webhook:http://127.0.0.1:9/a", "api:webhook:http://127.0.0.1:9/b", "api:endpoint:127.0.0.1:9", "api:endpoint:127.0.0.1:10",
			"api:addtag:tag/p=cport:1", "api:import:P1", "drain", "api:webhook.del:http://127.0.0.1:9/a", "api:endpoint.del:127.0.0.1:9", "api:config:off", "api:color:tag/p=#010203", "api:rename:tag/p=tag/q", "drain", "api:deltag:tag/q", "api:addtag:tag/p=sport:80", "drain"}},
		// a converter attached to two tags, detached from one, its output invalidated by an extension
		History{Name: "converter-on-two-tags", Converter: true, Events: []string{"api:import:P1+P2", "drain", "api:addtag:tag/p=cport:1", "api:addtag:service/w=sport:80", "api:converters:tag/p=conv", "api:converters:service/w=conv", "drain",
			"api:converters:tag/p=", "api:import:P3", "drain", "api:converters:service/w=conv,conv2", "drain"}},
	)
	h = append(h,
		// a converter attached to a mark list (nothing re-evaluates a mark list after a restart: its streams must be
		// queued for conversion when the attachment is restored), output invalidated by an extension
		History{Name: "converter-on-mark", Converter: true, Events: []string{"api:import:P1+P2", "drain", "api:addtag:mark/m=id:0,1", "api:converters:mark/m=conv", "drain", "api:import:P3", "drain"}},
	)
	if tier == "thorough" {
		h = append(h,
			History{Name: "queued-imports-and-edits", Events: []string{"api:import:P1", "api:import:P2", "api:import:P3", "api:addtag:tag/d=data:foo", "step:import", "api:updtag:tag/d=sdata:bar", "drain", "api:import:P4", "drain"}},
		)
	}
	return h
}

type mark struct {
	Kind string            `json:"k"` // ACK | VIS
	Call string            `json:"c,omitempty"`
	Tags map[string]string `json:"t,omitempty"` // name -> definition|color|converters
	Conf string            `json:"f,omitempty"`
	Vis  map[string]string `json:"v,omitempty"` // id -> digest
}

func tagTable(w *svc.World) (map[string]string, string) {
	st := w.Mgr.VerifDump()
	t := map[string]string{}
	for _, x := range st.Tags {
		def := x.Definition
		if strings.HasPrefix(x.Name, "mark/") || strings.HasPrefix(x.Name, "generated/") {
			def = fmt.Sprint(x.Matches) // marks are defined by their members
		}
		t[x.Name] = fmt.Sprintf("%s|%s|%v", def, x.Color, x.Converters)
	}
	hooks := w.Mgr.ListPcapProcessorWebhooks()
	sort.Strings(hooks)
	var eps []string
	for _, e := range w.Mgr.ListPcapOverIPEndpoints() {
		eps = append(eps, e.Address)
	}
	sort.Strings(eps)
	return t, fmt.Sprintf("config=%+v webhooks=%v endpoints=%v", w.Mgr.Config(), hooks, eps)
}

func visible(w *svc.World) (map[string]string, error) {
	st := w.Mgr.VerifDump()
	vis, err := svc.VisibleThrough(st.Indexes)
	if err != nil {
		return nil, err
	}
	out := map[string]string{}
	for id, s := range vis {
		o, err := svc.ObserveStream(s)
		if err != nil {
			return nil, err
		}
		out[fmt.Sprint(id)] = o.Digest
	}
	return out, nil
}

func writeMark(path string, m mark) {
	b, _ := json.Marshal(m)
	f, err := os.OpenFile(path, os.O_APPEND|os.O_CREATE|os.O_WRONLY, 0o644)
	if err != nil {
		mc.Fatal("%v", err)
	}
	f.Write(append(b, '\n'))
	f.Close()
}

// JournalChild runs a history in the directory given by VERIF_WORLD_DIR (already populated by the
// parent) and records acknowledgement / visibility marks in marks.log inside it.
func JournalChild(name string) int {
	dir := os.Getenv("VERIF_WORLD_DIR")
	for _, h := range histories("thorough") {
		if h.Name != name {
			continue
		}
		w, err := svc.NewWorldIn(dir, "", false)
		if err != nil {
			mc.Fatal("%v", err)
		}
		marks := filepath.Join(dir, "marks.log")
		emitVis := func() {
			v, err := visible(w)
			if err != nil {
				mc.Fatal("%v", err)
			}
			writeMark(marks, mark{Kind: "VIS", Vis: v})
		}
		emitVis()
		for _, ev := range h.Events {
			if ev == "drain" {
				for len(w.ParkedNames()) != 0 {
					if err := w.Step(w.ParkedNames()[0]); err != nil {
						mc.Fatal("%v", err)
					}
					emitVis()
				}
				continue
			}
			if err := w.Apply(ev); err != nil {
				mc.Fatal("%s: %v", ev, err)
			}
			if strings.HasPrefix(ev, "api:") {
				t, c := tagTable(w)
				writeMark(marks, mark{Kind: "ACK", Call: ev, Tags: t, Conf: c})
			}
			emitVis()
		}
		w.Restart() // clean shutdown and start are part of the journal too
		emitVis()
		w.Destroy0()
		return 0
	}
	fmt.Fprintln(os.Stderr, "unknown history", name)
	return 2
}

func readFS(root string) (*FS, error) {
	fs := NewFS()
	err := filepath.Walk(root, func(p string, info os.FileInfo, err error) error {
		if err != nil {
			return err
		}
		rel, _ := filepath.Rel(root, p)
		if rel == "." {
			return nil
		}
		if info.IsDir() {
			fs.Dirs[rel] = true
			return nil
		}
		b, err := os.ReadFile(p)
		if err != nil {
			return err
		}
		fs.Files[rel] = b
		return nil
	})
	return fs, err
}

type crashCase struct {
	Prefix int // number of complete mutations
	Cut    int // -1: none; otherwise mutation Prefix is applied with its first Cut bytes
}

type plan struct {
	hist  History
	base  *FS
	muts  []Mutation
	marks []mark // complete run
	cases []crashCase
}

func parseMarks(b []byte) []mark {
	var out []mark
	for _, l := range strings.Split(string(b), "\n") {
		if l == "" {
			continue
		}
		var m mark
		if json.Unmarshal([]byte(l), &m) != nil {
			break // torn last line
		}
		out = append(out, m)
	}
	return out
}

// JournalRetries counts journals that had to be recorded again because the recording did not pass
// its conformance replay.
var JournalRetries int

// makePlan records the journal of a history.  strace logs the system calls of concurrent threads
// in the order it sees them, which for two writes racing on one descriptor need not be the order
// in which the kernel applied them; such a recording fails the conformance replay (it is never
// used) and the history - which the gates make deterministic - is simply recorded again.
func makePlan(h History, convBin, scratch string) (*plan, error) {
	var pl *plan
	var err error
	for attempt := 0; attempt < 4; attempt++ {
		pl, err = makePlanOnce(h, convBin, scratch)
		if err == nil || !strings.Contains(err.Error(), "journal of ") {
			return pl, err
		}
		JournalRetries++
	}
	return pl, err
}

func makePlanOnce(h History, convBin, scratch string) (*plan, error) {
	dir := filepath.Join(scratch, "journal-"+h.Name)
	os.RemoveAll(dir)
	if err := os.MkdirAll(dir, 0o755); err != nil {
		return nil, err
	}
	if os.Getenv("VERIF_C12_KEEP") == "" {
		defer os.RemoveAll(dir)
	}
	// populate (outside the journal): sub-directories, staging captures, converter
	bin := ""
	if h.Converter {
		bin = convBin
	}
	w, err := svc.NewWorldIn(dir, bin, true)
	if err != nil {
		return nil, err
	}
	w.Destroy0()
	base, err := readFS(dir)
	if err != nil {
		return nil, err
	}
	trace := filepath.Join(scratch, "trace-"+h.Name+".txt")
	if os.Getenv("VERIF_C12_KEEP") == "" {
		defer os.Remove(trace)
	} else {
		fmt.Println("keeping", trace, dir)
	}
	cmd := exec.Command("strace", "-f", "-y", "-xx", "-s", "4000000", "-o", trace,
		"-e", "trace=openat,creat,write,pwrite64,lseek,ftruncate,unlinkat,unlink,rename,renameat,renameat2,close,mkdirat,mkdir",
		os.Args[0], "-c12-journal", h.Name)
	cmd.Env = append(os.Environ(), "VERIF_WORLD_DIR="+dir)
	if out, err := cmd.CombinedOutput(); err != nil {
		return nil, fmt.Errorf("journal run of %s: %v: %s", h.Name, err, tailStr(string(out), 600))
	}
	muts, err := ParseJournal(trace, dir)
	if err != nil {
		return nil, err
	}
	// conformance of the journal: replaying all mutations must reproduce the directory on disk
	fs := base.Clone()
	for _, m := range muts {
		fs.Apply(m, -1)
	}
	disk, err := readFS(dir)
	if err != nil {
		return nil, err
	}
	for p, b := range disk.Files {
		if string(fs.Files[p]) != string(b) {
			return nil, fmt.Errorf("journal of %s does not reproduce %s (%d bytes replayed, %d on disk)", h.Name, p, len(fs.Files[p]), len(b))
		}
	}
	for p := range fs.Files {
		if _, ok := disk.Files[p]; !ok {
			return nil, fmt.Errorf("journal of %s leaves %s which is not on disk", h.Name, p)
		}
	}
	pl := &plan{hist: h, base: base, muts: muts, marks: parseMarks(disk.Files["marks.log"])}
	for k := 0; k <= len(muts); k++ {
		pl.cases = append(pl.cases, crashCase{k, -1})
		if k < len(muts) && muts[k].Kind == "write" && muts[k].Path != "marks.log" {
			n := len(muts[k].Data)
			for _, c := range []int{0, 1, n / 2, n - 1} {
				if c > 0 && c < n || c == 0 && n > 1 {
					pl.cases = append(pl.cases, crashCase{k, c})
				}
			}
		}
	}
	return pl, nil
}

func tailStr(s string, n int) string {
	if len(s) > n {
		return s[len(s)-n:]
	}
	return s
}

func (pl *plan) caseName(c crashCase) string {
	at := "end of history"
	if c.Prefix < len(pl.muts) {
		at = "before " + pl.muts[c.Prefix].String()
	}
	if c.Cut >= 0 {
		at = fmt.Sprintf("inside %s (first %d bytes written)", pl.muts[c.Prefix].String(), c.Cut)
	}
	return fmt.Sprintf("%s: kill after %d mutations, %s", pl.hist.Name, c.Prefix, at)
}

// generalName drops file names (time stamps) so that the key of a finding is stable across runs.
func generalName(s string) string {
	f := strings.Fields(s)
	for i, x := range f {
		if strings.Contains(x, "/20") {
			d, b := filepath.Split(x)
			ext := b
			if j := strings.Index(b, "."); j >= 0 {
				ext = b[strings.LastIndex(b, "."):]
				if strings.HasSuffix(b, ".state.json") {
					ext = ".state.json"
				}
			}
			f[i] = d + "*" + ext
		}
	}
	return strings.Join(f, " ")
}

func (pl *plan) recover(c crashCase, convBin, scratch string, idx int) mc.CaseResult {
	var res mc.CaseResult
	name := pl.caseName(c)
	bad := func(sym, f string, a ...any) {
		key := generalName(name)
		if strings.Contains(sym, ".c16.") || strings.Contains(sym, ".c06.") || strings.Contains(sym, ".c09.") {
			// invariant violations carry their own description in the key (narrow known-finding matchers)
			d := fmt.Sprintf(f, a...)
			if len(d) > 200 {
				d = d[:200]
			}
			key += " | " + d
		}
		res.Violations = append(res.Violations, mc.Violation{Symptom: sym, Key: key, Msg: name + ": " + fmt.Sprintf(f, a...),
			Replay: map[string]any{"history": pl.hist.Name, "events": pl.hist.Events, "mutations": c.Prefix, "cut": c.Cut}})
	}
	fs := pl.base.Clone()
	for _, m := range pl.muts[:c.Prefix] {
		fs.Apply(m, -1)
	}
	if c.Cut >= 0 {
		fs.Apply(pl.muts[c.Prefix], c.Cut)
	}
	have := parseMarks(fs.Files["marks.log"])
	dir := filepath.Join(scratch, fmt.Sprintf("rec-%s-%d", pl.hist.Name, idx))
	os.RemoveAll(dir)
	if err := fs.WriteTo(dir); err != nil {
		mc.Fatal("%v", err)
	}
	defer os.RemoveAll(dir)
	w, err := svc.NewWorldIn(dir, "", false)
	if err != nil {
		bad("c12.restart-failed", "manager.New fails: %v", err)
		return res
	}
	defer w.Destroy0()
	drain := func() bool {
		for i := 0; len(w.ParkedNames()) != 0; i++ {
			if i > 80 {
				bad("c12.does-not-settle", "after the restart jobs keep running: %v", w.ParkedNames())
				return false
			}
			if err := w.Step(w.ParkedNames()[0]); err != nil {
				bad("c12.job-error", "%v", err)
				return false
			}
		}
		return true
	}
	if !drain() {
		return res
	}
	// acknowledged tags, settings
	lastAck, lastVis := -1, -1
	for i, m := range have {
		if m.Kind == "ACK" {
			lastAck = i
		} else {
			lastVis = i
		}
	}
	nextOf := func(kind string, after int) int {
		for i := after + 1; i < len(pl.marks); i++ {
			if pl.marks[i].Kind == kind {
				return i
			}
		}
		return -1
	}
	gotTags, gotConf := tagTable(w)
	accept := []int{}
	if lastAck >= 0 {
		accept = append(accept, lastAck)
	}
	if n := nextOf("ACK", max(lastAck, len(have)-1)); n >= 0 {
		accept = append(accept, n)
	}
	okTags := lastAck < 0 && len(gotTags) == 0
	var wantDesc []string
	for _, a := range accept {
		wantDesc = append(wantDesc, fmt.Sprintf("%v %s", pl.marks[a].Tags, pl.marks[a].Conf))
		if mapsEqual(pl.marks[a].Tags, gotTags) && pl.marks[a].Conf == gotConf {
			okTags = true
		}
	}
	if lastAck < 0 && !okTags {
		// nothing acknowledged yet: the first call may or may not have been persisted
		okTags = len(accept) != 0 && mapsEqual(pl.marks[accept[0]].Tags, gotTags) || len(gotTags) == 0
	}
	if !okTags {
		bad("c12.acknowledged-state-lost", "after the restart tags/settings are %v %s; acknowledged before the kill: %s", gotTags, gotConf, strings.Join(wantDesc, "  OR (call in flight)  "))
	}
	// streams of completed imports under their old id, newest payload
	gotVis, err := visible(w)
	if err != nil {
		bad("c12.unreadable-after-restart", "%v", err)
		return res
	}
	versions := map[string][]string{}
	for _, m := range pl.marks {
		if m.Kind != "VIS" {
			continue
		}
		for id, d := range m.Vis {
			v := versions[id]
			if len(v) == 0 || v[len(v)-1] != d {
				versions[id] = append(v, d)
			}
		}
	}
	if lastVis >= 0 {
		for id, d := range have[lastVis].Vis {
			g, ok := gotVis[id]
			if !ok {
				bad("c12.stream-lost", "stream %s (%s) was visible before the kill and is gone after the restart", id, d)
				continue
			}
			want, got := indexOf(versions[id], d), indexOf(versions[id], g)
			if got < 0 {
				bad("c12.stream-garbled", "stream %s reads back as %q after the restart, which it never was (before the kill: %q)", id, g, d)
			} else if got < want {
				bad("c12.stream-stale", "stream %s reads back in an older version %q after the restart; before the kill it was %q", id, g, d)
			}
		}
	}
	for id, g := range gotVis {
		if indexOf(versions[id], g) < 0 {
			bad("c12.stream-garbled", "after the restart stream %s reads back as %q, which no import of the history produced", id, g)
		}
	}
	s, err := w.Snapshot(0)
	if err == nil {
		for _, v := range svc.CheckQuiescent(w, s) {
			bad("c12.after-restart."+v.Symptom, "%s", v.Msg)
		}
		for _, v := range svc.CheckC06(w, s) {
			bad("c12.after-restart."+v.Symptom, "%s", v.Msg)
		}
		if pl.hist.Converter {
			for _, v := range svc.CheckC16(w, s, true) {
				bad("c12.after-restart."+v.Symptom, "%s", v.Msg)
			}
		}
	}
	// recovery must be stable: a clean restart right away, without any call in between, shows the
	// same tags, settings and endpoints (nothing the first start wrote may have dropped them)
	if err := w.Restart(); err != nil {
		bad("c12.immediate-second-restart-failed", "%v", err)
		return res
	}
	if !drain() {
		return res
	}
	if t2, c2 := tagTable(w); !mapsEqual(t2, gotTags) || c2 != gotConf {
		bad("c12.immediate-second-restart.state-changed", "after the first restart tags/settings were %v %s; after a clean restart right away they are %v %s", gotTags, gotConf, t2, c2)
	}
	// continuation
	for _, call := range []string{"import:P4", "addtag:tag/z=cport:1"} {
		if err := w.ApplyAPI(call); err != nil {
			bad("c12.continuation-error", "%s: %v", call, err)
			return res
		}
	}
	if !drain() {
		return res
	}
	judge := func(phase string) {
		s, err := w.Snapshot(0)
		if err != nil {
			bad("c12."+phase+".unreadable", "%v", err)
			return
		}
		for _, v := range svc.CheckQuiescent(w, s) {
			bad("c12."+phase+"."+v.Symptom, "%s", v.Msg)
		}
		for _, v := range svc.CheckC06(w, s) {
			bad("c12."+phase+"."+v.Symptom, "%s", v.Msg)
		}
		if pl.hist.Converter {
			for _, v := range svc.CheckC16(w, s, true) {
				bad("c12."+phase+"."+v.Symptom, "%s", v.Msg)
			}
		}
	}
	judge("after-continuation")
	// whatever the first recovery repaired or appended must itself survive a clean restart
	before, _ := visible(w)
	if err := w.Restart(); err != nil {
		bad("c12.second-restart-failed", "%v", err)
		return res
	}
	if !drain() {
		return res
	}
	after, err := visible(w)
	if err != nil {
		bad("c12.second-restart.unreadable", "%v", err)
		return res
	}
	if !mapsEqual(before, after) {
		bad("c12.second-restart.streams-changed", "visible streams before the second (clean) restart %v, after it %v", before, after)
	}
	judge("after-second-restart")
	res.Outcome = fmt.Sprintf("tags=%d vis=%d", len(gotTags), len(gotVis))
	res.Counters = map[string]int64{"recovered": 1}
	if c.Cut >= 0 {
		res.Counters["torn"] = 1
	}
	return res
}

func indexOf(l []string, x string) int {
	for i, y := range l {
		if y == x {
			return i
		}
	}
	return -1
}

func mapsEqual(a, b map[string]string) bool {
	if len(a) != len(b) {
		return false
	}
	for k, v := range a {
		if b[k] != v {
			return false
		}
	}
	return true
}

func Run(tier string) int {
	convBin := filepath.Join(mc.VerifDir, "bin", "vconv")
	ConverterBin = convBin
	budget := 110 * time.Second
	if tier == "thorough" {
		budget = 14 * time.Minute
	}
	scratchBase := ""
	if st, err := os.Stat("/dev/shm"); err == nil && st.IsDir() && os.Getenv("TMPDIR") == "" {
		scratchBase = "/dev/shm"
	}
	planFile := os.Getenv("VERIF_C12_PLAN")
	if mc.IsWorker() {
		var pl plan
		loadPlan(planFile, &pl)
		scratch := filepath.Dir(planFile)
		job := mc.ShardedJob{N: len(pl.cases), CaseName: func(i int) string { return pl.caseName(pl.cases[i]) },
			Run: func(i int) mc.CaseResult { return pl.recover(pl.cases[i], convBin, scratch, i) }}
		job.Execute(nil)
		return 0
	}
	rep := mc.NewReporter("C12", tier, "fault_enumeration")
	rep.Driver = "c12"
	if _, err := exec.LookPath("strace"); err != nil {
		mc.Fatal("strace not available: %v", err)
	}
	scratch, err := os.MkdirTemp(scratchBase, "verif-c12-")
	if err != nil {
		mc.Fatal("%v", err)
	}
	if os.Getenv("VERIF_C12_KEEP") == "" {
		defer os.RemoveAll(scratch)
	}
	deadline := time.Now().Add(budget)
	var evals, torn, muts int64
	outcomes := map[string]int{}
	var samples []string
	complete := true
	perHist := map[string]any{}
	for _, h := range histories(tier) {
		pl, err := makePlan(h, convBin, scratch)
		if err != nil {
			mc.Fatal("%v", err)
		}
		pf := filepath.Join(scratch, "plan-"+h.Name+".json")
		savePlan(pf, pl)
		os.Setenv("VERIF_C12_PLAN", pf)
		job := mc.ShardedJob{N: len(pl.cases), Timeout: 60 * time.Second, Deadline: deadline, CaseName: func(i int) string { return pl.caseName(pl.cases[i]) }}
		st := job.ExecuteCollect(rep, func(i int, r mc.CaseResult) {})
		for _, i := range st.Hangs {
			rep.Report(mc.Violation{Symptom: "c12.restart-hangs", Key: generalName(pl.caseName(pl.cases[i])), Msg: pl.caseName(pl.cases[i]) + ": the restarted service does not answer within 60 s"})
		}
		for _, i := range st.Crashes {
			rep.Report(mc.Violation{Symptom: "c12.restart-crashes", Key: generalName(pl.caseName(pl.cases[i])), Msg: pl.caseName(pl.cases[i]) + ": the restarted service died: " + tailStr(st.CrashText[i], 500)})
		}
		evals += st.Done
		torn += st.Counters["torn"]
		muts += int64(len(pl.muts))
		for k, v := range st.Outcomes {
			outcomes[k] += v
		}
		if st.TimedOut {
			complete = false
		}
		perHist[h.Name] = map[string]any{"events": len(h.Events), "mutations": len(pl.muts), "crash_states": len(pl.cases), "recovered": st.Done, "marks": len(pl.marks)}
		if len(samples) < 8 {
			for _, i := range []int{0, len(pl.cases) / 3, 2 * len(pl.cases) / 3} {
				samples = append(samples, pl.caseName(pl.cases[i]))
			}
		}
	}
	cv := rep.Coverage
	cv["evaluations"] = evals
	cv["distinct_nontrivial"] = evals - 1
	cv["states"] = evals
	cv["transitions"] = muts
	cv["traces_validated_against_impl"] = evals
	cv["rule"] = "each history is executed once on the real service under strace; the journal of file-system mutations (create, write with payload and offset, truncate, unlink, rename) is first validated by replaying it completely and comparing with the directory on disk; then EVERY prefix of the journal, and for every write additionally the variants with only its first 0, 1, half and all-but-one bytes, is materialised and recovered from with the real manager.New, drained, judged and continued (one more import, one more tag); non-trivial = every crash state but the empty one"
	cv["histories"] = perHist
	cv["torn_write_states"] = torn
	cv["journal_mutations"] = muts
	cv["journals_recorded_again_after_failed_conformance_replay"] = JournalRetries
	cv["distinct_outcomes"] = len(outcomes)
	cv["samples"] = samples
	cv["exhaustive"] = complete
	if !complete {
		cv["caps_hit"] = []string{"deadline"}
	}
	for k, v := range runSettingsFaults(rep, tier) {
		cv[k] = v
	}
	rep.Assumptions = []string{
		"crash model: process kill - the file system holds exactly the completed system calls, the last write possibly cut short; no reordering, no loss of unsynced data (power loss is outside the property)",
		"strace and the journal parser are trusted after the whole-journal conformance replay",
		"an API call that had not returned may or may not be persisted; streams may be ahead of the last acknowledged import (a completely written index file of an import in flight is loaded), never behind",
	}
	if evals < 10 || len(outcomes) < 2 {
		mc.Fatal("vacuous: %d crash states, %d outcomes", evals, len(outcomes))
	}
	return rep.Finish()
}

func savePlan(path string, pl *plan) {
	type ser struct {
		Hist  History
		Base  *FS
		Muts  []Mutation
		Marks []mark
		Cases []crashCase
	}
	b, err := json.Marshal(ser{pl.hist, pl.base, pl.muts, pl.marks, pl.cases})
	if err != nil {
		mc.Fatal("%v", err)
	}
	if err := os.WriteFile(path, b, 0o644); err != nil {
		mc.Fatal("%v", err)
	}
}

func loadPlan(path string, pl *plan) {
	type ser struct {
		Hist  History
		Base  *FS
		Muts  []Mutation
		Marks []mark
		Cases []crashCase
	}
	b, err := os.ReadFile(path)
	if err != nil {
		mc.Fatal("%v", err)
	}
	var s ser
	if err := json.Unmarshal(b, &s); err != nil {
		mc.Fatal("%v", err)
	}
	pl.hist, pl.base, pl.muts, pl.marks, pl.cases = s.Hist, s.Base, s.Muts, s.Marks, s.Cases
}
