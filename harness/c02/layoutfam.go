package c02

import (
	"fmt"
	"os"
	"path/filepath"
	"strings"
	"sync"
	"sync/atomic"
	"time"

	"github.com/spq/pkappa2/internal/query"
	"github.com/spq/pkappa2/internal/tools/bitmask"
	"github.com/spq/pkappa2/verifx/mc"
	"github.com/spq/pkappa2/verifx/ref"
	"rsc.io/binaryregexp"
)

// Layout family: EVERY way of spreading versions of a few stream ids over a stack of index files.
// Each id is present in a non-empty subset of the files; its version in file f differs from every
// other version in the fields the queries read, the version in the newest file that has the id is
// the visible one.  This enumerates all relations between the id ranges of stacked files (a newer
// file that starts exactly at the highest id of an older one, files that interleave, files that
// contain only shadowed ids, ...), which the hand-written layouts of the main family only sample.

func famVersion(id uint64, f int) *ref.StreamSpec {
	start := T0.Add(time.Duration(id)*time.Second + time.Duration(f)*time.Minute)
	s := mkStream(id, "10.0.0.1", "10.0.0.2", uint16(100+f), uint16(80+id%2), false, start, start.Add(time.Second), "v.pcap", C(strings.Repeat("a", f+1)))
	s.Name = fmt.Sprintf("s%d.f%d", id, f)
	return s
}

func famQueries(nFiles int) []qcase {
	at := func(text string, ev func(r *ref.Rec) bool) *ref.Node {
		return ref.A(&ref.Atom{Text: text, Eval: ev})
	}
	var qs []qcase
	add := func(n *ref.Node) { qs = append(qs, qcase{n, n.Text()}) }
	add(at("cbytes:1:", func(r *ref.Rec) bool { return r.CBytes >= 1 }))
	for f := 0; f < nFiles; f++ {
		p := uint16(100 + f)
		add(at(fmt.Sprintf("cport:%d", p), func(r *ref.Rec) bool { return r.CPort == p }))
	}
	add(ref.Not(at("cport:100", func(r *ref.Rec) bool { return r.CPort == 100 })))
	add(at("id:1,2", func(r *ref.Rec) bool { return r.ID == 1 || r.ID == 2 }))
	add(at("id:3:", func(r *ref.Rec) bool { return r.ID >= 3 }))
	add(at("id::1", func(r *ref.Rec) bool { return r.ID <= 1 }))
	add(ref.Or(at("cport:101", func(r *ref.Rec) bool { return r.CPort == 101 }), at("id:0", func(r *ref.Rec) bool { return r.ID == 0 })))
	add(at("sport:80", func(r *ref.Rec) bool { return r.SPort == 80 }))
	add(ref.And(at("cbytes:2:", func(r *ref.Rec) bool { return r.CBytes >= 2 }), at("id:1:", func(r *ref.Rec) bool { return r.ID >= 1 })))
	return qs
}

func checkLayoutFamily(rep *mc.Reporter, tier string, deadline time.Time) (nLayouts, searches int64, complete bool) {
	complete = true
	cfgs := [][2]int{{5, 3}}
	if tier == "thorough" {
		cfgs = [][2]int{{6, 3}, {4, 4}}
	}
	for _, c := range cfgs {
		l, s, ok := checkLayoutFamilyOf(rep, c[0], c[1], deadline)
		nLayouts += l
		searches += s
		complete = complete && ok
	}
	return
}

func checkLayoutFamilyOf(rep *mc.Reporter, nIDs, nFiles int, deadline time.Time) (nLayouts, searches int64, complete bool) {
	base := ""
	if st, err := os.Stat("/dev/shm"); err == nil && st.IsDir() && os.Getenv("TMPDIR") == "" {
		base = "/dev/shm"
	}
	ref.InternFiles("v.pcap")
	dir, err := os.MkdirTemp(base, "verif-c02-fam-")
	if err != nil {
		mc.Fatal("%v", err)
	}
	defer os.RemoveAll(dir)
	// enumerate presence masks, drop empty files, de-duplicate
	per := (1 << nFiles) - 1
	total := 1
	for i := 0; i < nIDs; i++ {
		total *= per
	}
	type lay struct {
		name  string
		files [][]*ref.StreamSpec
		pop   []*ref.StreamSpec
	}
	seen := map[string]bool{}
	var lays []lay
	for code := 0; code < total; code++ {
		masks := make([]int, nIDs)
		c := code
		for i := range masks {
			masks[i] = c%per + 1
			c /= per
		}
		var files [][]*ref.StreamSpec
		var names []string
		for f := 0; f < nFiles; f++ {
			var fs []*ref.StreamSpec
			var ids []string
			for i := 0; i < nIDs; i++ {
				if masks[i]&(1<<f) != 0 {
					ids = append(ids, fmt.Sprint(i))
				}
			}
			if len(ids) == 0 {
				continue
			}
			fi := len(files) // versions are numbered by the position in the stack that remains
			for i := 0; i < nIDs; i++ {
				if masks[i]&(1<<f) != 0 {
					fs = append(fs, famVersion(uint64(i), fi))
				}
			}
			if fi%2 == 1 {
				// written in descending id order: the writer must not depend on the order of AddStream
				for a, b := 0, len(fs)-1; a < b; a, b = a+1, b-1 {
					fs[a], fs[b] = fs[b], fs[a]
				}
			}
			files = append(files, fs)
			names = append(names, "{"+strings.Join(ids, ",")+"}")
		}
		name := strings.Join(names, " < ")
		if seen[name] {
			continue
		}
		seen[name] = true
		pop := make([]*ref.StreamSpec, nIDs)
		for fi, fs := range files {
			for _, s := range fs {
				_ = fi
				pop[s.ID] = s // later files overwrite: newest wins
			}
		}
		lays = append(lays, lay{"stack " + name, files, pop})
	}
	queries := famQueries(nFiles)
	idSort := sortSpec{"id", []query.Sorting{{Key: query.SortingKeyID}}}
	sorts := []sortSpec{
		{"-id", []query.Sorting{{Key: query.SortingKeyID, Dir: query.SortingDirDescending}}},
		{"cport,id", []query.Sorting{{Key: query.SortingKeyClientPort}, {Key: query.SortingKeyID}}},
		{"default", nil},
		{"-cbytes,-id", []query.Sorting{{Key: query.SortingKeyClientBytes, Dir: query.SortingDirDescending}, {Key: query.SortingKeyID, Dir: query.SortingDirDescending}}},
	}
	pages := []pageSpec{{0, 0}, {1, 0}, {2, 0}, {3, 0}, {2, 2}, {1, 1}, {1, 3}, {100, 0}}
	var idMask bitmask.LongBitmask
	idMask.Set(1)
	idMask.Set(3)
	var timedOut int32
	var mu sync.Mutex
	outcomes := map[string]bool{}
	mc.ParFor(len(lays), func(li int) {
		if atomic.LoadInt32(&timedOut) != 0 {
			return
		}
		if time.Now().After(deadline) {
			atomic.StoreInt32(&timedOut, 1)
			return
		}
		l := lays[li]
		sub := filepath.Join(dir, fmt.Sprint(li))
		if err := os.Mkdir(sub, 0o755); err != nil {
			mc.Fatal("%v", err)
		}
		w := buildWorld(sub, li, layout{l.name, l.files}, l.pop)
		defer func() {
			for _, r := range w.readers {
				r.Close()
			}
			os.RemoveAll(sub)
		}()
		res := map[string]*binaryregexp.Regexp{}
		for qi, qc := range queries {
			q, err := query.Parse(qc.text)
			if err != nil {
				mc.Fatal("layout family: %q: %v", qc.text, err)
			}
			var truth []*ref.Rec
			for id := uint64(0); id < uint64(nIDs); id++ {
				if qc.node.Eval(w.recs[id], res) {
					truth = append(truth, w.recs[id])
				}
			}
			mu.Lock()
			outcomes[idsOf(truth)] = true
			mu.Unlock()
			n := int64(1)
			if !checkSearch(rep, w, qc, q, truth, idSort, pageSpec{0, 0}, false, &idMask) {
				atomic.AddInt64(&searches, n)
				continue
			}
			for k := 0; k < 5; k++ {
				s := sorts[(li+qi+k)%len(sorts)]
				if k == 4 {
					s = idSort
				}
				p := pages[(li*3+qi*5+k*3)%len(pages)]
				checkSearch(rep, w, qc, q, truth, s, p, k == 3, &idMask)
				n++
			}
			atomic.AddInt64(&searches, n)
		}
		atomic.AddInt64(&nLayouts, 1)
	}, func(i int, text string) {
		if os.Getenv("VERIF_DEBUG") != "" {
			fmt.Println(text)
		}
		rep.Report(mc.Violation{Symptom: "panic", Key: lays[i].name, Msg: lays[i].name + ": " + text})
	})
	if len(outcomes) < 5 {
		mc.Fatal("layout family vacuous: %d outcomes", len(outcomes))
	}
	return nLayouts, searches, timedOut == 0
}
