// Package c02: search returns exactly the streams a query denotes, ordered and paged, over every
// layout of a population on stacked index files.
package c02

import (
	"bytes"
	"context"
	"fmt"
	"net"
	"os"
	"path/filepath"
	"sort"
	"strings"
	"sync"
	"sync/atomic"
	"time"

	"github.com/spq/pkappa2/internal/index"
	"github.com/spq/pkappa2/internal/query"
	"github.com/spq/pkappa2/internal/tools/bitmask"
	"github.com/spq/pkappa2/verifx/mc"
	"github.com/spq/pkappa2/verifx/ref"
	"rsc.io/binaryregexp"
)

var T0 = ref.T0

func ip(s string) net.IP {
	p := net.ParseIP(s)
	if v4 := p.To4(); v4 != nil {
		return v4
	}
	return p
}

func mkStream(id uint64, ch, sh string, cp, sp uint16, udp bool, f, l time.Time, file string, chunks ...ref.Chunk) *ref.StreamSpec {
	s := &ref.StreamSpec{Name: fmt.Sprintf("s%d", id), ID: id, Client: ip(ch), Server: ip(sh), CPort: cp, SPort: sp, UDP: udp, Start: f}
	n := len(chunks) + 1
	total := l.Sub(f).Microseconds()
	for i, c := range chunks {
		off := int64(0)
		if n > 1 {
			off = total * int64(i) / int64(n-1)
		}
		s.Pkts = append(s.Pkts, ref.PktSpec{Dir: c.Dir, OffsetUs: off, File: file, Index: id*100 + uint64(i), Data: c.Data})
	}
	// closing packet without payload pins the last-packet time
	s.Pkts = append(s.Pkts, ref.PktSpec{Dir: ref.DirC2S, OffsetUs: total, File: file, Index: id*100 + uint64(len(chunks))})
	// keep gaps representable: insert keep-alive packets when the stream is longer than 2^32 us
	var pk []ref.PktSpec
	for i, p := range s.Pkts {
		if i > 0 {
			for prev := pk[len(pk)-1].OffsetUs; p.OffsetUs-prev >= 1<<32; prev = pk[len(pk)-1].OffsetUs {
				pk = append(pk, ref.PktSpec{Dir: ref.DirC2S, OffsetUs: prev + 1<<31, File: file, Index: id*100 + 50 + uint64(len(pk))})
			}
		}
		pk = append(pk, p)
	}
	s.Pkts = pk
	return s
}

func C(s string) ref.Chunk { return ref.Chunk{Dir: ref.DirC2S, Data: []byte(s)} }
func S(s string) ref.Chunk { return ref.Chunk{Dir: ref.DirS2C, Data: []byte(s)} }

// population returns the newest version of every stream.
func population() []*ref.StreamSpec {
	h := time.Hour
	sec := time.Second
	return []*ref.StreamSpec{
		mkStream(0, "10.0.0.1", "10.0.0.2", 80, 80, false, T0, T0.Add(sec), "p.pcap", C("a")),
		mkStream(1, "10.0.0.2", "10.0.0.1", 79, 80, true, T0.Add(-h), T0, "p.pcap", S("a")),
		mkStream(2, "10.0.0.1", "10.0.0.1", 81, 79, false, T0.Add(sec), T0.Add(2*h), "p.pcap", C("b"), S("a"), C("a")),
		mkStream(3, "10.0.1.1", "10.0.0.2", 80, 81, false, T0, T0, "p.pcap"),
		mkStream(4, "fe80::1", "fe80::2", 80, 80, true, T0.Add(-h), T0.Add(-h), "p.pcap", C("ab")),
		mkStream(5, "fe80::2", "fe80::2", 81, 81, false, T0.Add(2*h), T0.Add(2*h), "q.pcap", C("a"), S("b")),
		mkStream(6, "10.0.0.2", "10.0.1.1", 79, 79, false, T0.Add(sec), T0.Add(sec), "q.pcap", S("a"), C("a")),
		mkStream(7, "10.0.0.1", "10.0.0.2", 80, 80, false, T0, T0.Add(sec), "q.pcap", C("ba")),
		// stream 8 starts first and ends last: the file's latest last-packet time does not belong to the stream that starts last
		mkStream(8, "10.0.1.1", "10.0.1.1", 1, 65535, true, T0.Add(-h), T0.Add(3*h), "q.pcap", C("a"), C("b")),
		mkStream(9, "fe80::1", "fe80::1", 80, 79, false, T0, T0, "q.pcap", S("b"), C("a"), S("a")),
		mkStream(10, "10.0.0.2", "10.0.0.2", 81, 80, false, T0.Add(sec), T0.Add(sec), "q.pcap", C("aa"), S("bb")),
		mkStream(11, "10.0.0.1", "10.0.1.1", 80, 81, true, T0.Add(2*h), T0.Add(2*h), "q.pcap", C("a"), S("a"), C("b")),
	}
}

// older versions: differ in every field a filter can look at, so a leak of a shadowed version is visible
func olderVersion(id uint64, gen int) *ref.StreamSpec {
	s := mkStream(id, "10.0.0.1", "10.0.0.2", 80, 80, gen%2 == 0, T0, T0.Add(time.Second), "old.pcap", C("a"), S("a"), C("b"))
	s.Name = fmt.Sprintf("s%d.old%d", id, gen)
	return s
}

type layout struct {
	name  string
	files [][]*ref.StreamSpec
}

func layouts(pop []*ref.StreamSpec, tier string) []layout {
	pick := func(ids ...uint64) []*ref.StreamSpec {
		var out []*ref.StreamSpec
		for _, id := range ids {
			out = append(out, pop[id])
		}
		return out
	}
	old := func(gen int, ids ...uint64) []*ref.StreamSpec {
		var out []*ref.StreamSpec
		for _, id := range ids {
			out = append(out, olderVersion(id, gen))
		}
		return out
	}
	ls := []layout{
		{"one file", [][]*ref.StreamSpec{pop}},
		{"two files, ids 3 and 7 shadowed", [][]*ref.StreamSpec{append(old(0, 3, 7), pick(0, 1, 2, 4, 5)...), pick(3, 6, 7, 8, 9, 10, 11)}},
		{"three files, id 2 shadowed twice, id 9 once, newest file is smallest", [][]*ref.StreamSpec{append(old(0, 2, 9), pick(11, 10, 8)...), append(old(1, 2), pick(9, 0, 1, 3, 4, 5, 6)...), pick(7, 2)}},
	}
	if tier == "thorough" {
		ls = append(ls,
			layout{"two files, everything shadowed", [][]*ref.StreamSpec{old(0, 0, 1, 2, 3, 4, 5, 6, 7, 8, 9, 10, 11), pop}},
			layout{"three files reversed ids", [][]*ref.StreamSpec{pick(11, 9, 7, 5), append(old(0, 11), pick(10, 8, 6, 4)...), append(old(1, 10, 9), pick(3, 2, 1, 0)...)}},
		)
	}
	return ls
}

type tagDef struct {
	name      string
	def       string
	uncertain []uint
}

var tagDefs = []tagDef{
	{"tag/a", "cport:80", []uint{2, 5, 7}},
	{"tag/b", "id:1,3", nil},
	{"mark/m", "id:4,9", nil},
	{"service/s", "sport:80", []uint{0, 10}},
	{"generated/g", "id:6", nil},
	// three decided tags that overlap with each other and with the pending ones and sort before them
	// (the engine orders the tag filters of a conjunct by name)
	{"generated/h", "id:1,2,4,5,7,10", nil},
	{"mark/k", "id:0,1,2,4,5,7,9,10", nil},
	{"service/r", "cbytes:1:", nil},
}

var convOutput = ref.FakeConverter{
	0:  {C("b")},
	2:  {S("b")},
	5:  {},
	11: {C("x"), S("a")},
}

type world struct {
	layout  layout
	readers []*index.Reader
	recs    map[uint64]*ref.Rec
	tags    map[string]query.TagDetails
	convs   map[string]index.ConverterAccess
}

func buildWorld(dir string, li int, l layout, pop []*ref.StreamSpec) *world {
	w := &world{layout: l, recs: map[uint64]*ref.Rec{}, tags: map[string]query.TagDetails{}, convs: map[string]index.ConverterAccess{"conv": convOutput}}
	for fi, f := range l.files {
		wr, err := index.NewWriter(filepath.Join(dir, fmt.Sprintf("l%d_f%d.idx", li, fi)))
		if err != nil {
			mc.Fatal("%v", err)
		}
		for _, s := range f {
			if ok, err := wr.AddStream(s.ToStream(), s.ID); err != nil || !ok {
				mc.Fatal("AddStream: %v %v", ok, err)
			}
		}
		r, err := wr.Finalize()
		if err != nil {
			mc.Fatal("Finalize: %v", err)
		}
		w.readers = append(w.readers, r)
	}
	res := map[string]*binaryregexp.Regexp{}
	for _, s := range pop {
		r := s.Rec()
		if out, ok := convOutput[s.ID]; ok {
			r.Reps["conv"] = out
		}
		w.recs[s.ID] = r
	}
	for _, td := range tagDefs {
		q, err := query.Parse(td.def)
		if err != nil {
			mc.Fatal("tag def %q: %v", td.def, err)
		}
		d := query.TagDetails{Conditions: q.Conditions}
		unc := map[uint]bool{}
		for _, u := range td.uncertain {
			unc[u] = true
			d.Uncertain.Set(u)
		}
		for _, s := range pop {
			truth, err := ref.EvalConditions(q.Conditions, w.recs[s.ID], q.ReferenceTime, res)
			if err != nil {
				mc.Fatal("%v", err)
			}
			if unc[uint(s.ID)] {
				// garbage under pending streams: the stored bit is the opposite of the truth
				if !truth {
					d.Matches.Set(uint(s.ID))
				}
			} else if truth {
				d.Matches.Set(uint(s.ID))
			}
			st := ref.TagFailing
			if truth {
				st = ref.TagMatching
			}
			w.recs[s.ID].Tags[td.name] = st
		}
		w.tags[td.name] = d
	}
	return w
}

type sortSpec struct {
	text string
	keys []query.Sorting
}

func sortSpecs(tier string) []sortSpec {
	names := []string{"id", "cbytes", "sbytes", "ftime", "ltime", "chost", "shost", "cport", "sport"}
	keyOf := map[string]query.SortingKey{"id": query.SortingKeyID, "cbytes": query.SortingKeyClientBytes, "sbytes": query.SortingKeyServerBytes, "ftime": query.SortingKeyFirstPacketTime,
		"ltime": query.SortingKeyLastPacketTime, "chost": query.SortingKeyClientHost, "shost": query.SortingKeyServerHost, "cport": query.SortingKeyClientPort, "sport": query.SortingKeyServerPort}
	mk := func(parts ...string) sortSpec {
		var ks []query.Sorting
		for _, p := range parts {
			dir := query.SortingDirAscending
			if strings.HasPrefix(p, "-") {
				dir = query.SortingDirDescending
				p = p[1:]
			}
			ks = append(ks, query.Sorting{Key: keyOf[p], Dir: dir})
		}
		return sortSpec{strings.Join(parts, ","), ks}
	}
	out := []sortSpec{{"default", nil}}
	for _, n := range names {
		out = append(out, mk(n), mk("-"+n))
	}
	out = append(out, mk("cport", "id"), mk("-ftime", "-id"), mk("chost", "sport"), mk("ltime", "-cbytes"), mk("sbytes", "cbytes", "id"), mk("-shost", "ftime"))
	if tier != "thorough" {
		// quick: a fixed subset that still has every key once and two multi-key lists
		return []sortSpec{out[0], out[1], out[4], out[5], out[8], out[9], out[11], out[14], out[15], out[18], out[19], out[20], out[23]}
	}
	return out
}

func keyValue(r *ref.Rec, k query.SortingKey) []byte {
	u64 := func(v uint64) []byte {
		b := make([]byte, 8)
		for i := 0; i < 8; i++ {
			b[i] = byte(v >> (56 - 8*uint(i)))
		}
		return b
	}
	switch k {
	case query.SortingKeyID:
		return u64(r.ID)
	case query.SortingKeyClientBytes:
		return u64(r.CBytes)
	case query.SortingKeyServerBytes:
		return u64(r.SBytes)
	case query.SortingKeyFirstPacketTime:
		return u64(uint64(r.FTime.UnixNano()))
	case query.SortingKeyLastPacketTime:
		return u64(uint64(r.LTime.UnixNano()))
	case query.SortingKeyClientHost:
		return []byte(r.CHost)
	case query.SortingKeyServerHost:
		return []byte(r.SHost)
	case query.SortingKeyClientPort:
		return u64(uint64(r.CPort))
	case query.SortingKeyServerPort:
		return u64(uint64(r.SPort))
	}
	panic("key")
}

func less(a, b *ref.Rec, keys []query.Sorting) bool {
	for _, k := range keys {
		c := bytes.Compare(keyValue(a, k.Key), keyValue(b, k.Key))
		if k.Dir == query.SortingDirDescending {
			c = -c
		}
		if c != 0 {
			return c < 0
		}
	}
	return false
}

func keyTuple(r *ref.Rec, keys []query.Sorting) string {
	var sb strings.Builder
	for _, k := range keys {
		fmt.Fprintf(&sb, "%x|", keyValue(r, k.Key))
	}
	return sb.String()
}

type qcase struct {
	node *ref.Node
	text string
}

func buildQueries(tier string) ([]qcase, map[string]int) {
	alphabet := ref.Alphabet()
	var plain, noneFam, convFam, core []ref.AtomDef
	for _, a := range alphabet {
		if a.Atom.Data != nil && a.Atom.Data[0].Conv == "none" {
			continue
		}
		plain = append(plain, a)
		if a.Core {
			core = append(core, a)
		}
	}
	mkData := func(text string, alts ...ref.SeqElem) ref.AtomDef {
		return ref.AtomDef{Atom: &ref.Atom{Text: text, Data: alts}, Groups: []string{"data"}, W: len(alts), C: 1}
	}
	noneFam = []ref.AtomDef{
		mkData("cdata.none:a", ref.SeqElem{Dir: ref.DirC2S, Regex: "a", Conv: "none"}),
		mkData("sdata.none:b", ref.SeqElem{Dir: ref.DirS2C, Regex: "b", Conv: "none"}),
		mkData("cdata.none:b", ref.SeqElem{Dir: ref.DirC2S, Regex: "b", Conv: "none"}),
		mkData("data.none:b", ref.SeqElem{Dir: ref.DirC2S, Regex: "b", Conv: "none"}, ref.SeqElem{Dir: ref.DirS2C, Regex: "b", Conv: "none"}),
	}
	convFam = []ref.AtomDef{
		mkData("cdata.conv:b", ref.SeqElem{Dir: ref.DirC2S, Regex: "b", Conv: "conv"}),
		mkData("sdata.conv:b", ref.SeqElem{Dir: ref.DirS2C, Regex: "b", Conv: "conv"}),
		mkData("sdata.conv:a", ref.SeqElem{Dir: ref.DirS2C, Regex: "a", Conv: "conv"}),
		mkData("cdata.conv:x", ref.SeqElem{Dir: ref.DirC2S, Regex: "x", Conv: "conv"}),
	}
	nonData := func(in []ref.AtomDef) []ref.AtomDef {
		var out []ref.AtomDef
		for _, a := range in {
			if a.Atom.Data == nil {
				out = append(out, a)
			}
		}
		return out
	}
	shapes := map[*ref.Atom][2]int{}
	for _, l := range [][]ref.AtomDef{plain, noneFam, convFam} {
		for _, a := range l {
			shapes[a.Atom] = [2]int{a.W, a.C}
		}
	}
	type fam struct {
		name         string
		atoms        []ref.AtomDef
		leaves, nots int
	}
	fams := []fam{
		{"1 leaf <=1 not, all atoms", append(append(append([]ref.AtomDef{}, plain...), noneFam...), convFam...), 1, 1},
		{"2 leaves <=1 not, plain atoms", plain, 2, 1},
		{"2 leaves <=2 nots, core atoms", core, 2, 2},
		{"2 leaves <=1 not, .none data + core non-data", append(nonData(core), noneFam...), 2, 1},
		{"2 leaves <=1 not, .conv data + core non-data", append(nonData(core), convFam...), 2, 1},
	}
	if tier == "thorough" {
		fams = append(fams, fam{"2 leaves <=2 nots, plain atoms", plain, 2, 2}, fam{"3 leaves no not, core atoms", core, 3, 0})
	}
	var out []qcase
	counts := map[string]int{}
	seen := map[string]bool{}
	for _, f := range fams {
		ref.Trees(f.atoms, f.leaves, f.nots, func(n *ref.Node) {
			if !n.WellDefined() {
				return
			}
			if _, _, cost := ref.Shape(n, shapes); cost > 2000 {
				return
			}
			t := n.Text()
			if seen[t] {
				return
			}
			seen[t] = true
			out = append(out, qcase{n, t})
			counts[f.name]++
		})
	}
	// conjunctions of 3-5 atoms around tags with pending streams: the engine inlines the definition of an
	// undecided tag into the conjunct it stands in, at every position of conjuncts of every length
	{
		byText := map[string]*ref.Atom{}
		for _, a := range plain {
			byText[a.Text] = a.Atom
		}
		var pool []*ref.Node
		for _, t := range []string{"tag:a", "service:s", "tag:b", "mark:m", "cport:80", "id:2:"} {
			if byText[t] == nil {
				mc.Fatal("atom %q missing", t)
			}
			pool = append(pool, ref.A(byText[t]))
		}
		for _, t := range [][2]string{{"generated:h", "generated/h"}, {"mark:k", "mark/k"}, {"service:r", "service/r"}} {
			name := t[1]
			pool = append(pool, ref.A(&ref.Atom{Text: t[0], Eval: func(r *ref.Rec) bool { return r.Tags[name] == ref.TagMatching }}))
		}
		pool = append(pool, ref.Not(ref.A(byText["tag:a"])), ref.Not(ref.A(byText["service:s"])))
		maxLen := 4
		if tier == "thorough" {
			maxLen = 5
		}
		// the engine orders the conditions of a conjunct itself: subsets, each written in ascending and in
		// descending pool order
		var rec func(cur []int, from int)
		rec = func(cur []int, from int) {
			if len(cur) >= 3 {
				for _, rev := range []bool{false, true} {
					kids := make([]*ref.Node, len(cur))
					for i, c := range cur {
						if rev {
							kids[len(cur)-1-i] = pool[c]
						} else {
							kids[i] = pool[c]
						}
					}
					n := ref.And(kids...)
					t := n.Text()
					if !seen[t] {
						seen[t] = true
						out = append(out, qcase{n, t})
						counts["conjunctions of 3-"+fmt.Sprint(maxLen)+" atoms around tags with pending streams"]++
					}
				}
			}
			if len(cur) == maxLen {
				return
			}
			for i := from; i < len(pool); i++ {
				rec(append(append([]int{}, cur...), i), i+1)
			}
		}
		rec(nil, 0)
	}
	return out, counts
}

type pageSpec struct{ limit, skip uint }

func Run(tier string) int {
	rep := mc.NewReporter("C02", tier, "model_checking")
	rep.Driver = "c02"
	ref.InternFiles("p.pcap", "q.pcap", "old.pcap")
	dir, err := os.MkdirTemp("", "verif-c02-")
	if err != nil {
		mc.Fatal("%v", err)
	}
	defer os.RemoveAll(dir)
	budget := 100 * time.Second
	if tier == "thorough" {
		budget = 14 * time.Minute
	}
	deadline := time.Now().Add(budget)
	famBudget := 40 * time.Second
	if tier == "thorough" {
		famBudget = 4 * time.Minute
	}
	famLayouts, famSearches, famComplete := checkLayoutFamily(rep, tier, time.Now().Add(famBudget))
	if os.Getenv("VERIF_C02_ONLY_FAMILY") != "" {
		fmt.Println("layout family:", famLayouts, famSearches, famComplete)
		return rep.Finish()
	}
	pop := population()
	var worlds []*world
	for li, l := range layouts(pop, tier) {
		worlds = append(worlds, buildWorld(dir, li, l, pop))
	}
	defer func() {
		for _, w := range worlds {
			for _, r := range w.readers {
				r.Close()
			}
		}
	}()
	queries, famCounts := buildQueries(tier)
	if only := os.Getenv("VERIF_C02_ONLY_TEXT"); only != "" {
		// development aid: queries whose text contains the value
		var f []qcase
		for _, q := range queries {
			if strings.Contains(q.text, only) {
				f = append(f, q)
			}
		}
		queries = f
		rep.Coverage["development_filter"] = only
	}
	sorts := sortSpecs(tier)
	// the service passes skip = page*limit
	pages := []pageSpec{{0, 0}, {1, 0}, {2, 0}, {3, 0}, {100, 0}, {1, 1}, {1, 2}, {2, 2}, {2, 4}, {3, 3}, {3, 6}, {100, 100}}
	var idMask bitmask.LongBitmask
	for _, b := range []uint{1, 2, 7, 9} {
		idMask.Set(b)
	}
	var evals, searches, nontrivial int64
	var timedOut int32
	var mu sync.Mutex
	outcomes := map[string]int{}
	var samples []string
	mc.ParFor(len(queries), func(qi int) {
		if atomic.LoadInt32(&timedOut) != 0 {
			return
		}
		if qi%16 == 0 && time.Now().After(deadline) {
			atomic.StoreInt32(&timedOut, 1)
			return
		}
		qc := queries[qi]
		q, err := query.Parse(qc.text)
		if err != nil {
			rep.Report(mc.Violation{Symptom: "parse.error", Key: qc.text, Msg: fmt.Sprintf("%q: %v", qc.text, err)})
			return
		}
		res := map[string]*binaryregexp.Regexp{}
		w0 := worlds[0]
		var truth []*ref.Rec
		for id := uint64(0); id < uint64(len(pop)); id++ {
			if qc.node.Eval(w0.recs[id], res) {
				truth = append(truth, w0.recs[id])
			}
		}
		if len(truth) != 0 && len(truth) != len(pop) {
			atomic.AddInt64(&nontrivial, 1)
		}
		atomic.AddInt64(&evals, 1)
		// quick: a pairwise-style fixed design over (layout, sort, page, mask) indexed by the query number;
		// thorough: the full product
		type combo struct {
			w    *world
			s    sortSpec
			p    pageSpec
			mask bool
		}
		var combos []combo
		if tier == "thorough" {
			for _, w := range worlds {
				for si, s := range sorts {
					for pi, p := range pages {
						combos = append(combos, combo{w, s, p, (si+pi)%5 == 0})
					}
				}
			}
		} else {
			for k := 0; k < 6; k++ {
				combos = append(combos, combo{worlds[(qi+k)%len(worlds)], sorts[(qi*7+k*5)%len(sorts)], pages[(qi*3+k*7)%len(pages)], k%6 == 5})
			}
		}
		// the unpaged, id-sorted search decides first whether the engine denotes the right set on this
		// layout; paged/sorted variants are judged only where it does (a wrong set shifts every page)
		baseOK := map[[2]any]bool{}
		for _, c := range combos {
			k := [2]any{c.w, c.mask}
			ok, done := baseOK[k]
			if !done {
				atomic.AddInt64(&searches, 1)
				ok = checkSearch(rep, c.w, qc, q, truth, sortSpec{"id", []query.Sorting{{Key: query.SortingKeyID}}}, pageSpec{0, 0}, c.mask, &idMask)
				baseOK[k] = ok
			}
			if !ok {
				continue
			}
			atomic.AddInt64(&searches, 1)
			checkSearch(rep, c.w, qc, q, truth, c.s, c.p, c.mask, &idMask)
		}
		mu.Lock()
		outcomes[fmt.Sprint(len(truth))+":"+idsOf(truth)]++
		if len(samples) < 8 && qi%(len(queries)/8+1) == 0 {
			samples = append(samples, fmt.Sprintf("%s => ids [%s]", qc.text, idsOf(truth)))
		}
		mu.Unlock()
	}, func(i int, text string) {
		rep.Report(mc.Violation{Symptom: "panic", Key: queries[i].text, Msg: queries[i].text + ": " + text})
	})
	sqSearches, sqNontrivial, sqRefusals, sqComplete := checkSubqueries(rep, worlds, tier, deadline.Add(20*time.Second))
	searches += sqSearches
	nontrivial += sqNontrivial
	if !sqComplete {
		timedOut = 1
	}
	searches += famSearches
	if !famComplete {
		timedOut = 1
	}
	cv := rep.Coverage
	cv["layout_family_stacks"] = famLayouts
	cv["layout_family_searches"] = famSearches
	cv["layout_family_rule"] = "every way of spreading versions of 5 stream ids over a stack of up to 3 index files (thorough: 6 ids over 3 files and 4 ids over 4 files) (each id in a non-empty subset of the files, the newest file having it holds the visible version), 12 queries that tell the versions apart x sorts x pages"
	cv["subquery_searches"] = sqSearches
	cv["subquery_cases_nontrivial"] = sqNontrivial
	cv["subquery_refusals_by_engine"] = sqRefusals
	cv["evaluations"] = searches
	cv["distinct_nontrivial"] = nontrivial
	cv["states"] = evals
	cv["transitions"] = searches
	cv["traces_validated_against_impl"] = searches
	cv["rule"] = "every expression tree of the listed families is parsed and searched with index.SearchStreams over every layout of a 12-stream population on 1-3 stacked index files (older, different versions of some ids shadowed) x sort key lists x (limit, skip) x id restriction (quick: a fixed 6-combination design per query, thorough: full product); the result is compared with the set/sequence obtained by evaluating the expression as written on the generator's stream records; non-trivial = the query denotes a proper non-empty subset"
	cv["queries"] = len(queries)
	cv["query_families"] = famCounts
	cv["layouts"] = len(worlds)
	cv["sort_lists"] = len(sorts)
	cv["pages"] = len(pages)
	cv["searches"] = searches
	cv["distinct_outcomes"] = len(outcomes)
	cv["samples"] = samples
	cv["exhaustive"] = timedOut == 0
	if timedOut != 0 {
		cv["caps_hit"] = []string{"deadline"}
	}
	rep.Assumptions = []string{
		"ties across the page edge may resolve either way: the sequence of sort-key tuples must equal that of the sorted truth, members must come from the truth, each once",
		"hosts sort byte-wise on their raw address; tag membership of a pending stream is its definition evaluated on the stream (garbage bits planted under pending streams)",
		"data atoms with different converter selectors are never combined in one query (the engine documents that as an error)",
		"sub-queries: positive conjunctions only (filters on x, relations between the main stream and x, filters on the main stream); a main stream is denoted iff some visible stream x satisfies them; engine refusals ('not supported') are recorded, not judged",
	}
	if len(outcomes) < 5 {
		mc.Fatal("vacuous: %d outcomes", len(outcomes))
	}
	return rep.Finish()
}

func idsOf(rs []*ref.Rec) string {
	s := make([]string, len(rs))
	for i, r := range rs {
		s[i] = fmt.Sprint(r.ID)
	}
	return strings.Join(s, " ")
}

func checkSearch(rep *mc.Reporter, w *world, qc qcase, q *query.Query, truthAll []*ref.Rec, s sortSpec, p pageSpec, useMask bool, mask *bitmask.LongBitmask) (ok bool) {
	var lim *bitmask.LongBitmask
	truth := truthAll
	if useMask {
		lim = mask
		truth = nil
		for _, r := range truthAll {
			if mask.IsSet(uint(r.ID)) {
				truth = append(truth, r)
			}
		}
	}
	keys := s.keys
	effKeys := keys
	if len(effKeys) == 0 {
		effKeys = []query.Sorting{{Key: query.SortingKeyFirstPacketTime, Dir: query.SortingDirDescending}}
	}
	desc := fmt.Sprintf("layout=%q sort=%s limit=%d skip=%d mask=%v", w.layout.name, s.text, p.limit, p.skip, useMask)
	key := qc.text + " | sort=" + s.text + fmt.Sprintf(" limit=%d skip=%d mask=%v", p.limit, p.skip, useMask)
	ok = true
	diff := ""
	bad := func(sym, f string, a ...any) {
		ok = false
		rep.Report(mc.Violation{Symptom: sym, Key: key + diff, Msg: fmt.Sprintf("query %q %s: ", qc.text, desc) + fmt.Sprintf(f, a...),
			Replay: map[string]any{"query": qc.text, "layout": w.layout.name, "sort": s.text, "limit": p.limit, "skip": p.skip, "mask": useMask}})
	}
	if q.Conditions == nil {
		if len(truth) != 0 {
			bad("search.missing", "parser reports the query as matching nothing, truth is [%s]", idsOf(truth))
		}
		return
	}
	var got []*index.Stream
	var more bool
	var err error
	if pt := mc.Try(func() {
		got, more, _, err = index.SearchStreams(context.Background(), w.readers, lim, q.ReferenceTime, q.Conditions, nil, keys, p.limit, p.skip, w.tags, w.convs, false)
	}); pt != "" {
		bad("search.panic", "%s", pt)
		return
	}
	if err != nil {
		bad("search.error", "%v", err)
		return
	}
	if p.limit == 0 && p.skip == 0 {
		// unpaged: describe the difference of the sets (part of the key, used by known-finding matchers)
		gotSet := map[uint64]bool{}
		for _, g := range got {
			gotSet[g.ID()] = true
		}
		var missing, extra []string
		for _, r := range truth {
			if !gotSet[r.ID] {
				missing = append(missing, fmt.Sprint(r.ID))
			}
		}
		tset := map[uint64]bool{}
		for _, r := range truth {
			tset[r.ID] = true
		}
		for _, g := range got {
			if !tset[g.ID()] {
				extra = append(extra, fmt.Sprint(g.ID()))
			}
		}
		diff = fmt.Sprintf(" | missing=[%s] extra=[%s]", strings.Join(missing, " "), strings.Join(extra, " "))
	}
	sorted := append([]*ref.Rec{}, truth...)
	sort.SliceStable(sorted, func(i, j int) bool { return less(sorted[i], sorted[j], effKeys) })
	lo, hi := int(p.skip), len(sorted)
	if lo > hi {
		lo = hi
	}
	if p.limit != 0 && lo+int(p.limit) < hi {
		hi = lo + int(p.limit)
	}
	want := sorted[lo:hi]
	inTruth := map[uint64]bool{}
	for _, r := range truth {
		inTruth[r.ID] = true
	}
	seen := map[uint64]bool{}
	gotIDs := make([]string, len(got))
	for i, g := range got {
		gotIDs[i] = fmt.Sprint(g.ID())
	}
	gs := strings.Join(gotIDs, " ")
	for _, g := range got {
		if seen[g.ID()] {
			bad("search.duplicate", "stream %d returned twice; result [%s], truth sorted [%s]", g.ID(), gs, idsOf(sorted))
			return
		}
		seen[g.ID()] = true
		if !inTruth[g.ID()] {
			bad("search.extra", "stream %d returned but the query does not denote it; result [%s], truth [%s]", g.ID(), gs, idsOf(sorted))
			return
		}
		// the visible version must be the newest one
		if g.ClientPort != w.recs[g.ID()].CPort || g.ClientBytes != w.recs[g.ID()].CBytes || !g.FirstPacket().Equal(w.recs[g.ID()].FTime) {
			bad("search.stale-version", "stream %d returned in a shadowed version (cport %d cbytes %d)", g.ID(), g.ClientPort, g.ClientBytes)
			return
		}
	}
	if len(got) != len(want) {
		sym := "search.missing"
		if len(got) > len(want) {
			sym = "search.too-many"
		}
		bad(sym, "returned %d streams [%s], want %d: page [%s] of sorted truth [%s]", len(got), gs, len(want), idsOf(want), idsOf(sorted))
		return
	}
	for i := range got {
		if keyTuple(w.recs[got[i].ID()], effKeys) != keyTuple(want[i], effKeys) {
			bad("search.order", "position %d holds stream %d, sorted truth has stream %d there; result [%s], page of truth [%s] (all [%s])", i, got[i].ID(), want[i].ID, gs, idsOf(want), idsOf(sorted))
			return
		}
	}
	if p.limit != 0 {
		wantMore := len(sorted) > int(p.skip+p.limit)
		if more != wantMore {
			bad("search.more-flag", "more=%v but %d streams match and skip+limit=%d; result [%s]", more, len(sorted), p.skip+p.limit, gs)
		}
	}
	return
}
