package c02

import (
	"bytes"
	"context"
	"fmt"
	"sort"
	"strings"
	"time"

	"github.com/spq/pkappa2/internal/index"
	"github.com/spq/pkappa2/internal/query"
	"github.com/spq/pkappa2/verifx/mc"
	"github.com/spq/pkappa2/verifx/ref"
)

// Restricted sub-queries (positive forms only): a query is a conjunction of filters on the
// sub-query stream x, relations between the main stream and x, and filters on the main stream.
// It denotes the main streams s for which SOME visible stream x satisfies x's own filters and all
// relations.  Negation over sub-query atoms is not enumerated (its reading is not specified).

type sqAtom struct {
	text string
	own  func(x *ref.Rec) bool    // filter on x
	rel  func(s, x *ref.Rec) bool // relation
	main func(s *ref.Rec) bool    // filter on s
}

func subqueryAtoms() (own, rel, main []sqAtom) {
	t1200 := T0
	own = []sqAtom{
		{text: "@x:cport:80", own: func(x *ref.Rec) bool { return x.CPort == 80 }},
		{text: "@x:protocol:udp", own: func(x *ref.Rec) bool { return x.Proto == ref.ProtoUDP }},
		{text: "@x:id:2:", own: func(x *ref.Rec) bool { return x.ID >= 2 }},
		{text: "@x:tag:b", own: func(x *ref.Rec) bool { return x.Tags["tag/b"] == ref.TagMatching }},
		{text: "@x:chost:10.0.0.1", own: func(x *ref.Rec) bool { return x.CHost.Equal(ip("10.0.0.1")) }},
		{text: "@x:cbytes:2", own: func(x *ref.Rec) bool { return x.CBytes == 2 }},
		{text: `@x:ftime:"2020-01-01 1200:"`, own: func(x *ref.Rec) bool { return !x.FTime.Before(t1200) }},
		{text: "@x:sport:79", own: func(x *ref.Rec) bool { return x.SPort == 79 }},
	}
	rel = []sqAtom{
		{text: "sport:@x:sport@", rel: func(s, x *ref.Rec) bool { return s.SPort == x.SPort }},
		{text: "cport:@x:sport@", rel: func(s, x *ref.Rec) bool { return s.CPort == x.SPort }},
		{text: "id:@x:id@+1", rel: func(s, x *ref.Rec) bool { return s.ID == x.ID+1 }},
		{text: "cbytes:@x:sbytes@", rel: func(s, x *ref.Rec) bool { return s.CBytes == x.SBytes }},
		{text: "cbytes:@x:cbytes@+1:", rel: func(s, x *ref.Rec) bool { return s.CBytes >= x.CBytes+1 }},
		{text: "protocol:@x:protocol@", rel: func(s, x *ref.Rec) bool { return s.Proto == x.Proto }},
		{text: "chost:@x:shost@", rel: func(s, x *ref.Rec) bool { return bytes.Equal(s.CHost, x.SHost) }},
		{text: "shost:@x:shost@", rel: func(s, x *ref.Rec) bool { return bytes.Equal(s.SHost, x.SHost) }},
		{text: `ftime:"@x:ltime@:"`, rel: func(s, x *ref.Rec) bool { return !s.FTime.Before(x.LTime) }},
		{text: `ltime:":@x:ftime@+1h"`, rel: func(s, x *ref.Rec) bool { return !s.LTime.After(x.FTime.Add(time.Hour)) }},
	}
	main = []sqAtom{
		{text: "", main: func(s *ref.Rec) bool { return true }},
		{text: "cport:80", main: func(s *ref.Rec) bool { return s.CPort == 80 }},
		{text: "protocol:tcp", main: func(s *ref.Rec) bool { return s.Proto == ref.ProtoTCP }},
		{text: "tag:a", main: func(s *ref.Rec) bool { return s.Tags["tag/a"] == ref.TagMatching }},
		{text: "id:1:8", main: func(s *ref.Rec) bool { return s.ID >= 1 && s.ID <= 8 }},
	}
	return
}

type sqCase struct {
	text           string
	own, rel, main []sqAtom
}

func subqueryCases(tier string) []sqCase {
	own, rel, main := subqueryAtoms()
	var out []sqCase
	combos := func(l []sqAtom, max int) [][]sqAtom {
		var res [][]sqAtom
		for i := range l {
			res = append(res, []sqAtom{l[i]})
			if max >= 2 {
				for j := i + 1; j < len(l); j++ {
					res = append(res, []sqAtom{l[i], l[j]})
				}
			}
		}
		return res
	}
	ownMax, relMax := 1, 2
	if tier == "thorough" {
		ownMax = 2
	}
	for _, o := range append([][]sqAtom{nil}, combos(own, ownMax)...) {
		for _, r := range combos(rel, relMax) {
			for _, m := range main {
				var parts []string
				for _, a := range o {
					parts = append(parts, a.text)
				}
				for _, a := range r {
					parts = append(parts, a.text)
				}
				if m.text != "" {
					parts = append(parts, m.text)
				}
				out = append(out, sqCase{strings.Join(parts, " "), o, r, []sqAtom{m}})
			}
		}
	}
	return out
}

// checkSubqueries runs the sub-query family on every world; returns (searches, non-trivial, engine refusals).
func checkSubqueries(rep *mc.Reporter, worlds []*world, tier string, deadline time.Time) (int64, int64, map[string]int, bool) {
	cases := subqueryCases(tier)
	var searches, nontrivial int64
	refusals := map[string]int{}
	complete := true
	for ci, c := range cases {
		if ci%64 == 0 && time.Now().After(deadline) {
			complete = false
			break
		}
		q, err := query.Parse(c.text)
		if err != nil {
			rep.Report(mc.Violation{Symptom: "parse.error", Key: c.text, Msg: fmt.Sprintf("sub-query %q rejected by the parser: %v", c.text, err)})
			continue
		}
		w0 := worlds[0]
		var truth []uint64
		for sid := uint64(0); sid < uint64(len(w0.recs)); sid++ {
			s := w0.recs[sid]
			ok := c.main[0].main(s)
			if ok {
				ok = false
				for xid := uint64(0); xid < uint64(len(w0.recs)) && !ok; xid++ {
					x := w0.recs[xid]
					all := true
					for _, a := range c.own {
						all = all && a.own(x)
					}
					for _, a := range c.rel {
						all = all && a.rel(s, x)
					}
					ok = all
				}
			}
			if ok {
				truth = append(truth, sid)
			}
		}
		if len(truth) != 0 && len(truth) != len(w0.recs) {
			nontrivial++
		}
		for _, w := range worlds {
			searches++
			var got []*index.Stream
			var err error
			if pt := mc.Try(func() {
				if q.Conditions != nil {
					got, _, _, err = index.SearchStreams(context.Background(), w.readers, nil, q.ReferenceTime, q.Conditions, nil, []query.Sorting{{Key: query.SortingKeyID}}, 0, 0, w.tags, w.convs, false)
				}
			}); pt != "" {
				rep.Report(mc.Violation{Symptom: "subquery.panic", Key: c.text, Msg: fmt.Sprintf("sub-query %q on layout %q panics: %s", c.text, w.layout.name, pt)})
				continue
			}
			if err != nil {
				// the engine documents partial support: refusals are recorded, not judged
				refusals[err.Error()]++
				continue
			}
			var ids []uint64
			for _, g := range got {
				ids = append(ids, g.ID())
			}
			sort.Slice(ids, func(i, j int) bool { return ids[i] < ids[j] })
			if fmt.Sprint(ids) != fmt.Sprint(truth) {
				rep.Report(mc.Violation{Symptom: "subquery.wrong-set", Key: c.text,
					Msg:    fmt.Sprintf("sub-query %q on layout %q returns %v; the main streams for which some stream x satisfies x's filters and all relations are %v", c.text, w.layout.name, ids, truth),
					Replay: map[string]any{"query": c.text, "layout": w.layout.name}})
			}
		}
	}
	return searches, nontrivial, refusals, complete
}
