// Package c14: the query parser is total.  Every short byte string, every short sequence of
// grammar tokens and a set of structured stress families is parsed (twice) by the real
// query.Parse inside watchdog-supervised worker processes.
package c14

import (
	"fmt"
	"math"
	"strings"
	"time"

	"github.com/spq/pkappa2/internal/query"
	"github.com/spq/pkappa2/verifx/mc"
	"github.com/spq/pkappa2/verifx/ref"
)

var byteAlphabet = []string{
	"i", "d", "c", "s", "t", "a", "g", "o", "r", "n", "h", "e", "p", "l", "m", "b", "y", "x",
	":", "=", ",", "-", "!", "(", ")", "\"", "@", "\\", ".", "/", "+", " ", "0", "1", "9",
	"\x00", "\xff", "é", "\n", "*",
}

var tokens = []string{
	"id:1", "id:", ":", "=", "(", ")", "-", "!", "and", "or", "then", "tag:a", "mark:m,n", "cdata:a", "cdata:\"", "\"",
	"@x:", "@x:id:1", "sort:id", "sort:-ftime,x", "limit:1", "limit:x", "group:@id@", "group:\"@x:id@ @v@\"",
	"id:@cport@+1", "id:@x:id@", "cport:@sport@+@sport@+@cport@+@cport@+@cport@", "bytes:@cbytes@+@sbytes@:",
	"ftime:1200", "ftime:-5m:", "time:\"2020-01-01 1200\"", "ftime:@ltime@", "ltime:@x:ftime@+1h",
	"chost:1.2.3.4/33", "chost:1.2.3.4/-200", "chost:::1", "host:@chost@", "shost:@x:chost@/16",
	"protocol:@protocol@", "protocol:@x:protocol@", "protocol:xyz", "protocol:tcp,udp",
	"data.conv:x", "id.conv:1", "cdata:(", "cdata:[", "cdata:@v@", "cdata:\"(?P<v>a)\"", "cdata:@@", "sdata:\\",
	"id:99999999999999999999", "id:-1", "id:1:2:3", "id:3:1", "limit:-1", "id::", "port:1,2",
}

type caseT struct {
	text   string
	family string
	prompt bool // within the promptness claim (constructed DNF below a few hundred conjuncts)
}

func enumStrings(alpha []string, maxLen int, f func(string)) {
	var rec func(prefix string, n int)
	rec = func(prefix string, n int) {
		f(prefix)
		if n == maxLen {
			return
		}
		for _, a := range alpha {
			rec(prefix+a, n+1)
		}
	}
	rec("", 0)
}

func enumTokens(maxLen int, sep string, f func(string)) {
	var rec func(parts []string)
	rec = func(parts []string) {
		if len(parts) != 0 {
			f(strings.Join(parts, sep))
		}
		if len(parts) == maxLen {
			return
		}
		for _, t := range tokens {
			rec(append(parts, t))
		}
	}
	rec(nil)
}

// constructedConjuncts estimates the largest number of conjuncts the normaliser constructs for a
// space-separated token sequence: an atom that translates into W disjuncts of C conditions becomes,
// negated, C^W conjuncts of W conditions (before simplification), and so on for every further
// negation sign in front of it.  The statement claims promptness only below a few hundred.
func constructedConjuncts(text string) float64 {
	worst := 1.0
	negs := 0
	for _, tok := range strings.Fields(text) {
		switch {
		case tok == "-" || tok == "!":
			negs++
			continue
		case strings.Contains(tok, ":") && !strings.HasPrefix(tok, "@") && !strings.HasPrefix(tok, "sort:") && !strings.HasPrefix(tok, "limit:") && !strings.HasPrefix(tok, "group:") && strings.IndexAny(tok, ":.") > 0:
			wi, ci := ref.AtomShape(tok)
			w, c := float64(wi), float64(ci)
			for k := 0; k < negs; k++ {
				w, c = math.Pow(c, w), w
				if w > worst {
					worst = w
				}
				if w > 1e6 {
					break
				}
			}
		}
		negs = 0
	}
	return worst
}

func buildCases(tier string) []caseT {
	var cases []caseT
	seen := map[string]bool{}
	add := func(fam string, prompt bool) func(string) {
		return func(s string) {
			if seen[s] {
				return
			}
			seen[s] = true
			// repeated negation of a multi-valued atom constructs an exponential normal form: outside
			// the promptness claim (still judged for panics and for equality of two parses)
			cases = append(cases, caseT{s, fam, prompt && constructedConjuncts(s) <= 300})
		}
	}
	bl, tl := 3, 2
	if tier == "thorough" {
		bl, tl = 4, 3
	}
	enumStrings(byteAlphabet, bl, add(fmt.Sprintf("bytes<=%d", bl), true))
	enumTokens(tl, " ", add(fmt.Sprintf("tokens<=%d", tl), true))
	enumTokens(2, "", add("tokens<=2 adjacent", true))
	if tier != "thorough" {
		// third token only from a reduced set in quick
		short := []string{"id:1", "(", ")", "-", "or", "then", "cdata:a", "@x:id:1", "sort:id", "id:@x:id@", "cdata:@v@", "cdata:\"(?P<v>a)\"", "protocol:@x:protocol@", "host:@chost@"}
		for _, a := range tokens {
			for _, b := range tokens {
				for _, c := range short {
					add("tokens 3 (third from 14)", true)(a + " " + b + " " + c)
				}
			}
		}
	}
	st := add("structured", true)
	// arithmetic with repeated summands: factors sharing divisors
	vars := []string{"@cbytes@", "@sbytes@", "@id@"}
	for k := 0; k <= 6; k++ {
		for m := 0; m <= 6; m++ {
			for n := 0; n <= 3; n++ {
				for _, c := range []string{"", "+6", "-4", "+7"} {
					parts := []string{}
					for i, cnt := range []int{k, m, n} {
						for j := 0; j < cnt; j++ {
							parts = append(parts, vars[i])
						}
					}
					if len(parts) == 0 {
						continue
					}
					st("cbytes:" + strings.Join(parts, "+") + c)
					st("sbytes:" + strings.Join(parts, "+") + c + ":")
					st("id::-" + strings.Join(parts, "-") + c)
				}
			}
		}
	}
	// data filters that share their constant text and differ in their variable references, combined
	// in pairs (quick) and triples (thorough): duplicate removal and sequence merging compare them
	{
		var dterms []string
		for _, key := range []string{"cdata", "sdata"} {
			for _, text := range []string{"a", "b"} {
				for _, vs := range []string{"", "@v@", "@x:id@", "@v@@x:id@", "@x:id@@v@"} {
					dterms = append(dterms, key+":"+text+vs)
				}
			}
		}
		dterms = append(dterms, "data:a", "data:a@v@", "cdata:\"(?P<v>a)\"", "@x:id:1")
		sd := add("data filters sharing text, different variables", true)
		for _, a := range dterms {
			for _, b := range dterms {
				for _, con := range []string{" ", " or ", " then "} {
					sd(a + con + b)
					sd("-" + a + con + b)
					sd(a + con + "-" + b)
					sd("-(" + a + con + b + ")")
					if tier == "thorough" {
						for _, c := range dterms {
							for _, con2 := range []string{" ", " or ", " then "} {
								sd(a + con + b + con2 + c)
								sd("-(" + a + con + b + ")" + con2 + c)
							}
						}
					}
				}
			}
		}
	}
	// signed sums of own, foreign and sub-query variables in every order: terms may cancel each other
	terms := []string{"+@id@", "-@id@", "+@a:id@", "-@a:id@", "+@cport@", "-@sport@", "+@sport@", "+1", "-2"}
	exprLen := 3
	if tier == "thorough" {
		exprLen = 4
	}
	var exprs []string
	var genExpr func(cur string, n int)
	genExpr = func(cur string, n int) {
		if n > 0 {
			exprs = append(exprs, strings.TrimPrefix(cur, "+"))
		}
		if n == exprLen {
			return
		}
		for _, t := range terms {
			genExpr(cur+t, n+1)
		}
	}
	genExpr("", 0)
	for _, key := range []string{"id", "cport", "port", "sbytes"} {
		for _, e := range exprs {
			st(key + ":" + e)
			st(key + ":" + e + ":")
		}
	}
	for _, e := range exprs[:min(len(exprs), 200)] {
		st("ftime:" + strings.NewReplacer("@id@", "@ftime@", "@a:id@", "@a:ltime@", "@cport@", "@ltime@", "@sport@", "@a:ftime@", "+1", "+1h", "-2", "-2m").Replace(e))
	}
	for k := 1; k <= 6; k++ {
		for m := 1; m <= 6; m++ {
			st(fmt.Sprintf("ftime:%s:%s", strings.Repeat("+@ltime@", k), strings.Repeat("-@ftime@", m)))
		}
	}
	// boundary values of the value sub-parsers: host masks (prefix / trailing-bit suffixes around the
	// address widths), numbers around the field widths, times and durations around their ranges;
	// every value alone, as range ends and in lists
	{
		vb := add("value sub-parser boundaries", true)
		bits := []string{"-200", "-129", "-128", "-127", "-65", "-64", "-63", "-33", "-32", "-31", "-17", "-16", "-9", "-8", "-1", "0", "1", "7", "8", "16", "31", "32", "33", "63", "64", "65", "127", "128", "129", "200", "x", "", "+5", "99999999999999999999", "-99999999999999999999"}
		addrs := []string{"1.2.3.4", "::1", "fe80::1", "255.255.255.255", "@chost@", "@x:shost@", "1.2.3", "::ffff:1.2.3.4"}
		for _, key := range []string{"host", "chost", "shost"} {
			for _, a := range addrs {
				for _, b1 := range bits {
					vb(key + ":" + a + "/" + b1)
					vb("@x:" + key + ":" + a + "/" + b1)
					for _, b2 := range bits {
						vb(key + ":" + a + "/" + b1 + "/" + b2)
					}
				}
			}
		}
		nums := []string{"0", "1", "-1", "255", "256", "65535", "65536", "4294967295", "4294967296", "9223372036854775807", "9223372036854775808", "18446744073709551615", "18446744073709551616", "-9223372036854775808", "-9223372036854775809", "1e3", "0x10", "007", "+1", "1.5", "@id@", "@id@+18446744073709551615", "@x:cport@-65536"}
		for _, key := range []string{"id", "cport", "sport", "port", "cbytes", "sbytes", "bytes", "limit"} {
			for _, a := range nums {
				vb(key + ":" + a)
				vb("-" + key + ":" + a)
				vb(key + ":" + a + ":")
				vb(key + "::" + a)
				for _, b := range nums {
					vb(key + ":" + a + ":" + b)
					vb(key + ":" + a + "," + b)
				}
			}
		}
		times := []string{"0", "1200", "2359", "2360", "2400", "9999", "12000", "-0", "-5m", "+5m", "-1h1m1s", "-1.5h", "-99999999999h", "-9223372036854775807ns", "1h", "\"2020-01-01 1200\"", "\"2020-13-01 1200\"", "\"2020-02-30 0000\"", "\"0000-01-01 0000\"", "\"9999-12-31 2359\"", "\"2020-01-01\"", "\"2020-01-01  1200\"", "\"2020-01-01   120000\"", "\"2020-01-01     1200\"", "\"2020-01-01\t1200\"", "\" 2020-01-01 1200\"", "\"2020-01-01 1200 \"", "\"2020-01-01 1200:2020-01-01      130000\"", "@ltime@", "@ltime@+99999999999h", "@x:ftime@-1ns", "\"@ftime@+1h\"", "1200+1h", "x"}
		for _, key := range []string{"ftime", "ltime", "time"} {
			for _, a := range times {
				vb(key + ":" + a)
				vb("-" + key + ":" + a)
				vb(key + ":" + a + ":")
				vb(key + "::" + a)
				for _, b := range times {
					vb(key + ":" + a + ":" + b)
				}
			}
		}
	}
	// sort / limit / group terms: every list of up to three elements over keys, signs, blanks and empty elements
	{
		sl := add("sort/limit/group lists", true)
		elems := []string{"", " ", "id", "-id", "+id", "-", "+", "ftime", "-ftime", "cbytes", "x", "--id", "id ", "ID"}
		for _, a := range elems {
			sl("sort:" + a)
			sl("sort:\"" + a + "\"")
			for _, b := range elems {
				sl("sort:" + a + "," + b)
				sl("sort:\"" + a + "," + b + "\"")
				sl("cport:1 sort:" + a + "," + b + " limit:5")
				for _, c := range elems[:8] {
					sl("sort:" + a + "," + b + "," + c)
				}
			}
		}
		// data filters that do not compile, with a variable next to the offending construct
		for _, pre := range []string{"(?", "(?i", "(?P<", "[b-", "[", "(", "x{2,1}", "*", "\\", "[[:", "(?:"} {
			for _, v := range []string{"@a@", "@s:v@", "@a@@b@"} {
				for _, post := range []string{"", ")", "]", "+", "**", "{", "|)"} {
					for _, key := range []string{"cdata", "sdata.none", "data"} {
						sl(key + ":\"" + pre + v + post + "\"")
						sl("@s:id:1 cdata:\"(?P<a>.)\" then " + key + ":\"x" + pre + v + post + "\"")
					}
				}
			}
		}
		// a clause given twice: equal, different, one a prefix of the other, with other terms between them
		lists := []string{"id", "-id", "id,-ftime", "id,-ftime,cbytes", "ftime", "-ftime,id", "id,id", ""}
		for _, a := range lists {
			for _, b := range lists {
				sl("sort:" + a + " sort:" + b)
				sl("sort:" + a + " cport:1 limit:5 sort:" + b + " limit:5")
			}
		}
		for _, a := range []string{"1", "5", "0", ""} {
			for _, b := range []string{"1", "5", "0", "x"} {
				sl("limit:" + a + " limit:" + b)
				sl("limit:" + a + " id:1 sort:id limit:" + b)
			}
		}
		for _, a := range []string{"@id@", "@cport@", "\"@id@ @cport@\"", ""} {
			for _, b := range []string{"@id@", "@cport@", "\"@id@ @cport@\"", "\"@id@ @cport@ @sport@\""} {
				sl("group:" + a + " group:" + b)
			}
		}
		for _, v := range []string{"", "0", "1", "-1", "+1", "1,2", "x", "18446744073709551615", "18446744073709551616", " 5", "5 ", "1.5", "0x10", "\"5\"", "\"\"", "\""} {
			sl("limit:" + v)
			sl("id:1 limit:" + v + " sort:id")
			sl("limit:" + v + " limit:" + v)
		}
		for _, v := range []string{"", "@id@", "@x:id@", "@v@", "\"@id@ @cport@\"", "\"\"", "@", "@@", "@id", "id@", "@x:@", "\"@x:id@ @v@ @id@\"", ",", "@id@,@cport@"} {
			sl("group:" + v)
			sl("cdata:\"(?P<v>a)\" group:" + v)
			sl("@x:id:1 group:" + v + " sort:id")
		}
	}
	// long lists, deep nesting
	ids := make([]string, 1000)
	for i := range ids {
		ids[i] = fmt.Sprint(i * 2)
	}
	st("id:" + strings.Join(ids, ","))
	st("-id:" + strings.Join(ids[:8], ","))
	ors := make([]string, 200)
	for i := range ors {
		ors[i] = fmt.Sprintf("cport:%d", i)
	}
	st(strings.Join(ors, " or "))
	st(strings.Join(ors, " "))
	st(strings.Repeat("(", 30) + "id:1" + strings.Repeat(")", 30))
	st(strings.Repeat("-", 31) + "id:1")
	st(strings.Repeat("-(", 12) + "id:1" + strings.Repeat(")", 12))
	st(strings.Repeat("(", 30) + "id:1")
	st("cdata:" + strings.Repeat("a", 100000))
	st("cdata:\"" + strings.Repeat("(", 2000) + "\"")
	st("cdata:\"" + strings.Repeat("(a", 500) + strings.Repeat(")", 500) + "\"")
	st(strings.Repeat("cdata:a then ", 50) + "cdata:a")
	tags := []string{"tag:a", "tag:b", "mark:c", "service:d", "generated:e", "tag:f", "tag:g", "tag:h", "tag:i", "tag:j"}
	for n := 1; n <= 10; n++ {
		// one condition per disjunct: negation is linear
		st("-(" + strings.Join(tags[:n], " or ") + ")")
		st("-(" + strings.Join(tags[:n], " and ") + ")")
	}
	for n := 1; n <= 8; n++ {
		// two conditions per disjunct: 2^n <= 256 constructed conjuncts
		eq := []string{}
		for i := 0; i < n; i++ {
			eq = append(eq, fmt.Sprintf("id:%d", i*3))
		}
		st("-(" + strings.Join(eq, " or ") + ")")
		st("-id:" + strings.Join(ids[:n], ","))
	}
	// beyond the claim: recorded, not judged (constructed normal form of thousands of conjuncts)
	if tier == "thorough" {
		slow := add("beyond-claim (constructed DNF > 300)", false)
		slow("-(id:1,3 and port:79,81)")
		slow("-(port:80 and (-(protocol:tcp)))")
		slow("-(port:1,2 and port:3,4)")
	}
	return cases
}

func Run(tier string) int {
	rep := mc.NewReporter("C14", tier, "model_checking")
	rep.Driver = "c14"
	budget := 100 * time.Second
	if tier == "thorough" {
		budget = 14 * time.Minute
	}
	cases := buildCases(tier)
	famCounts := map[string]int{}
	for _, c := range cases {
		famCounts[c.family]++
	}
	job := mc.ShardedJob{
		N:        len(cases),
		CaseName: func(i int) string { return cases[i].text },
		Timeout:  60 * time.Second,
		Deadline: time.Now().Add(budget),
		Run: func(i int) mc.CaseResult {
			var out mc.CaseResult
			c := cases[i]
			q1, err1 := query.Parse(c.text)
			q2, err2 := query.Parse(c.text)
			out.Counters = map[string]int64{}
			switch {
			case (err1 == nil) != (err2 == nil):
				out.Violations = append(out.Violations, mc.Violation{Symptom: "parse.unstable", Key: short(c.text), Msg: fmt.Sprintf("parsing %q twice: first error %v, second error %v", c.text, err1, err2), Replay: map[string]any{"query": c.text}})
			case err1 != nil:
				out.Counters["errors"] = 1
				out.Outcome = "error:" + errClass(err1)
			default:
				out.Counters["parsed"] = 1
				s1, s2 := q1.Conditions.String(), q2.Conditions.String()
				if !equivalent(q1, q2) || fmt.Sprint(q1.Sorting) != fmt.Sprint(q2.Sorting) || (q1.Limit == nil) != (q2.Limit == nil) || (q1.Limit != nil && *q1.Limit != *q2.Limit) || (q1.Conditions == nil) != (q2.Conditions == nil) {
					out.Violations = append(out.Violations, mc.Violation{Symptom: "parse.not-equivalent", Key: short(c.text), Msg: fmt.Sprintf("parsing %q twice gives %s and %s", c.text, s1, s2), Replay: map[string]any{"query": c.text}})
				}
				if q1.Conditions == nil {
					out.Outcome = "nothing"
				} else {
					out.Outcome = fmt.Sprintf("conj=%d", len(q1.Conditions))
					if len(q1.Conditions) > 1 || len(q1.Conditions[0]) > 0 {
						out.Counters["nontrivial"] = 1
					}
				}
			}
			if i%(len(cases)/8+1) == 0 {
				out.Sample = fmt.Sprintf("%q -> %s", short(c.text), out.Outcome)
			}
			return out
		},
	}
	st := job.Execute(rep)
	var unjudged []string
	for _, i := range st.Hangs {
		if cases[i].prompt {
			rep.Report(mc.Violation{Symptom: "hang", Key: short(cases[i].text), Msg: fmt.Sprintf("query.Parse(%q) did not return within 60s (family %s)", short(cases[i].text), cases[i].family), Replay: map[string]any{"query": cases[i].text}})
		} else {
			unjudged = append(unjudged, "no answer within 60s (outside the promptness claim): "+short(cases[i].text))
		}
	}
	for _, i := range st.Crashes {
		if cases[i].prompt {
			rep.Report(mc.Violation{Symptom: "crash", Key: short(cases[i].text), Msg: fmt.Sprintf("worker died while parsing %q: %s", short(cases[i].text), st.CrashText[i]), Replay: map[string]any{"query": cases[i].text}})
		} else {
			unjudged = append(unjudged, "worker died (outside the promptness claim): "+short(cases[i].text))
		}
	}
	cv := rep.Coverage
	cv["evaluations"] = st.Done
	cv["distinct_nontrivial"] = st.Counters["nontrivial"]
	cv["states"] = st.Done
	cv["transitions"] = st.Done * 2
	cv["traces_validated_against_impl"] = st.Done
	cv["rule"] = "every byte string up to the stated length over a 40-symbol alphabet, every sequence of grammar tokens up to the stated length over 57 tokens (space-joined and adjacent), and structured stress families; each parsed twice by query.Parse in a worker with a 60 s watchdog; non-trivial = parsed into at least one condition"
	cv["families"] = famCounts
	cv["parsed"] = st.Counters["parsed"]
	cv["rejected_with_error"] = st.Counters["errors"]
	cv["distinct_outcomes"] = len(st.Outcomes)
	cv["samples"] = st.Samples
	cv["observed_outside_claim"] = unjudged
	cv["exhaustive"] = !st.TimedOut
	if st.TimedOut {
		cv["caps_hit"] = []string{"deadline"}
	}
	rep.Assumptions = []string{"promptness is judged only with a 60 s liveness watchdog and only for inputs whose constructed normal form stays below a few hundred conjuncts",
		"equivalence of two parses is checked as equality of the printed normal form, sorting and limit"}
	if len(st.Outcomes) < 3 {
		mc.Fatal("vacuous: %d outcomes", len(st.Outcomes))
	}
	return rep.Finish()
}

func short(s string) string {
	if len(s) > 120 {
		return fmt.Sprintf("%s…(%d bytes)", s[:100], len(s))
	}
	return s
}

func errClass(err error) string {
	s := err.Error()
	if i := strings.IndexAny(s, "\"0123456789"); i > 8 {
		s = s[:i]
	}
	if f := strings.Fields(s); len(f) > 3 {
		s = strings.Join(f[:3], " ")
	}
	if len(s) > 30 {
		s = s[:30]
	}
	return s
}

// equivalent compares two parses of one text structurally.  Time conditions store durations
// relative to the instant of parsing: an absolute time in the text contributes (t - ref), so the
// two durations may differ by a small integer multiple of the distance of the two reference times.
func equivalent(q1, q2 *query.Query) bool {
	a, b := q1.Conditions, q2.Conditions
	if len(a) != len(b) {
		return false
	}
	delta := q2.ReferenceTime.Round(0).Sub(q1.ReferenceTime.Round(0)) // wall clock, the durations were computed against times without monotonic reading
	for i := range a {
		if len(a[i]) != len(b[i]) {
			return false
		}
		for j := range a[i] {
			t1, ok1 := a[i][j].(*query.TimeCondition)
			t2, ok2 := b[i][j].(*query.TimeCondition)
			if ok1 != ok2 {
				return false
			}
			if !ok1 {
				if a[i][j].String() != b[i][j].String() {
					return false
				}
				continue
			}
			if len(t1.Summands) != len(t2.Summands) || t1.ReferenceTimeFactor != t2.ReferenceTimeFactor {
				return false
			}
			for k := range t1.Summands {
				if t1.Summands[k] != t2.Summands[k] {
					return false
				}
			}
			d := t1.Duration - t2.Duration
			if d == 0 {
				continue
			}
			if delta == 0 || d%delta != 0 || d/delta > 8 || d/delta < -8 {
				return false
			}
		}
	}
	return true
}
