#!/bin/bash
set -eu
cd "$(dirname "$0")"
mkdir -p bin evidence replay
./build.sh race
echo setup ok
