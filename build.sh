#!/bin/bash
# (re)builds the checker from /repo's current working tree with hooks enabled
set -eu
cd "$(dirname "$0")"
. ./env.sh
mkdir -p bin
# the harness module resolves /repo through a replace directive; keep go.sum in sync with /repo's
cat "$REPO_DIR/go.sum" harness/go.sum.extra 2>/dev/null | sort -u > harness/go.sum
python3 overlay/gen.py > bin/overlay.json
# background runs against a snapshot of the repository (vp run --with-repo): REPO_DIR=$VP_RUN_REPO
if [ "$REPO_DIR" != /repo ]; then (cd harness && "$GO" mod edit -replace "github.com/spq/pkappa2=$REPO_DIR"); fi
(cd harness && "$GO" build -tags verif -overlay "$VERIF_DIR/bin/overlay.json" -o "$VERIF_DIR/bin/vcheck" ./cmd/vcheck && "$GO" build -o "$VERIF_DIR/bin/vconv" ./cmd/vconv)
if [ "${1:-}" = race ]; then
  # C20: the same binary with the race detector
  (cd harness && "$GO" build -race -tags verif -overlay "$VERIF_DIR/bin/overlay.json" -o "$VERIF_DIR/bin/vcheck-race" ./cmd/vcheck)
fi
# C19 drives the real router through a test binary of package main (overlay adds the test file and the web/dist stub)
(cd "$REPO_DIR" && "$GO" test -c -tags verif -vet=off -overlay "$VERIF_DIR/bin/overlay.json" -o "$VERIF_DIR/bin/c19.test" ./cmd/pkappa2)
