#!/usr/bin/env python3
# prints the go build overlay: files under /verif/overlay/<path relative to /repo> are mapped into /repo
import json, os
root = os.path.dirname(os.path.abspath(__file__))
repo = os.environ.get("REPO_DIR", "/repo")
rep = {}
for d, _, fs in os.walk(os.path.join(root, "files")):
    for f in fs:
        src = os.path.join(d, f)
        rel = os.path.relpath(src, os.path.join(root, "files"))
        rep[os.path.join(repo, rel)] = src
# instrumented copies: files of the repository whose import of "sync" is rewritten to the scheduling shim
# internal/verifsync (lock acquisitions become scheduling points of the harness' interleaving explorer, E6)
gen = os.path.join(os.environ.get("VERIF_DIR", os.path.dirname(root)), "bin", "gen")
os.makedirs(gen, exist_ok=True)
for rel in ["internal/index/converters/cachefile.go", "internal/tools/filename.go"]:
    try:
        src = open(os.path.join(repo, rel)).read()
    except OSError:
        continue
    if '\t"sync"\n' not in src:
        continue
    dst = os.path.join(gen, rel.replace("/", "__"))
    src = src.replace('\t"sync"\n', '\tsync "github.com/spq/pkappa2/internal/verifsync"\n', 1)
    if rel.endswith("filename.go"):
        # readings of the clock become scheduling points with a controlled value
        src = src.replace("time.Now()", "sync.Now()")
    open(dst, "w").write(src)
    rep[os.path.join(repo, rel)] = dst
print(json.dumps({"Replace": rep}, indent=1))
