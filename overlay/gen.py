#!/usr/bin/env python3
# prints the go build overlay: files under /verif/overlay/<path relative to /repo> are mapped into /repo
import json, os
root = os.path.dirname(os.path.abspath(__file__))
repo = os.environ.get("REPO_DIR", "/repo")
rep = {}
for d, _, fs in os.walk(os.path.join(root, "files")):
    for f in fs:
        src = os.path.join(d, f)
        rel = os.path.relpath(src, os.path.join(root, "files"))
        rep[os.path.join(repo, rel)] = src
print(json.dumps({"Replace": rep}, indent=1))
