//go:build verif

package main

// Property C11 at the HTTP layer (overlay-injected into package main, never part of /repo).
//
// The routes PUT / PATCH / DELETE /api/tags of the real router (setupRouter) are driven with every combination
// of one or two `method` values of the PATCH route (each with an acceptable and an unacceptable parameter
// value), with add and delete requests that lack or repeat parameters, on a freshly restored set of tags.  A
// request that is not answered with 2xx must leave GET /api/tags exactly as it was.
//
// Environment: VERIF_C11H_OUT  path of the JSON result file (required)

import (
	"encoding/json"
	"fmt"
	"io"
	"net/http"
	"net/http/httptest"
	"net/url"
	"os"
	"path/filepath"
	"sort"
	"strings"
	"testing"
	"time"

	"github.com/spq/pkappa2/internal/index/manager"
)

type c11hViolation struct {
	Symptom string `json:"symptom"`
	Key     string `json:"key"`
	Msg     string `json:"msg"`
}

type c11hResult struct {
	Requests   int             `json:"requests"`
	Rejected   int             `json:"rejected"`
	Accepted   int             `json:"accepted"`
	Outcomes   map[string]int  `json:"outcomes"`
	Violations []c11hViolation `json:"violations"`
	Error      string          `json:"error"`
}

func TestVerifC11HTTP(t *testing.T) {
	out := os.Getenv("VERIF_C11H_OUT")
	if out == "" {
		t.Skip("VERIF_C11H_OUT not set")
	}
	res := &c11hResult{Outcomes: map[string]int{}}
	defer func() {
		b, _ := json.Marshal(res)
		os.WriteFile(out, b, 0o644)
	}()
	fail := func(f string, a ...any) {
		res.Error = fmt.Sprintf(f, a...)
		t.Fatalf("C11H harness error: %s", res.Error)
	}
	base, err := os.MkdirTemp("", "verif-c11h-")
	if err != nil {
		fail("%v", err)
	}
	defer os.RemoveAll(base)
	for _, d := range []string{"pcap", "index", "snapshots", "state", "converters", "watch"} {
		if err := os.MkdirAll(filepath.Join(base, d), 0o755); err != nil {
			fail("%v", err)
		}
	}
	*baseDir, *pcapDir, *indexDir, *snapshotDir, *stateDir = base, "pcap", "index", "snapshots", "state"
	*converterDir, *watchDir = filepath.Join(base, "converters"), filepath.Join(base, "watch")
	*userPassword, *pcapPassword = "", ""
	mgr, err := manager.New(filepath.Join(base, "pcap"), filepath.Join(base, "index"), filepath.Join(base, "snapshots"), filepath.Join(base, "state"), *converterDir, *watchDir)
	if err != nil {
		fail("manager.New: %v", err)
	}
	defer mgr.Close()
	// three streams (ids 0..2)
	for i := 1; i <= 3; i++ {
		if err := os.WriteFile(filepath.Join(base, "pcap", fmt.Sprintf("s%d.pcap", i)), c19Pcap(i, "c11h"), 0o644); err != nil {
			fail("%v", err)
		}
	}
	mgr.ImportPcaps([]string{"s1.pcap", "s2.pcap", "s3.pcap"})
	for start := time.Now(); ; time.Sleep(time.Millisecond) {
		st := mgr.Status()
		if st.ImportJobCount == 0 && !st.MergeJobRunning && !st.TaggingJobRunning && st.StreamCount == 3 {
			break
		}
		if time.Since(start) > 30*time.Second {
			fail("import did not finish: %+v", st)
		}
	}
	srv := httptest.NewServer(setupRouter(mgr, nil, nil))
	defer srv.Close()
	do := func(method, rawQuery string) (int, string) {
		req, err := http.NewRequest(method, srv.URL+"/api/tags?"+rawQuery, nil)
		if err != nil {
			fail("%v", err)
		}
		resp, err := http.DefaultClient.Do(req)
		if err != nil {
			fail("%s %s: %v", method, rawQuery, err)
		}
		defer resp.Body.Close()
		b, _ := io.ReadAll(resp.Body)
		return resp.StatusCode, strings.TrimSpace(string(b))
	}
	// the tag table as a client sees it, without the counters that background evaluation moves
	tags := func() string {
		st, body := do("GET", "")
		if st != 200 {
			fail("GET /api/tags: %d %s", st, body)
		}
		var l []map[string]any
		if err := json.Unmarshal([]byte(body), &l); err != nil {
			fail("GET /api/tags: %v in %s", err, body)
		}
		var lines []string
		for _, m := range l {
			lines = append(lines, fmt.Sprintf("%v def=%q color=%v referenced=%v converters=%v", m["Name"], m["Definition"], m["Color"], m["Referenced"], m["Converters"]))
		}
		sort.Strings(lines)
		return strings.Join(lines, "\n")
	}
	restore := func() {
		for pass := 0; pass < 4; pass++ {
			for _, ti := range mgr.ListTags() {
				mgr.DelTag(ti.Name) // referenced tags fail in this pass and go in a later one
			}
		}
		if n := len(mgr.ListTags()); n != 0 {
			fail("could not clear the tags: %d left", n)
		}
		for _, a := range [][3]string{{"tag/a", "#111111", "cport:1"}, {"tag/b", "#222222", "tag:a"}, {"tag/c", "#333333", "sport:53"}, {"mark/m", "#444444", "id:0"}} {
			if err := mgr.AddTag(a[0], a[1], a[2]); err != nil {
				fail("AddTag %v: %v", a, err)
			}
		}
	}
	q := func(kv ...string) string {
		v := url.Values{}
		for i := 0; i+1 < len(kv); i += 2 {
			v.Add(kv[i], kv[i+1])
		}
		return v.Encode()
	}
	type variant struct{ method, params, note string }
	variants := []variant{
		{"change_color", q("color", "#abcdef"), "ok"},
		{"change_color", "", "no colour"},
		{"change_query", q("query", "sport:80"), "ok"},
		{"change_query", q("query", "tag:zz"), "missing reference"},
		{"change_query", q("query", "cport:("), "syntax error"},
		{"change_name", q("new_name", "tag/fresh"), "ok unless referenced"},
		{"change_name", q("new_name", "tag/c"), "taken / own name"},
		{"change_name", q("new_name", "service/x"), "other kind"},
		{"converter_set", q("converters", "nope"), "unknown converter"},
		{"converter_set", "", "empty selection"},
		{"mark_add", q("stream", "1"), "ok on a mark"},
		{"mark_add", q("stream", "99"), "unknown stream"},
		{"mark_del", q("stream", "0"), "ok on a mark"},
		{"mark_add", q("stream", "x"), "not a number"},
	}
	judge := func(key, before string, status int, body string) {
		res.Requests++
		oc := fmt.Sprintf("%d", status)
		res.Outcomes[oc]++
		after := tags()
		if status >= 200 && status <= 299 {
			res.Accepted++
			return
		}
		res.Rejected++
		if after != before {
			res.Violations = append(res.Violations, c11hViolation{Symptom: "c11.http-error-but-changed", Key: key,
				Msg: fmt.Sprintf("%s was answered %d (%s) but the tags changed:\n--- before\n%s\n--- after\n%s", key, status, body, before, after)})
		}
	}
	for _, name := range []string{"tag/a", "tag/c", "mark/m", "tag/zz"} {
		for i, v1 := range variants {
			// one method
			restore()
			before := tags()
			rq := q("name", name, "method", v1.method) + "&" + v1.params
			st, body := do("PATCH", rq)
			judge("PATCH "+rq, before, st, body)
			// two methods in one request
			for j, v2 := range variants {
				if i == j {
					continue
				}
				restore()
				before := tags()
				rq := q("name", name, "method", v1.method, "method", v2.method) + "&" + v1.params + "&" + v2.params
				st, body := do("PATCH", rq)
				judge("PATCH "+rq, before, st, body)
			}
		}
	}
	// add and delete requests with missing, repeated and contradictory parameters
	for _, rq := range []string{
		q("name", "tag/new", "color", "#010101", "query", "cport:2"), q("name", "tag/new", "color", "#010101"), q("name", "tag/new", "query", "cport:2"),
		q("name", "tag/a", "color", "#010101", "query", "cport:2"), q("name", "tag/new", "name", "tag/new2", "color", "#010101", "query", "cport:2"),
		q("name", "tag/new", "color", "#010101", "query", "tag:zz"), q("name", "bad", "color", "#010101", "query", "cport:2"), q("name", "mark/x", "color", "#010101", "query", "cport:2"),
		q("name", "tag/new", "color", "#010101", "query", "cport:2", "query", "cport:("),
	} {
		restore()
		before := tags()
		st, body := do("PUT", rq)
		judge("PUT "+rq, before, st, body)
	}
	for _, rq := range []string{q("name", "tag/a"), q("name", "tag/b"), q("name", "tag/zz"), "", q("name", "tag/b", "name", "tag/a"), q("name", "tag/a", "name", "tag/b")} {
		restore()
		before := tags()
		st, body := do("DELETE", rq)
		judge("DELETE "+rq, before, st, body)
	}
}
