//go:build verif

package main

// Property C19 driver (overlay-injected into package main, never part of /repo).
//
// It drives the real router returned by setupRouter over real TCP connections with raw request
// lines (nothing is normalised client side), in a scratch tree, and compares every request with a
// file-tree oracle.  See /verif/harness/c19/c19.go for the process that runs this test binary,
// shards the enumeration and turns the JSON result into the evidence file.
//
// Environment:
//   VERIF_C19_OUT       path of the JSON result file (required)
//   VERIF_C19_TIER      quick | thorough
//   VERIF_C19_SHARD     "i/n": this process runs worlds and traces with index % n == i
//   VERIF_C19_BUDGET_S  internal deadline in seconds (0 = none)
//   VERIF_C19_ONLY      run only the request group of this one target (debugging / replay)
//   VERIF_C19_TRACE     run only the interleaving with this index (debugging / replay)
//   VERIF_C19_DEBUG     print raw responses and the server's error log

import (
	"bufio"
	"bytes"
	"context"
	"crypto/sha1"
	"encoding/binary"
	"encoding/hex"
	"encoding/json"
	"fmt"
	"io"
	"io/fs"
	"log"
	"net"
	"net/http"
	"net/http/httptest"
	"net/url"
	"os"
	"path/filepath"
	"runtime"
	"sort"
	"strconv"
	"strings"
	"sync"
	"testing"
	"time"

	"github.com/spq/pkappa2/internal/index/manager"
	"github.com/spq/pkappa2/web"
)

const (
	c19Watchdog     = 30 * time.Second
	c19GroupsPerWld = 32
	c19LongLen      = 300
	c19CanaryMark   = "C19-CANARY-OUTSIDE-"
	c19ExistsMark   = "C19-EXISTING-CAPTURE"
)

type (
	c19Violation struct {
		Symptom string         `json:"symptom"`
		Key     string         `json:"key"`
		Msg     string         `json:"msg"`
		Replay  map[string]any `json:"replay"`
	}
	c19Result struct {
		Tier            string         `json:"tier"`
		Shard           int            `json:"shard"`
		Shards          int            `json:"shards"`
		Complete        bool           `json:"complete"`
		Targets         int            `json:"targets_total"`
		TracesTotal     int            `json:"traces_total"`
		Requests        int            `json:"requests"`
		DistinctReqs    int            `json:"distinct_requests"`
		Nontrivial      int            `json:"distinct_nontrivial"`
		Worlds          int            `json:"worlds"`
		Traces          int            `json:"traces"`
		TraceSteps      int            `json:"trace_steps"`
		Outcomes        map[string]int `json:"outcomes"`
		TraceOutcomes   map[string]int `json:"trace_outcomes"`
		Samples         []string       `json:"samples"`
		Violations      []c19Violation `json:"violations"`
		ViolationCounts map[string]int `json:"violation_counts"`
		Digests         []string       `json:"digests"`
		Uploads2xx      int            `json:"uploads_2xx"`
		Downloads2xx    int            `json:"downloads_2xx"`
		QueuedNames     int            `json:"queued_names_observed"`
		ArrivedEvents   int            `json:"pcap_arrived_events"`
		KnownPcaps      int            `json:"known_pcaps_at_world_end"`
		ValidUploads2xx int            `json:"valid_pcap_uploads_2xx"`
		StreamDownloads int            `json:"stream_downloads"`
		StreamDown2xx   int            `json:"stream_downloads_2xx"`
		Notes           []string       `json:"notes"`
		HarnessError    string         `json:"harness_error"`
	}
)

// ---------------------------------------------------------------------------------------------
// server side connection wrapper: lets the harness see how much of what it sent has been consumed
// and whether the server is parked in a read (used only to sequence the interleavings)

type c19Conn struct {
	net.Conn
	mu       sync.Mutex
	consumed int64
	pending  bool
	closed   bool
}

func (c *c19Conn) Read(p []byte) (int, error) {
	c.mu.Lock()
	c.pending = true
	c.mu.Unlock()
	n, err := c.Conn.Read(p)
	c.mu.Lock()
	c.pending = false
	c.consumed += int64(n)
	c.mu.Unlock()
	return n, err
}

func (c *c19Conn) Close() error {
	c.mu.Lock()
	c.closed = true
	c.mu.Unlock()
	return c.Conn.Close()
}

func (c *c19Conn) state() (consumed int64, pending, closed bool) {
	c.mu.Lock()
	defer c.mu.Unlock()
	return c.consumed, c.pending, c.closed
}

type c19Listener struct {
	net.Listener
	mu    sync.Mutex
	conns map[string]*c19Conn // keyed by the client's address
}

func (l *c19Listener) Accept() (net.Conn, error) {
	c, err := l.Listener.Accept()
	if err != nil {
		return nil, err
	}
	w := &c19Conn{Conn: c}
	l.mu.Lock()
	l.conns[c.RemoteAddr().String()] = w
	l.mu.Unlock()
	return w, nil
}

func (l *c19Listener) lookup(clientAddr string) *c19Conn {
	l.mu.Lock()
	defer l.mu.Unlock()
	return l.conns[clientAddr]
}

// ---------------------------------------------------------------------------------------------
// file tree snapshots

type c19File struct {
	Kind byte // f, d, l, o
	Size int64
	Sum  string
	Data []byte // regular, non managed files only (all are small)
}

type c19Snap map[string]c19File

type c19World struct {
	t       *testing.T
	scratch string // everything below is snapshotted
	base    string // *baseDir
	baseRel string
	pcapRel string
	mgr     *manager.Manager
	srv     *http.Server
	ln      *c19Listener
	addr    string
	hook    *httptest.Server

	obsMu     sync.Mutex
	hookNames []string
	events    map[string]int

	evCh     chan manager.Event
	evCloser func()
	flush    chan chan struct{}
	done     chan struct{}
	pumpDone chan struct{}

	canaries map[string]bool // rel paths of canary files
	snap     c19Snap
	dumpBuf  []byte
}

// c19Abort is a harness problem (hang watchdog, I/O error of the harness itself).  It unwinds to
// TestVerifC19, which still writes what has been found so far and then fails the test; it is only
// ever raised on the test goroutine.
type c19Abort struct{ msg string }

func c19Fatal(t *testing.T, format string, a ...any) {
	panic(c19Abort{fmt.Sprintf(format, a...)})
}

var c19Scratch = map[string]bool{} // live scratch trees, removed when the run is aborted

func (w *c19World) managed(rel string) bool {
	if w.canaries[rel] {
		return false
	}
	for _, d := range []string{"index", "snapshots", "state"} {
		if strings.HasPrefix(rel, w.baseRel+"/"+d+"/") {
			return true
		}
	}
	return false
}

func (w *c19World) snapshot() c19Snap {
	s := c19Snap{}
	err := filepath.WalkDir(w.scratch, func(p string, d fs.DirEntry, err error) error {
		if err != nil {
			if os.IsNotExist(err) {
				return nil // index files may be merged away while walking a managed dir
			}
			return err
		}
		rel, _ := filepath.Rel(w.scratch, p)
		if rel == "." {
			return nil
		}
		info, err := os.Lstat(p)
		if err != nil {
			if os.IsNotExist(err) {
				return nil
			}
			return err
		}
		switch m := info.Mode(); {
		case m.IsDir():
			s[rel] = c19File{Kind: 'd'}
		case m&os.ModeSymlink != 0:
			tgt, _ := os.Readlink(p)
			s[rel] = c19File{Kind: 'l', Sum: tgt}
		case m.IsRegular():
			if w.managed(rel) {
				s[rel] = c19File{Kind: 'f', Size: info.Size()}
				return nil
			}
			b, err := os.ReadFile(p)
			if err != nil {
				return err
			}
			h := sha1.Sum(b)
			s[rel] = c19File{Kind: 'f', Size: int64(len(b)), Sum: hex.EncodeToString(h[:]), Data: b}
		default:
			s[rel] = c19File{Kind: 'o', Sum: m.String()}
		}
		return nil
	})
	if err != nil {
		c19Fatal(w.t, "snapshot: %v", err)
	}
	return s
}

type c19Diff struct {
	added, removed, modified []string // unmanaged paths only
	managedChanged           int
}

func (w *c19World) diff(a, b c19Snap) c19Diff {
	var d c19Diff
	for p, fb := range b {
		fa, ok := a[p]
		switch {
		case !ok:
			if w.managed(p) {
				d.managedChanged++
			} else {
				d.added = append(d.added, p)
			}
		case fa.Kind != fb.Kind || fa.Size != fb.Size || fa.Sum != fb.Sum:
			if w.managed(p) {
				d.managedChanged++
			} else {
				d.modified = append(d.modified, p)
			}
		}
	}
	for p := range a {
		if _, ok := b[p]; !ok {
			if w.managed(p) {
				d.managedChanged++
			} else {
				d.removed = append(d.removed, p)
			}
		}
	}
	sort.Strings(d.added)
	sort.Strings(d.removed)
	sort.Strings(d.modified)
	return d
}

// digest of the unmanaged part of the tree, with the random scratch name factored out
func (w *c19World) digest(s c19Snap) string {
	paths := make([]string, 0, len(s))
	for p := range s {
		if !w.managed(p) {
			paths = append(paths, p)
		}
	}
	sort.Strings(paths)
	h := sha1.New()
	for _, p := range paths {
		f := s[p]
		fmt.Fprintf(h, "%s\x00%c\x00%d\x00%s\n", p, f.Kind, f.Size, f.Sum)
	}
	return hex.EncodeToString(h.Sum(nil)[:8])
}

// ---------------------------------------------------------------------------------------------
// world construction

func c19NewWorld(t *testing.T) *c19World {
	scratch, err := os.MkdirTemp("", "verif-c19-")
	if err != nil {
		c19Fatal(t, "%v", err)
	}
	scratch, _ = filepath.EvalSymlinks(scratch)
	c19Scratch[scratch] = true
	w := &c19World{t: t, scratch: scratch, baseRel: "o1/o2/o3/base", canaries: map[string]bool{}, events: map[string]int{},
		flush: make(chan chan struct{}), done: make(chan struct{}), pumpDone: make(chan struct{})}
	w.base = filepath.Join(scratch, w.baseRel)
	w.pcapRel = w.baseRel + "/pcap"
	for _, d := range []string{"pcap", "index", "snapshots", "state", "converters", "watch", "other"} {
		if err := os.MkdirAll(filepath.Join(w.base, d), 0o755); err != nil {
			c19Fatal(t, "%v", err)
		}
	}
	// canaries outside the capture directory, at every level a dot-dot chain of the enumerated
	// lengths can reach, in a sibling directory and in the index directory
	for _, rel := range []string{"canary.pcap", "o1/canary.pcap", "o1/o2/canary.pcap", "o1/o2/o3/canary.pcap",
		w.baseRel + "/canary.pcap", w.baseRel + "/other/canary.pcap", w.baseRel + "/index/canary.pcap", w.baseRel + "/exists.pcap"} {
		// a canary is a valid capture whose only packet carries the mark: a route that opens capture files by
		// name (the download of one stream's packets) returns the mark when it is led to a canary
		if err := os.WriteFile(filepath.Join(scratch, rel), c19Pcap(60001+len(w.canaries), c19CanaryMark+rel), 0o644); err != nil {
			c19Fatal(t, "%v", err)
		}
		w.canaries[rel] = true
	}
	*baseDir, *pcapDir, *indexDir, *snapshotDir, *stateDir = w.base, "pcap", "index", "snapshots", "state"
	*converterDir, *watchDir = filepath.Join(w.base, "converters"), filepath.Join(w.base, "watch")
	*userPassword, *pcapPassword = "", ""
	mgr, err := manager.New(filepath.Join(*baseDir, *pcapDir), filepath.Join(*baseDir, *indexDir),
		filepath.Join(*baseDir, *snapshotDir), filepath.Join(*baseDir, *stateDir), *converterDir, *watchDir)
	if err != nil {
		c19Fatal(t, "manager.New: %v", err)
	}
	w.mgr = mgr
	// a capture that exists before any request (put there after New: it is not known to the manager)
	if err := os.WriteFile(filepath.Join(w.base, "pcap", "exists.pcap"), c19Pcap(0, c19ExistsMark), 0o644); err != nil {
		c19Fatal(t, "%v", err)
	}
	// entries of the capture directory that are not regular files: a symbolic link whose target (outside the capture
	// directory) does not exist - a capture that was linked in from another volume and rotated away - and a directory
	// with a capture's name.  Both names are taken: an upload must fail and create nothing anywhere
	if err := os.Symlink("../other/rotated-away.pcap", filepath.Join(w.base, "pcap", "dangling.pcap")); err != nil {
		c19Fatal(t, "%v", err)
	}
	if err := os.Mkdir(filepath.Join(w.base, "pcap", "dir.pcap"), 0o755); err != nil {
		c19Fatal(t, "%v", err)
	}
	// named observation of the import queue: the processed-pcap webhook receives the absolute
	// names of every queue entry the importer took off the queue
	w.hook = httptest.NewServer(http.HandlerFunc(func(rw http.ResponseWriter, r *http.Request) {
		var names []string
		b, _ := io.ReadAll(r.Body)
		if err := json.Unmarshal(b, &names); err == nil {
			w.obsMu.Lock()
			w.hookNames = append(w.hookNames, names...)
			w.obsMu.Unlock()
		}
		rw.WriteHeader(200)
	}))
	if err := mgr.AddPcapProcessorWebhook(w.hook.URL); err != nil {
		c19Fatal(t, "AddPcapProcessorWebhook: %v", err)
	}
	// number of ImportPcaps calls: one pcapArrived event each
	w.evCh, w.evCloser = mgr.Listen()
	go w.c19EventPump()

	inner, err := net.Listen("tcp", "127.0.0.1:0")
	if err != nil {
		c19Fatal(t, "listen: %v", err)
	}
	w.ln = &c19Listener{Listener: inner, conns: map[string]*c19Conn{}}
	w.addr = inner.Addr().String()
	w.srv = &http.Server{Handler: setupRouter(mgr, nil, nil), ErrorLog: log.New(io.Discard, "", 0)}
	if os.Getenv("VERIF_C19_DEBUG") != "" {
		w.srv.ErrorLog = log.New(os.Stderr, "server: ", 0)
	}
	go w.srv.Serve(w.ln)
	w.quiesce()
	w.snap = w.snapshot()
	return w
}

func (w *c19World) c19EventPump() {
	defer close(w.pumpDone)
	for {
		select {
		case e, ok := <-w.evCh:
			if !ok {
				w.evCh = nil
				continue
			}
			w.obsMu.Lock()
			w.events[e.Type]++
			w.obsMu.Unlock()
		case ack := <-w.flush:
			ack <- struct{}{}
		case <-w.done:
			return
		}
	}
}

// close tears the world down.  A tainted world (a request damaged files the manager relies on,
// which can keep its importer retrying for ever) is not drained first.
func (w *c19World) close(tainted bool) {
	if !tainted {
		w.quiesce()
	}
	w.evCloser()
	close(w.done)
	<-w.pumpDone
	w.mgr.Close()
	w.srv.Close()
	w.hook.Close()
	if err := os.RemoveAll(w.scratch); err != nil {
		c19Fatal(w.t, "cleanup: %v", err)
	}
	delete(c19Scratch, w.scratch)
}

// quiesce waits until the manager has no queued import and no background job, and until every
// event and webhook call it has produced has been delivered to the harness.  The second part is a
// barrier, not a timeout: at manager quiescence no new sender goroutine can appear, and a
// stop-the-world goroutine dump that shows no goroutine created by (*Manager).event and none created
// by or running triggerPcapProcessedWebhook(s) (a goroutine that has not started yet still carries
// its "created by" line) proves that all of them have completed their delivery.
func (w *c19World) quiesce() {
	start := time.Now()
	for {
		st := w.mgr.Status()
		if st.ImportJobCount == 0 && !st.MergeJobRunning && !st.TaggingJobRunning && !st.ConverterJobRunning {
			break
		}
		if time.Since(start) > c19Watchdog {
			c19Fatal(w.t, "manager did not become idle within %v: %+v", c19Watchdog, st)
		}
		time.Sleep(100 * time.Microsecond)
	}
	if w.dumpBuf == nil {
		w.dumpBuf = make([]byte, 1<<20)
	}
	for {
		n := runtime.Stack(w.dumpBuf, true)
		if n == len(w.dumpBuf) {
			w.dumpBuf = make([]byte, 2*len(w.dumpBuf))
			continue
		}
		d := w.dumpBuf[:n]
		if !bytes.Contains(d, []byte(".(*Manager).event")) && !bytes.Contains(d, []byte("triggerPcapProcessedWebhook")) {
			break
		}
		if time.Since(start) > c19Watchdog {
			c19Fatal(w.t, "event/webhook deliveries did not finish within %v", c19Watchdog)
		}
		time.Sleep(100 * time.Microsecond)
	}
	ack := make(chan struct{})
	w.flush <- ack
	<-ack
}

func (w *c19World) takeObservations() (names []string, arrived int) {
	w.obsMu.Lock()
	defer w.obsMu.Unlock()
	names = w.hookNames
	arrived = w.events["pcapArrived"]
	w.hookNames = nil
	w.events = map[string]int{}
	sort.Strings(names)
	return
}

// ---------------------------------------------------------------------------------------------
// request bodies: a valid one-packet capture that is unique per serial number

func c19Pcap(serial int, note string) []byte {
	le := binary.LittleEndian
	payload := []byte(fmt.Sprintf("verif-c19 #%d %s", serial, note))
	ipLen := 20 + 8 + len(payload)
	pkt := make([]byte, 14+ipLen)
	copy(pkt[0:], []byte{2, 0, 0, 0, 0, 1, 2, 0, 0, 0, 0, 2, 0x08, 0x00})
	ip := pkt[14:]
	ip[0], ip[8], ip[9] = 0x45, 64, 17
	binary.BigEndian.PutUint16(ip[2:], uint16(ipLen))
	binary.BigEndian.PutUint16(ip[4:], uint16(serial))
	copy(ip[12:], []byte{10, 0, 0, 1, 10, 0, 0, 2})
	sum := uint32(0)
	for i := 0; i < 20; i += 2 {
		sum += uint32(binary.BigEndian.Uint16(ip[i:]))
	}
	for sum>>16 != 0 {
		sum = sum&0xffff + sum>>16
	}
	binary.BigEndian.PutUint16(ip[10:], ^uint16(sum))
	udp := ip[20:]
	binary.BigEndian.PutUint16(udp[0:], uint16(1024+serial%60000))
	binary.BigEndian.PutUint16(udp[2:], 53)
	binary.BigEndian.PutUint16(udp[4:], uint16(8+len(payload)))
	copy(udp[8:], payload)
	out := make([]byte, 24+16, 24+16+len(pkt))
	le.PutUint32(out[0:], 0xa1b2c3d4)
	le.PutUint16(out[4:], 2)
	le.PutUint16(out[6:], 4)
	le.PutUint32(out[16:], 65535)
	le.PutUint32(out[20:], 1)
	le.PutUint32(out[24:], uint32(1600000000+serial))
	le.PutUint32(out[32:], uint32(len(pkt)))
	le.PutUint32(out[36:], uint32(len(pkt)))
	return append(out, pkt...)
}

func c19Body(serial int, garbage bool) (body []byte, valid bool) {
	if garbage {
		return []byte(fmt.Sprintf("this is not a capture file, request #%d\n", serial)), false
	}
	return c19Pcap(serial, ""), true
}

// ---------------------------------------------------------------------------------------------
// raw HTTP client

type c19Resp struct {
	Status int // 0: connection closed without a response
	Body   []byte
	Hang   string
}

func c19Raw(method, path string, bodyLen int) []byte {
	if method == "POST" {
		return []byte(fmt.Sprintf("POST %s HTTP/1.1\r\nHost: c19\r\nConnection: close\r\nContent-Type: application/octet-stream\r\nContent-Length: %d\r\n\r\n", path, bodyLen))
	}
	return []byte(fmt.Sprintf("%s %s HTTP/1.1\r\nHost: c19\r\nConnection: close\r\n\r\n", method, path))
}

// c19ReadResp may run on a helper goroutine: a hang is returned in Hang and turned into a
// harness error by the test goroutine.  A reply net/http's client parser rejects (the file server
// can emit a Location header with a NUL byte) is still decoded by hand: status line and raw body.
func c19ReadResp(conn net.Conn, what string) c19Resp {
	conn.SetReadDeadline(time.Now().Add(c19Watchdog))
	var raw bytes.Buffer
	debug := os.Getenv("VERIF_C19_DEBUG") != ""
	if debug {
		defer func() { fmt.Fprintf(os.Stderr, "%s\n  raw response: %q\n", what, raw.Bytes()) }()
	}
	isTimeout := func(err error) bool {
		ne, ok := err.(net.Error)
		return ok && ne.Timeout()
	}
	resp, err := http.ReadResponse(bufio.NewReader(io.TeeReader(conn, &raw)), nil)
	if err != nil {
		if isTimeout(err) {
			return c19Resp{Hang: fmt.Sprintf("no response within %v for %s", c19Watchdog, what)}
		}
		if _, err := io.Copy(&raw, conn); err != nil && isTimeout(err) {
			return c19Resp{Hang: fmt.Sprintf("connection neither answered nor closed within %v for %s", c19Watchdog, what)}
		}
		b := raw.Bytes()
		if len(b) >= 12 && bytes.HasPrefix(b, []byte("HTTP/1.")) {
			if code, err := strconv.Atoi(string(b[9:12])); err == nil {
				_, body, _ := bytes.Cut(b, []byte("\r\n\r\n"))
				return c19Resp{Status: code, Body: append([]byte{}, body...)}
			}
		}
		return c19Resp{}
	}
	body, err := io.ReadAll(resp.Body)
	resp.Body.Close()
	if isTimeout(err) {
		return c19Resp{Hang: fmt.Sprintf("response body not complete within %v for %s", c19Watchdog, what)}
	}
	return c19Resp{Status: resp.StatusCode, Body: body}
}

func (w *c19World) do(head, body []byte, what string) c19Resp {
	conn, err := net.Dial("tcp", w.addr)
	if err != nil {
		c19Fatal(w.t, "dial: %v", err)
	}
	defer conn.Close()
	conn.SetWriteDeadline(time.Now().Add(c19Watchdog))
	conn.Write(append(append([]byte{}, head...), body...)) // an early error reply may reset the write; the reply still counts
	resp := c19ReadResp(conn, what)
	if resp.Hang != "" {
		c19Fatal(w.t, "%s", resp.Hang)
	}
	return resp
}

// ---------------------------------------------------------------------------------------------
// enumeration of request targets

func c19Long() string { return strings.Repeat("L", c19LongLen-5) + ".pcap" }

func c19Tokens() []string {
	return []string{"a.pcap", "a.pcapng", ".pcap", "..", ".", "%2e%2e", "%2f", "%5c", `\`, "", "/", "sub", "%00",
		"x.pcap.", "x.pcap%20", "etc", c19Long(), "exists.pcap", "canary.pcap"}
}

// every sequence of 1..maxLen tokens, joined with "/" (path segments) and joined with "" (so that
// encoded separators and dot segments end up inside one segment), de-duplicated, in a fixed order;
// followed by absolute-looking targets ({BASE} is replaced by the scratch base directory).
func c19Targets(maxLen int) []string {
	toks := c19Tokens()
	seen := map[string]bool{}
	var out []string
	add := func(s string) {
		if !seen[s] {
			seen[s] = true
			out = append(out, s)
		}
	}
	idx := make([]int, 0, maxLen)
	var rec func(n int)
	rec = func(n int) {
		if len(idx) == n {
			parts := make([]string, n)
			for i, k := range idx {
				parts[i] = toks[k]
			}
			add(strings.Join(parts, "/"))
			add(strings.Join(parts, ""))
			return
		}
		for k := range toks {
			idx = append(idx, k)
			rec(n)
			idx = idx[:len(idx)-1]
		}
	}
	for n := 1; n <= maxLen; n++ {
		rec(n)
	}
	for _, s := range []string{
		"/etc/passwd.pcap", "%2fetc%2fpasswd.pcap", "/{BASE}/other/abs.pcap", "%2f{BASE%2f}%2fother%2fabs.pcap",
		"/{BASE}/canary.pcap", "%2f{BASE%2f}%2fcanary.pcap", "/{BASE}/pcap/exists.pcap",
		"..%2f..%2f..%2f..%2fdeep.pcap", "%2e%2e%2f%2e%2e%2fcanary.pcap", "..%2f..%2f..%2f..%2f..%2f..%2f..%2f..%2f..%2f..%2f{BASE%2f}%2fother%2fabs.pcap",
		"../../../../deep.pcap", `..\..\canary.pcap`, `..%5c..%5ccanary.pcap`, "exists.pcap/", "exists.pcap%2f", "exists.pcap%2f.", "./exists.pcap", "%2e/exists.pcap",
		"dangling.pcap", "dir.pcap", "dir.pcap/", "dir.pcap%2fx.pcap",
		"exists.pcap?x=1", "a.pcap?x=.pcap", "a.pcap;x.pcap", "a.pcap#x.pcap", "a%2epcap", "exists%2epcap", "%65xists.pcap", "EXISTS.PCAP", "exists.pcap%00.pcap",
	} {
		add(s)
	}
	return out
}

func c19Nontrivial(target string) bool {
	for _, m := range []string{"..", "%2e", "%2f", "%5c", `\`, "//", "%00", "exists.pcap", "canary.pcap", "{BASE", "dangling.pcap", "dir.pcap"} {
		if strings.Contains(target, m) {
			return true
		}
	}
	return false
}

func c19Abbrev(s string) string {
	return strings.ReplaceAll(s, c19Long(), fmt.Sprintf("<L*%d>.pcap", c19LongLen-5))
}

func (w *c19World) expand(target string) string {
	b := strings.TrimPrefix(w.base, "/")
	target = strings.ReplaceAll(target, "{BASE%2f}", strings.ReplaceAll(b, "/", "%2f"))
	return strings.ReplaceAll(target, "{BASE}", b)
}

// ---------------------------------------------------------------------------------------------
// the sequential part

type c19Run struct {
	t        *testing.T
	res      *c19Result
	digests  map[string]bool
	distinct map[string]bool
	samples  map[string]string
	deadline time.Time
	tainted  bool // the current world saw a file-tree violation and is not used any further
}

func (r *c19Run) report(sym, key, msg string, replay map[string]any) {
	r.res.ViolationCounts[sym]++
	if strings.HasPrefix(sym, "fs.") {
		r.tainted = true
	}
	if r.res.ViolationCounts[sym] > 300 {
		return
	}
	r.res.Violations = append(r.res.Violations, c19Violation{Symptom: sym, Key: key, Msg: msg, Replay: replay})
}

func c19Show(b []byte) string {
	if len(b) > 120 {
		return fmt.Sprintf("%q… (%d bytes)", b[:120], len(b))
	}
	return fmt.Sprintf("%q", b)
}

// external probe: locations outside the scratch tree a careless join could reach
func (w *c19World) probes(target string) []string {
	var out []string
	add := func(p string) {
		if p != w.scratch && !strings.HasPrefix(p, w.scratch+"/") && p != "/" {
			out = append(out, p)
		}
	}
	pcapAbs := filepath.Join(w.base, "pcap")
	forms := []string{target}
	if d, err := url.PathUnescape(target); err == nil && d != target {
		forms = append(forms, d)
	}
	for _, f := range forms {
		if strings.ContainsRune(f, 0) {
			continue
		}
		add(filepath.Join(pcapAbs, f))
		add(filepath.Clean("/" + f))
		add(filepath.Join(pcapAbs, strings.ReplaceAll(f, `\`, "/")))
	}
	return out
}

// fsCheck judges the difference of two tree snapshots: the only change a request may cause
// outside the manager's own directories is a new regular file directly inside the capture
// directory (returned in created).
func (r *c19Run) fsCheck(w *c19World, pre, post c19Snap, d c19Diff, key, line string, status int, replay map[string]any) (created []string) {
	resp := struct{ Status int }{status}
	pcapPrefix := w.pcapRel + "/"
	for _, p := range d.added {
		f := post[p]
		switch {
		case !strings.HasPrefix(p, pcapPrefix):
			r.report("fs.outside-write", key, fmt.Sprintf("%s (status %d) created %s outside the capture directory %s", line, resp.Status, p, w.pcapRel), replay)
		case f.Kind == 'f':
			created = append(created, p) // a regular file inside the capture directory
		}
	}
	for _, p := range append(append([]string{}, d.modified...), d.removed...) {
		what := "modified"
		if _, ok := post[p]; !ok {
			what = "removed"
		}
		if strings.HasPrefix(p, pcapPrefix) {
			r.report("fs.existing-overwritten", key, fmt.Sprintf("%s (status %d) %s the existing capture %s (was %s)", line, resp.Status, what, p, c19Show(pre[p].Data)), replay)
		} else {
			r.report("fs.outside-write", key, fmt.Sprintf("%s (status %d) %s %s outside the capture directory", line, resp.Status, what, p), replay)
		}
	}
	return created
}

func (r *c19Run) group(w *c19World, worldIdx, groupIdx int, spec string) {
	cur := struct {
		key, line string
		replay    map[string]any
	}{}
	defer func() {
		if a := recover(); a != nil {
			ab, ok := a.(c19Abort)
			if ok && !r.tainted && cur.key != "" {
				// e.g. the manager never drained: judge the tree as it is now
				post := w.snapshot()
				r.fsCheck(w, w.snap, post, w.diff(w.snap, post), cur.key, cur.line, -1, cur.replay)
			}
			if ok && r.tainted {
				// consequence of the damage reported for this world, not a harness problem
				r.res.Notes = append(r.res.Notes, "after a file-tree violation: "+ab.msg)
				return
			}
			panic(a)
		}
	}()
	target := w.expand(spec)
	var lines []string
	for step, method := range []string{"GET", "POST", "GET", "POST"} {
		serial := (groupIdx*4+step)%60000 + 1
		prefix := "/api/download/pcap/"
		var body []byte
		valid := false
		if method == "POST" {
			prefix = "/upload/"
			// every fourth group uploads something that is not a capture (first or second upload)
			body, valid = c19Body(serial, (groupIdx%4 == 1 && step == 1) || (groupIdx%4 == 2 && step == 3))
			if groupIdx%8 == 7 && step == 1 {
				// every eighth group: the first upload has an empty body (a stored file of size 0 is a stored
				// file: the second upload of the name must be refused like any other)
				body, valid = []byte{}, false
			}
		}
		head := c19Raw(method, prefix+target, len(body))
		line := fmt.Sprintf("%s %s%s", method, prefix, c19Abbrev(spec))
		lines = append(lines, line)
		key := fmt.Sprintf("%s#%d %s%s", method, step/2+1, prefix, c19Abbrev(spec))
		replay := map[string]any{"kind": "sequential", "target": spec, "step": step, "group_requests": append([]string{}, lines...),
			"world": worldIdx, "run": "VERIF_C19_ONLY=<target> VERIF_C19_OUT=/tmp/c19.json /verif/bin/c19.test -test.run '^TestVerifC19$'"}

		cur.key, cur.line, cur.replay = key, line, replay
		pre := w.snap
		probes := w.probes(target)
		probeBefore := map[string]bool{}
		for _, p := range probes {
			_, err := os.Lstat(p)
			probeBefore[p] = err == nil
		}
		resp := w.do(head, body, line)
		w.quiesce()
		post := w.snapshot()
		w.snap = post
		names, arrived := w.takeObservations()
		d := w.diff(pre, post)
		ok2xx := resp.Status >= 200 && resp.Status <= 299

		r.res.Requests++
		r.digests[w.digest(post)] = true
		if !r.distinct[line] {
			r.distinct[line] = true
			r.res.DistinctReqs++
			if c19Nontrivial(spec) {
				r.res.Nontrivial++
			}
		}

		// --- file tree
		for _, p := range probes {
			if _, err := os.Lstat(p); err == nil && !probeBefore[p] {
				r.report("fs.outside-write", key, fmt.Sprintf("%s (status %d) created %s, outside the capture directory and outside the scratch tree", line, resp.Status, p), replay)
				if b, err := os.ReadFile(p); err == nil && bytes.Equal(b, body) {
					os.Remove(p)
				}
			}
		}
		pcapPrefix := w.pcapRel + "/"
		created := r.fsCheck(w, pre, post, d, key, line, resp.Status, replay)
		// --- responses never carry bytes of a file outside the capture directory
		if bytes.Contains(resp.Body, []byte(c19CanaryMark)) {
			r.report("download.outside-content", key, fmt.Sprintf("%s answered %d with the content of a file outside the capture directory: %s", line, resp.Status, c19Show(resp.Body)), replay)
		}
		effect := "-"
		if method == "GET" {
			if len(created) != 0 {
				r.report("download.created-file", key, fmt.Sprintf("%s (status %d) created %q", line, resp.Status, created), replay)
			}
			if ok2xx {
				r.res.Downloads2xx++
				effect = "served"
				match := false
				pathPart, _, _ := strings.Cut(target, "?")
				forms := []string{pathPart}
				if dec, err := url.PathUnescape(pathPart); err == nil {
					forms = append(forms, dec)
				}
				// the literal or the decoded name, resolved below the capture directory, must stay
				// inside it and name the regular file whose bytes were served
				for _, f := range forms {
					p := filepath.Join(w.pcapRel, f)
					if !strings.HasPrefix(p, pcapPrefix) {
						continue
					}
					if pf, ok := pre[p]; ok && pf.Kind == 'f' && bytes.Equal(pf.Data, resp.Body) {
						match = true
					}
				}
				if !match && c19IsWebAsset(prefix+pathPart, resp.Body) {
					// not a download at all: the request fell through to the embedded web UI
					// (compiled into the binary, nothing is read from disk)
					match, effect = true, "webui"
				}
				if !match && !bytes.Contains(resp.Body, []byte(c19CanaryMark)) {
					r.report("download.wrong-content", key, fmt.Sprintf("%s answered %d with %s, which is not the content of a file of that name inside %s", line, resp.Status, c19Show(resp.Body), w.pcapRel), replay)
				}
			}
			if len(names) != 0 || arrived != 0 {
				r.report("import.unexpected", key, fmt.Sprintf("%s (status %d) queued %q for import (%d ImportPcaps calls)", line, resp.Status, names, arrived), replay)
			}
		} else {
			if len(created) > 1 {
				r.report("upload.stored-mismatch", key, fmt.Sprintf("%s created %d files: %q", line, len(created), created), replay)
			}
			if ok2xx {
				r.res.Uploads2xx++
				if valid {
					r.res.ValidUploads2xx++
				}
				effect = "stored"
				switch {
				case len(created) == 0:
					if len(d.modified) == 0 {
						r.report("upload.stored-mismatch", key, fmt.Sprintf("%s answered %d but no new capture file exists in %s", line, resp.Status, w.pcapRel), replay)
					}
					effect = "nothing-new"
				case !bytes.Equal(post[created[0]].Data, body):
					r.report("upload.stored-mismatch", key, fmt.Sprintf("%s answered %d but %s holds %s instead of the request body %s", line, resp.Status, created[0], c19Show(post[created[0]].Data), c19Show(body)), replay)
				}
				var want []string
				if len(created) == 1 {
					want = []string{filepath.Join(w.scratch, created[0])}
				}
				if arrived != 1 || len(names) != 1 || (len(want) == 1 && names[0] != want[0]) {
					r.report("import.not-exactly-once", key, fmt.Sprintf("%s answered %d; expected the stored capture to be queued for import exactly once, observed %d ImportPcaps calls and processed queue entries %q", line, resp.Status, arrived, c19Rel(w, names)), replay)
				}
				if valid && len(created) == 1 && !r.tainted {
					r.streamDownloads(w, filepath.Base(created[0]), body, key, line, replay)
				}
			} else {
				if len(created) != 0 {
					effect = "left-file"
				}
				if len(names) != 0 || arrived != 0 {
					r.report("import.unexpected", key, fmt.Sprintf("%s failed with status %d but queued %q for import (%d ImportPcaps calls)", line, resp.Status, c19Rel(w, names), arrived), replay)
				}
			}
		}
		r.res.QueuedNames += len(names)
		r.res.ArrivedEvents += arrived
		oc := fmt.Sprintf("%s %d %s", method, resp.Status, effect)
		r.res.Outcomes[oc]++
		if _, ok := r.samples[oc]; !ok {
			r.samples[oc] = fmt.Sprintf("%s -> %d [%s]", line, resp.Status, effect)
		}
		if r.tainted {
			return
		}
	}
}

// streamDownloads asks for the packets of every stream that the capture just stored under name produced
// (GET /api/download/<id>.pcap).  That route opens the capture files the index names - the names uploads were stored
// under - so it is a second way from a request path to a file name.  The answer must be the uploaded packet and
// nothing from outside the capture directory, and the request must not change the tree.
func (r *c19Run) streamDownloads(w *c19World, name string, uploaded []byte, key, line string, replay map[string]any) {
	var ids []uint64
	v := w.mgr.GetView()
	err := v.AllStreams(context.Background(), func(sc manager.StreamContext) error {
		pk, err := sc.Stream().Packets()
		if err != nil {
			return err
		}
		for _, p := range pk {
			if p.PcapFilename == name {
				ids = append(ids, sc.Stream().ID())
				break
			}
		}
		return nil
	})
	v.Release()
	if err != nil {
		r.report("streamdownload.unreadable", key, fmt.Sprintf("after %s: enumerating the streams failed: %v", line, err), replay)
		return
	}
	frame := uploaded[24+16:]
	for _, id := range ids {
		pre := w.snap
		dl := fmt.Sprintf("GET /api/download/%d.pcap", id)
		resp := w.do(c19Raw("GET", fmt.Sprintf("/api/download/%d.pcap", id), 0), nil, dl)
		w.quiesce()
		post := w.snapshot()
		w.snap = post
		r.res.Requests++
		r.res.StreamDownloads++
		k := key + " then " + dl
		if created := r.fsCheck(w, pre, post, w.diff(pre, post), k, dl, resp.Status, replay); len(created) != 0 {
			r.report("download.created-file", k, fmt.Sprintf("%s (status %d) created %q", dl, resp.Status, created), replay)
		}
		if bytes.Contains(resp.Body, []byte(c19CanaryMark)) {
			r.report("download.outside-content", k, fmt.Sprintf("after %s: %s (the stream of the capture stored as %q) answered %d with the content of a file outside the capture directory: %s", line, dl, name, resp.Status, c19Show(resp.Body)), replay)
			continue
		}
		if resp.Status >= 200 && resp.Status <= 299 {
			r.res.StreamDown2xx++
			if !bytes.Contains(resp.Body, frame) {
				r.report("streamdownload.wrong-content", k, fmt.Sprintf("after %s: %s answered %d with %s, which does not hold the uploaded packet", line, dl, resp.Status, c19Show(resp.Body)), replay)
			}
		}
		if names, arrived := w.takeObservations(); len(names) != 0 || arrived != 0 {
			r.report("import.unexpected", k, fmt.Sprintf("%s (status %d) queued %q for import (%d ImportPcaps calls)", dl, resp.Status, names, arrived), replay)
		}
	}
}

// c19IsWebAsset reports whether body is what the embedded single-page web UI (package web, an
// embed.FS with a fallback to index.html) holds for the request path.
func c19IsWebAsset(rawPath string, body []byte) bool {
	names := []string{"index.html"}
	if dec, err := url.PathUnescape(rawPath); err == nil && !strings.ContainsRune(dec, 0) {
		names = append(names, strings.TrimPrefix(filepath.Clean("/"+dec), "/"))
	}
	for _, n := range names {
		f, err := (&web.FS{}).Open(n)
		if err != nil {
			continue
		}
		b, err := io.ReadAll(f)
		f.Close()
		if err == nil && bytes.Equal(b, body) {
			return true
		}
	}
	return false
}

func c19Rel(w *c19World, names []string) []string {
	out := make([]string, len(names))
	for i, n := range names {
		out[i] = strings.TrimPrefix(n, w.scratch+"/")
	}
	return out
}

// ---------------------------------------------------------------------------------------------
// the concurrent part: explicit enumeration of the interleavings of request steps

type c19Req struct {
	name   string // A, B, D
	method string
	head   []byte
	chunks [][]byte
	body   []byte
	abort  bool // last step closes the connection instead of sending the last chunk

	conn    net.Conn
	sent    int64
	next    int
	done    chan struct{}
	resp    c19Resp
	aborted bool
}

type c19Step struct {
	req  int
	kind string // open, send, abort, whole
}

func c19Split(b []byte, n int) [][]byte {
	var out [][]byte
	for i := 0; i < n; i++ {
		out = append(out, b[len(b)*i/n:len(b)*(i+1)/n])
	}
	return out
}

// all merges of the step lists that keep each list's order
func c19Merges(lists [][]c19Step) [][]c19Step {
	var out [][]c19Step
	pos := make([]int, len(lists))
	var cur []c19Step
	var rec func()
	rec = func() {
		done := true
		for i, l := range lists {
			if pos[i] < len(l) {
				done = false
				cur = append(cur, l[pos[i]])
				pos[i]++
				rec()
				pos[i]--
				cur = cur[:len(cur)-1]
			}
		}
		if done {
			out = append(out, append([]c19Step{}, cur...))
		}
	}
	rec()
	return out
}

type c19Trace struct {
	// headersFirst: the first step of an upload sends the request head only; the server has accepted the
	// request (and created the file) while not a single body byte has arrived
	headersFirst bool
	kind         string
	reqs  []string // descriptions: "upload", "upload-abort", "download"
	steps []c19Step
}

func c19Traces(chunks int) []c19Trace {
	stepsOf := func(req int, abort bool) []c19Step {
		s := []c19Step{{req, "open"}}
		for i := 1; i < chunks; i++ {
			s = append(s, c19Step{req, "send"})
		}
		if abort {
			s[len(s)-1] = c19Step{req, "abort"}
		}
		return s
	}
	var out []c19Trace
	for _, m := range c19Merges([][]c19Step{stepsOf(0, false), stepsOf(1, false)}) {
		out = append(out, c19Trace{false, "upload-upload", []string{"upload", "upload"}, m})
	}
	for _, m := range c19Merges([][]c19Step{stepsOf(0, true), stepsOf(1, false)}) {
		out = append(out, c19Trace{false, "abort-upload", []string{"upload-abort", "upload"}, m})
	}
	for _, m := range c19Merges([][]c19Step{stepsOf(0, false), {{1, "whole"}}}) {
		out = append(out, c19Trace{false, "upload-download", []string{"upload", "download"}, m})
	}
	for _, m := range c19Merges([][]c19Step{stepsOf(0, false), {{1, "whole"}}, {{2, "whole"}}}) {
		out = append(out, c19Trace{false, "upload-dup-download", []string{"upload", "upload-whole", "download"}, m})
	}
	for _, m := range c19Merges([][]c19Step{stepsOf(0, false), stepsOf(1, false)}) {
		out = append(out, c19Trace{true, "upload-upload (request head first)", []string{"upload", "upload"}, m})
	}
	for _, m := range c19Merges([][]c19Step{stepsOf(0, false), {{1, "whole"}}, {{2, "whole"}}}) {
		out = append(out, c19Trace{true, "upload-dup-download (request head first)", []string{"upload", "upload-whole", "download"}, m})
	}
	return out
}

func (tr c19Trace) String() string {
	var s []string
	for _, st := range tr.steps {
		s = append(s, fmt.Sprintf("%c:%s", 'A'+st.req, st.kind))
	}
	return tr.kind + " " + strings.Join(s, " ")
}

func (w *c19World) waitStable(q *c19Req, what string) {
	start := time.Now()
	local := q.conn.LocalAddr().String()
	for {
		if !q.aborted {
			select {
			case <-q.done:
				return
			default:
			}
		}
		if sc := w.ln.lookup(local); sc != nil {
			consumed, pending, closed := sc.state()
			if q.aborted {
				// the server has seen the broken connection and finished with it
				if closed {
					return
				}
			} else if q.next < len(q.chunks) && consumed == q.sent && pending {
				// everything sent so far has been taken and the server waits for more
				return
			}
		}
		if time.Since(start) > c19Watchdog {
			c19Fatal(w.t, "trace step %s did not reach a stable state within %v", what, c19Watchdog)
		}
		time.Sleep(50 * time.Microsecond)
	}
}

func (r *c19Run) trace(traceIdx int, tr c19Trace, chunks int) {
	w := c19NewWorld(r.t)
	r.tainted = false
	raceBefore := r.res.ViolationCounts["race.two-winners"] + r.res.ViolationCounts["race.stored-mismatch"]
	defer func() {
		a := recover()
		if ab, ok := a.(c19Abort); ok && r.tainted {
			r.res.Notes = append(r.res.Notes, "after a file-tree violation: "+ab.msg)
			a = nil
		}
		if a != nil {
			panic(a)
		}
		w.close(r.tainted)
	}()
	r.res.Worlds++
	const name = "race.pcap"
	reqs := make([]*c19Req, len(tr.reqs))
	for i, kind := range tr.reqs {
		q := &c19Req{name: string(rune('A' + i)), done: make(chan struct{})}
		switch kind {
		case "upload", "upload-abort", "upload-whole":
			q.method = "POST"
			q.body = c19Pcap(100+i, strings.Repeat(q.name, 40*(i+1)))
			q.head = c19Raw("POST", "/upload/"+name, len(q.body))
			q.chunks = c19Split(q.body, chunks)
			if tr.headersFirst && chunks > 1 {
				q.chunks = append([][]byte{nil}, c19Split(q.body, chunks-1)...)
			}
			q.abort = kind == "upload-abort"
			if kind == "upload-whole" {
				q.chunks = [][]byte{q.body}
			}
		case "download":
			q.method = "GET"
			q.head = c19Raw("GET", "/api/download/pcap/"+name, 0)
			q.chunks = [][]byte{nil}
		}
		reqs[i] = q
	}
	pre := w.snap
	for si, st := range tr.steps {
		q := reqs[st.req]
		what := fmt.Sprintf("%s step %d", tr, si)
		switch st.kind {
		case "open", "whole":
			conn, err := net.Dial("tcp", w.addr)
			if err != nil {
				c19Fatal(r.t, "dial: %v", err)
			}
			q.conn = conn
			buf := append(append([]byte{}, q.head...), q.chunks[0]...)
			conn.SetWriteDeadline(time.Now().Add(c19Watchdog))
			conn.Write(buf)
			q.sent, q.next = int64(len(buf)), 1
			go func() {
				q.resp = c19ReadResp(conn, what)
				close(q.done)
			}()
		case "send":
			c := q.chunks[q.next]
			q.conn.Write(c) // fails harmlessly when the server has already answered and closed
			q.sent += int64(len(c))
			q.next++
		case "abort":
			q.aborted = true
			q.conn.Close()
		}
		if q.next == len(q.chunks) && !q.aborted {
			// complete request: the only stable state is "answered"
			select {
			case <-q.done:
			case <-time.After(c19Watchdog):
				c19Fatal(r.t, "%s: no answer within %v", what, c19Watchdog)
			}
		} else {
			w.waitStable(q, what)
		}
		r.res.TraceSteps++
	}
	for _, q := range reqs {
		select {
		case <-q.done:
		case <-time.After(c19Watchdog):
			c19Fatal(r.t, "%s: request %s never completed", tr, q.name)
		}
		if q.resp.Hang != "" {
			c19Fatal(r.t, "%s: %s", tr, q.resp.Hang)
		}
		q.conn.Close()
	}
	r.res.Requests += len(reqs)
	r.res.Traces++
	// the file tree is judged first: if the requests damaged it the manager may never drain
	post := w.snapshot()
	d := w.diff(pre, post)
	r.digests[w.digest(post)] = true

	key := tr.String()
	var statuses []string
	for _, q := range reqs {
		statuses = append(statuses, fmt.Sprintf("%s=%d", q.name, q.resp.Status))
	}
	replay := map[string]any{"kind": "interleaving", "trace": key, "trace_index": traceIdx, "chunks": chunks, "statuses": statuses,
		"run": fmt.Sprintf("VERIF_C19_TIER=%s VERIF_C19_TRACE=%d VERIF_C19_OUT=/tmp/c19.json /verif/bin/c19.test -test.run '^TestVerifC19$'", r.res.Tier, traceIdx)}
	stored := w.pcapRel + "/" + name
	var winners []*c19Req
	uploads, aborts := 0, 0
	for _, q := range reqs {
		if q.method == "POST" {
			uploads++
			if q.abort {
				aborts++
			}
			if q.resp.Status >= 200 && q.resp.Status <= 299 {
				winners = append(winners, q)
			}
		}
		if bytes.Contains(q.resp.Body, []byte(c19CanaryMark)) {
			r.report("download.outside-content", key, fmt.Sprintf("%s: request %s answered with content from outside the capture directory", key, q.name), replay)
		}
	}
	for _, p := range d.added {
		if p != stored {
			r.report("fs.outside-write", key, fmt.Sprintf("%s %v created %s", key, statuses, p), replay)
		}
	}
	for _, p := range append(append([]string{}, d.modified...), d.removed...) {
		r.report("fs.outside-write", key, fmt.Sprintf("%s %v changed %s", key, statuses, p), replay)
	}
	f, exists := post[stored]
	switch {
	case len(winners) > 1:
		r.report("race.two-winners", key, fmt.Sprintf("%s: both uploads of %s were accepted %v; stored: %s", key, name, statuses, c19Show(f.Data)), replay)
	case len(winners) == 0 && uploads >= 2 && aborts == 0:
		r.report("race.no-winner", key, fmt.Sprintf("%s: neither upload of the new name %s was accepted %v", key, name, statuses), replay)
	}
	if len(winners) == 0 && exists {
		// what the upload endpoint leaves in the capture directory is there because an upload was accepted
		// (and queued): a file of that name after only refused or aborted uploads blocks the name for good
		// and is served by the download endpoint without ever having been queued
		r.report("upload.leftover-file", key, fmt.Sprintf("%s %v: no upload of %s was accepted, yet the capture directory holds a file of that name afterwards (%d bytes: %s)", key, statuses, name, len(f.Data), c19Show(f.Data)), replay)
	}
	if len(winners) >= 1 {
		match := false
		for _, q := range winners {
			if exists && bytes.Equal(f.Data, q.body) {
				match = true
			}
		}
		if !match || len(winners) > 1 {
			r.report("race.stored-mismatch", key, fmt.Sprintf("%s %v: the stored capture (%s) is not the body of the one accepted upload", key, statuses, c19Show(f.Data)), replay)
		}
	}
	// the file tree and the answers are judged; if they are wrong, do not insist on the manager draining
	r.tainted = r.tainted || r.res.ViolationCounts["race.two-winners"]+r.res.ViolationCounts["race.stored-mismatch"] > raceBefore
	w.quiesce()
	names, arrived := w.takeObservations()
	if len(winners) >= 1 {
		if arrived != 1 || len(names) != 1 || names[0] != filepath.Join(w.scratch, stored) {
			r.report("import.not-exactly-once", key, fmt.Sprintf("%s %v: expected %s queued exactly once, observed %d ImportPcaps calls and processed queue entries %q", key, statuses, name, arrived, c19Rel(w, names)), replay)
		}
	} else if arrived != 0 || len(names) != 0 {
		r.report("import.unexpected", key, fmt.Sprintf("%s %v: nothing was accepted but %q was queued (%d ImportPcaps calls)", key, statuses, c19Rel(w, names), arrived), replay)
	}
	// a download racing with the upload sees an error or a prefix of an uploaded body
	for _, q := range reqs {
		if q.method != "GET" || q.resp.Status < 200 || q.resp.Status > 299 {
			continue
		}
		ok := false
		for _, u := range reqs {
			if u.method == "POST" && bytes.HasPrefix(u.body, q.resp.Body) {
				ok = true
			}
		}
		if !ok {
			r.report("download.wrong-content", key, fmt.Sprintf("%s %v: download returned %s which is not a prefix of any body uploaded under that name", key, statuses, c19Show(q.resp.Body)), replay)
		}
	}
	fileState := "absent"
	if exists {
		fileState = "other"
		for _, q := range reqs {
			if q.method == "POST" && bytes.Equal(f.Data, q.body) {
				fileState = "body-" + q.name
			}
		}
	}
	oc := fmt.Sprintf("%s %v file=%s queued=%d", tr.kind, statuses, fileState, len(names))
	r.res.TraceOutcomes[oc]++
	r.res.QueuedNames += len(names)
	r.res.ArrivedEvents += arrived
	if traceIdx%7 == 0 {
		r.res.Samples = append(r.res.Samples, fmt.Sprintf("trace %s -> %v file=%s queued=%d", key, statuses, fileState, len(names)))
	}
}

// ---------------------------------------------------------------------------------------------

func TestVerifC19(t *testing.T) {
	out := os.Getenv("VERIF_C19_OUT")
	if out == "" {
		t.Skip("VERIF_C19_OUT not set")
	}
	log.SetOutput(io.Discard)
	tier := os.Getenv("VERIF_C19_TIER")
	shard, shards := 0, 1
	if s := os.Getenv("VERIF_C19_SHARD"); s != "" {
		if _, err := fmt.Sscanf(s, "%d/%d", &shard, &shards); err != nil || shards < 1 || shard < 0 || shard >= shards {
			t.Fatalf("C19 harness error: bad VERIF_C19_SHARD %q", s)
		}
	}
	maxLen, chunks := 3, 2
	if tier == "thorough" {
		maxLen, chunks = 4, 3
	}
	res := &c19Result{Tier: tier, Shard: shard, Shards: shards, Complete: true, Outcomes: map[string]int{}, TraceOutcomes: map[string]int{}, ViolationCounts: map[string]int{}}
	r := &c19Run{t: t, res: res, digests: map[string]bool{}, distinct: map[string]bool{}, samples: map[string]string{}}
	if b, _ := strconv.Atoi(os.Getenv("VERIF_C19_BUDGET_S")); b > 0 {
		r.deadline = time.Now().Add(time.Duration(b) * time.Second)
	}
	expired := func() bool { return !r.deadline.IsZero() && time.Now().After(r.deadline) }
	finish := func() {
		for d := range r.digests {
			res.Digests = append(res.Digests, d)
		}
		sort.Strings(res.Digests)
		keys := make([]string, 0, len(r.samples))
		for k := range r.samples {
			keys = append(keys, k)
		}
		sort.Strings(keys)
		for _, k := range keys {
			res.Samples = append(res.Samples, r.samples[k])
		}
		b, err := json.Marshal(res)
		if err != nil {
			t.Fatalf("C19 harness error: %v", err)
		}
		if err := os.WriteFile(out, b, 0o644); err != nil {
			t.Fatalf("C19 harness error: %v", err)
		}
	}
	defer func() {
		if a := recover(); a != nil {
			ab, ok := a.(c19Abort)
			if !ok {
				panic(a)
			}
			res.Complete, res.HarnessError = false, ab.msg
			for d := range c19Scratch {
				os.RemoveAll(d)
			}
			finish()
			t.Fatalf("C19 harness error: %s", ab.msg)
		}
	}()

	targets := c19Targets(maxLen)
	traces := c19Traces(chunks)
	if only := os.Getenv("VERIF_C19_ONLY"); only != "" {
		targets, traces = []string{only}, nil
	}
	onlyTrace := -1
	if s := os.Getenv("VERIF_C19_TRACE"); s != "" {
		if n, err := strconv.Atoi(s); err == nil && n >= 0 && n < len(traces) {
			onlyTrace, targets = n, nil
		}
	}
	res.Targets, res.TracesTotal = len(targets), len(traces)

	// interleavings first: they are few and must not be starved by the deadline
	for i, tr := range traces {
		if i%shards != shard || (onlyTrace >= 0 && i != onlyTrace) {
			continue
		}
		if expired() {
			res.Complete = false
			break
		}
		r.trace(i, tr, chunks)
	}
	nWorlds := (len(targets) + c19GroupsPerWld - 1) / c19GroupsPerWld
	for wi := 0; wi < nWorlds; wi++ {
		if wi%shards != shard {
			continue
		}
		if expired() {
			res.Complete = false
			break
		}
		for gi, end := wi*c19GroupsPerWld, min((wi+1)*c19GroupsPerWld, len(targets)); gi < end; {
			w := c19NewWorld(t)
			res.Worlds++
			r.tainted = false
			r.digests[w.digest(w.snap)] = true
			for ; gi < end && !r.tainted; gi++ {
				r.group(w, wi, gi, targets[gi])
			}
			if !r.tainted {
				res.KnownPcaps += len(w.mgr.KnownPcaps())
			}
			w.close(r.tainted)
		}
	}
	finish()
}
