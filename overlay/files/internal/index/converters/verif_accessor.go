//go:build verif

package converters

// VerifStopProcesses ends the idle processes of the converter (what Reset does to the processes, without touching the
// cache).  The service never ends converter processes itself - they go away with the service process; a checker
// that runs thousands of service instances in one process has to end them, or it runs out of process ids.
func (cache *CachedConverter) VerifStopProcesses() {
	cache.converter.Reset()
}
