//go:build verif

package manager

import (
	"log"
	"os"
	"path/filepath"
	"sort"
	"strings"
	"time"

	"github.com/spq/pkappa2/internal/index/converters"

	"github.com/spq/pkappa2/internal/index"
	"github.com/spq/pkappa2/internal/tools/bitmask"
)

// Read-only accessors for the verification harness (mapped into the package by `go build -overlay`,
// never part of the repository).  Everything runs inside the service loop, so it is a consistent
// snapshot.

type (
	VerifTag struct {
		Name, Definition, Color        string
		Converters                     []string
		Matches, Uncertain             []uint
		ReferencedBy                   []string
		ReferencedTags                 []string
		MainFeatures, SubQueryFeatures uint8
	}
	VerifState struct {
		Tags                []VerifTag
		Indexes             []*index.Reader
		UsedIndexes         map[*index.Reader]uint
		NextStreamID        uint64
		AllStreams          []uint
		UpdatedDuring       []uint
		ResetDuring         []uint
		AddedDuring         []uint
		StreamsToConvert    map[string][]uint
		NUnmergeableIndexes int
		ImportJobs          []string
		MergeJobRunning     bool
		TaggingJobRunning   bool
		ConverterJobRunning bool
		StateFilename       string
		KnownPcaps          []string
		NStreamRecords      int
		ConverterNames      []string
		Converters          map[string]index.ConverterAccess
		ConverterCached     map[string][]uint
	}
)

func verifBits(b bitmask.LongBitmask) []uint {
	out := []uint{}
	for i := uint(0); b.Next(&i); i++ {
		out = append(out, i)
	}
	return out
}

func (mgr *Manager) VerifDump() VerifState {
	c := make(chan VerifState)
	mgr.jobs <- func() {
		s := VerifState{
			Indexes:             append([]*index.Reader(nil), mgr.indexes...),
			UsedIndexes:         map[*index.Reader]uint{},
			NextStreamID:        mgr.nextStreamID,
			AllStreams:          verifBits(mgr.allStreams),
			UpdatedDuring:       verifBits(mgr.updatedStreamsDuringTaggingJob),
			ResetDuring:         verifBits(mgr.resetStreamsDuringTaggingJob),
			AddedDuring:         verifBits(mgr.addedStreamsDuringTaggingJob),
			StreamsToConvert:    map[string][]uint{},
			NUnmergeableIndexes: mgr.nUnmergeableIndexes,
			ImportJobs:          append([]string(nil), mgr.importJobs...),
			MergeJobRunning:     mgr.mergeJobRunning,
			TaggingJobRunning:   mgr.taggingJobRunning,
			ConverterJobRunning: mgr.converterJobRunning,
			StateFilename:       mgr.stateFilename,
			NStreamRecords:      mgr.nStreamRecords,
			Converters:          map[string]index.ConverterAccess{},
			ConverterCached:     map[string][]uint{},
		}
		for r, n := range mgr.usedIndexes {
			s.UsedIndexes[r] = n
		}
		for n, b := range mgr.streamsToConvert {
			s.StreamsToConvert[n] = verifBits(*b)
		}
		for _, p := range mgr.builder.KnownPcaps() {
			s.KnownPcaps = append(s.KnownPcaps, p.Filename)
		}
		sort.Strings(s.KnownPcaps)
		for n, cv := range mgr.converters {
			s.ConverterNames = append(s.ConverterNames, n)
			s.Converters[n] = cv
			cached := []uint{}
			for id := uint64(0); id < mgr.nextStreamID; id++ {
				if cv.Contains(id) {
					cached = append(cached, uint(id))
				}
			}
			s.ConverterCached[n] = cached
		}
		sort.Strings(s.ConverterNames)
		for n, t := range mgr.tags {
			vt := VerifTag{
				Name: n, Definition: t.definition, Color: t.color, Converters: t.converterNames(),
				Matches: verifBits(t.Matches), Uncertain: verifBits(t.Uncertain),
				ReferencedTags: t.referencedTags(),
				MainFeatures:   uint8(t.features.MainFeatures), SubQueryFeatures: uint8(t.features.SubQueryFeatures),
			}
			for r := range t.referencedBy {
				vt.ReferencedBy = append(vt.ReferencedBy, r)
			}
			sort.Strings(vt.ReferencedBy)
			sort.Strings(vt.ReferencedTags)
			sort.Strings(vt.Converters)
			s.Tags = append(s.Tags, vt)
		}
		sort.Slice(s.Tags, func(i, j int) bool { return s.Tags[i].Name < s.Tags[j].Name })
		c <- s
		close(c)
	}
	return <-c
}

// VerifViewTags renders the tag snapshot a view holds (nil before its first use): per tag the decided
// members and the streams that were pending when the snapshot was taken or are still to be evaluated.
func (v *View) VerifViewTags() map[string][2][]uint {
	if v.tagDetails == nil {
		return nil
	}
	out := map[string][2][]uint{}
	for n, td := range v.tagDetails {
		out[n] = [2][]uint{verifBits(td.Matches), verifBits(td.Uncertain)}
	}
	return out
}

// VerifViewIndexes returns the readers a view holds (nil before its first use).
func (v *View) VerifViewIndexes() []*index.Reader { return v.indexes }

// VerifCloseIndexes closes every index reader the manager still holds. Close leaves them to the
// end of the process; the harness runs thousands of services in one process. After Close the
// service loop can be wedged for good (a closed converter cache keeps its lock, by design), so
// this gives up after a second instead of waiting for the loop.
func (mgr *Manager) VerifCloseIndexes() {
	c := make(chan struct{})
	f := func() {
		for r := range mgr.usedIndexes {
			r.Close()
		}
		for _, r := range mgr.indexes {
			r.Close()
		}
		close(c)
	}
	t := time.NewTimer(time.Second)
	defer t.Stop()
	select {
	case mgr.jobs <- f:
	case <-t.C:
		return
	}
	select {
	case <-c:
	case <-t.C:
	}
}

// VerifConverterRemoved delivers what the converter-directory watcher posts to the service loop when
// it sees a Remove or Rename event for path (the harness does not touch the directory, so the real
// watcher stays silent and the moment of the delivery is the harness' choice).
func (mgr *Manager) VerifConverterRemoved(path string) {
	c := make(chan struct{})
	mgr.jobs <- func() {
		defer close(c)
		if err := mgr.removeConverter(path); err != nil {
			log.Printf("error while removing converter: %v", err)
		}
		name := strings.TrimSuffix(filepath.Base(path), filepath.Ext(path))
		mgr.event(Event{
			Type: "converterDeleted",
			Converter: &converters.Statistics{
				Name:      name,
				Processes: []converters.ProcessStats{},
			},
		})
	}
	<-c
}

// VerifConverterWritten delivers what the watcher's debounce timer posts after a Write / Chmod event
// for path: the converter's processes are restarted and its tags' matches queued again.
func (mgr *Manager) VerifConverterWritten(path string) {
	c := make(chan struct{})
	mgr.jobs <- func() {
		defer close(c)
		fileInfo, err := os.Stat(path)
		if err != nil || fileInfo.IsDir() {
			return
		}
		if err := mgr.restartConverterProcess(path); err != nil {
			log.Printf("error while restarting converter: %v", err)
		}
	}
	<-c
}


// VerifSetIndexDir changes the directory merges (and new converter caches) write to, inside the
// service loop: pointing it at a missing directory makes merges fail the way a full or read-only
// disk does, while imports (which use the builder's own copy of the path) go on.
func (mgr *Manager) VerifSetIndexDir(dir string) {
	c := make(chan struct{})
	mgr.jobs <- func() {
		mgr.IndexDir = dir
		close(c)
	}
	<-c
}

// VerifListenerCount returns the number of event listeners the service still knows (read inside the service loop).
// A listener whose client went away while deliveries were waiting stays registered until those deliveries have
// given up; Close must not run before that (it would close the listener's channel a second time).
func (mgr *Manager) VerifListenerCount() int {
	c := make(chan int)
	mgr.jobs <- func() {
		c <- len(mgr.listeners)
	}
	return <-c
}

// VerifStopConverterProcesses ends the idle converter processes of this instance (inside the service loop).
func (mgr *Manager) VerifStopConverterProcesses() {
	c := make(chan struct{})
	mgr.jobs <- func() {
		for _, cv := range mgr.converters {
			cv.VerifStopProcesses()
		}
		close(c)
	}
	<-c
}

// VerifConverterCreated delivers what the watcher's timer posts after a Create event for path: the executable is
// added as a converter (a cache file of that name that is still there is opened again).
func (mgr *Manager) VerifConverterCreated(path string) {
	c := make(chan struct{})
	mgr.jobs <- func() {
		defer close(c)
		fileInfo, err := os.Stat(path)
		if err != nil || fileInfo.IsDir() {
			return
		}
		if err := mgr.addConverter(path); err != nil {
			log.Printf("error while adding converter: %v", err)
			return
		}
		name := strings.TrimSuffix(filepath.Base(path), filepath.Ext(path))
		mgr.event(Event{
			Type:      "converterAdded",
			Converter: mgr.converters[name].Statistics(),
		})
	}
	<-c
}
