//go:build verif

package tools

import "time"

// VerifResetFilename puts the name generator back into its initial state (the interleaving explorer runs it from
// scratch for every schedule).
func VerifResetFilename() {
	mtx.Lock()
	lastTime, lastID = time.Time{}, 0
	mtx.Unlock()
}
