// Package verifsync stands in for package sync in files of the repository that the verification harness
// instruments (go build -overlay rewrites their import; nothing of this is part of /repo).  Without an installed
// controller every type behaves exactly like its counterpart in package sync.  With a controller installed and one of
// its goroutines running, lock acquisitions become scheduling points: the controller decides which goroutine runs next
// and keeps the lock state itself (exactly one controlled goroutine runs at any time).
package verifsync

import (
	"sync"
	"sync/atomic"
	"time"
)

type (
	WaitGroup = sync.WaitGroup
	Once      = sync.Once
	Map       = sync.Map
	Pool      = sync.Pool
	Locker    = sync.Locker
	Cond      = sync.Cond
)

func NewCond(l Locker) *Cond { return sync.NewCond(l) }

// LockState is the state of one lock while goroutines of a controller use it.
type LockState struct {
	Writer  bool
	Readers int
}

func (s *LockState) Free(shared bool) bool {
	if shared {
		return !s.Writer
	}
	return !s.Writer && s.Readers == 0
}

// Controller is implemented by the harness' scheduler.
type Controller interface {
	// Controlled reports whether the calling goroutine is one of the controller's (one of them is running).
	Controlled() bool
	// Acquire is a scheduling point: it returns when the calling goroutine has been chosen to run and l is free
	// in the requested mode; the state has been updated.
	Acquire(l *LockState, shared bool)
	// TryAcquire is a scheduling point too; it never blocks on the lock.
	TryAcquire(l *LockState, shared bool) bool
	Release(l *LockState, shared bool)
	// Now is a scheduling point followed by a reading of the controller's clock.
	Now() time.Time
}

type box struct{ c Controller }

var active atomic.Pointer[box]

// Install makes c the controller (nil removes it).
func Install(c Controller) {
	if c == nil {
		active.Store(nil)
		return
	}
	active.Store(&box{c})
}

// Instrumented is referenced by the harness to find out whether a package was built with this shim.
const Instrumented = true

func ctl() Controller {
	if b := active.Load(); b != nil && b.c.Controlled() {
		return b.c
	}
	return nil
}

type Mutex struct {
	mu sync.Mutex
	st LockState
}

func (m *Mutex) Lock() {
	if c := ctl(); c != nil {
		c.Acquire(&m.st, false)
		return
	}
	m.mu.Lock()
}

func (m *Mutex) TryLock() bool {
	if c := ctl(); c != nil {
		return c.TryAcquire(&m.st, false)
	}
	return m.mu.TryLock()
}

func (m *Mutex) Unlock() {
	if c := ctl(); c != nil {
		c.Release(&m.st, false)
		return
	}
	m.mu.Unlock()
}

type RWMutex struct {
	mu sync.RWMutex
	st LockState
}

func (m *RWMutex) Lock() {
	if c := ctl(); c != nil {
		c.Acquire(&m.st, false)
		return
	}
	m.mu.Lock()
}

func (m *RWMutex) TryLock() bool {
	if c := ctl(); c != nil {
		return c.TryAcquire(&m.st, false)
	}
	return m.mu.TryLock()
}

func (m *RWMutex) Unlock() {
	if c := ctl(); c != nil {
		c.Release(&m.st, false)
		return
	}
	m.mu.Unlock()
}

func (m *RWMutex) RLock() {
	if c := ctl(); c != nil {
		c.Acquire(&m.st, true)
		return
	}
	m.mu.RLock()
}

func (m *RWMutex) TryRLock() bool {
	if c := ctl(); c != nil {
		return c.TryAcquire(&m.st, true)
	}
	return m.mu.TryRLock()
}

func (m *RWMutex) RUnlock() {
	if c := ctl(); c != nil {
		c.Release(&m.st, true)
		return
	}
	m.mu.RUnlock()
}

func (m *RWMutex) RLocker() Locker { return (*rlocker)(m) }

type rlocker RWMutex

func (r *rlocker) Lock()   { (*RWMutex)(r).RLock() }
func (r *rlocker) Unlock() { (*RWMutex)(r).RUnlock() }

// Now stands in for time.Now in instrumented files: a reading of the clock is a scheduling point, and what the clock
// shows is the controller's decision.
func Now() time.Time {
	if c := ctl(); c != nil {
		return c.Now()
	}
	return time.Now()
}
