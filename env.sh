# sourced by run.sh / setup.sh: toolchain and offline build environment
export VERIF_DIR="${VERIF_DIR:-$(cd "$(dirname "${BASH_SOURCE[0]}")" && pwd)}"
export REPO_DIR="${REPO_DIR:-/repo}"
export GOTOOLCHAIN=local GOFLAGS=-mod=mod GOPROXY=off GONOSUMDB='*' GONOSUMCHECK=1 GOWORK=off
export TZ=UTC
GOMODCACHE_DIR="$(GOTOOLCHAIN=local go env GOMODCACHE 2>/dev/null || echo /root/go/pkg/mod)"
GO="$GOMODCACHE_DIR/golang.org/toolchain@v0.0.1-go1.25.0.linux-amd64/bin/go"
if [ ! -x "$GO" ]; then GO="$(command -v go)"; export GOTOOLCHAIN=auto; fi
export GO
