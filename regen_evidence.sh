#!/bin/bash
# usage: ./regen_evidence.sh [tier] [Cxx ...]  - runs the checks one after the other on /repo's working tree and prints one
# line per check (exit code, wall time, violations, exhaustive).  The evidence files are rewritten by the checks themselves.
cd "$(dirname "$0")"
mkdir -p bin evidence replay
tier=${1:-quick}; shift
props=${@:-C01 C02 C03 C04 C05 C06 C07 C08 C09 C10 C11 C12 C13 C14 C15 C16 C17 C18 C19 C20}
if [ -n "$(git -C /repo status --porcelain)" ]; then echo "/repo is not clean"; exit 2; fi
for p in $props; do
  s=$(date +%s)
  ./run.sh $p $tier > bin/regen-$p.log 2>&1; c=$?
  e=$(( $(date +%s) - s ))
  python3 - $p $c $e <<'PY'
import json,sys
p,c,e=sys.argv[1:4]
try:
    ev=json.load(open(f'evidence/{p}.json'))
    print(p,'exit',c,f'{e}s','tier',ev['tier'],'violations',ev.get('violations'),'exhaustive',ev['coverage'].get('exhaustive'),'caps',ev['coverage'].get('caps_hit'))
except Exception as x:
    print(p,'exit',c,f'{e}s','NO EVIDENCE',x)
PY
done
