#!/usr/bin/env python3
"""Regenerates MANIFEST.json from the table below (kept in one place so it stays valid)."""
import json, subprocess

ALL = ["C%02d" % i for i in range(1, 21)]

CHECKS = {
 "C17": dict(
  category="model_checking", engine="E1-bfs", design_ref="3/C17",
  technique="explicit-state BFS over operation sequences on the real containers, canonical-state dedup, map reference model",
  text="Breadth-first exploration of every sequence (quick: depth 5 over 48 ops, thorough: depth 5-6 over 72 ops) of set/unset/flip/inject/extract at word-boundary positions and the eight binary ops, copy, swap, shrink on two registers held simultaneously as Long/Short/ConnectedBitmask; after every transition all observers of all three implementations are compared with a map[uint]bool model, operands must be unchanged and results unaliased. States are the internal representations, so two encodings of one set are explored separately.",
  note="Trusted: the map model (40 lines), reflection-based dump of representations. Bounded by depth and the position alphabet; bits above 210 are not observed."),
}

NOT_YET = {}

def main():
    hooks_commits = []
    try:
        out = subprocess.run(["git", "-C", "/repo", "log", "--format=%H %s"], capture_output=True, text=True).stdout
        hooks_commits = [l.split()[0] for l in out.splitlines() if " verif hook" in l or l.split(" ", 1)[1].startswith("verif:")]
    except Exception:
        pass
    checks = []
    for pid in ALL:
        if pid not in CHECKS:
            continue
        c = CHECKS[pid]
        checks.append({
            "property_id": pid,
            "quick_cmd": "./run.sh %s quick" % pid,
            "thorough_cmd": "./run.sh %s thorough" % pid,
            "evidence_file": "/verif/evidence/%s.json" % pid,
            "replay_cmd_template": "./run.sh %s quick -replay {path}" % pid,
            "engine": c["engine"],
            "level_claimed": {"category": c["category"], "text": c["text"], "design_ref": c["design_ref"]},
            "level_note": c["note"],
            "technique": c["technique"],
        })
    na = [{"property_id": p, "reason": NOT_YET.get(p, "check not built yet in this round; planned in DESIGN.md section 3")} for p in ALL if p not in CHECKS]
    m = {
        "version": 1,
        "setup_cmd": "./setup.sh",
        "hooks": {
            "guard": "verif",
            "enable": "go build -tags verif -overlay /verif/bin/overlay.json (see build.sh)",
            "baseline_off_cmd": "cd /repo && go test -mod=mod -json -vet=off -count=1 -timeout 25m ./...",
            "source_commits": hooks_commits,
            "add_only": True,
        },
        "engines": [
            {"name": "E1-bfs", "path": "harness/mc/bfs.go", "kind_free_text": "explicit-state breadth-first search over operation sequences on the real object, successor = fresh object + replay + 1 op, canonical-state dedup, reference model compared after every transition"},
        ],
        "checks": checks,
        "not_applicable": na,
        "notes": "All commands run from /verif; run.sh rebuilds bin/vcheck from /repo's working tree (tag verif, overlay) before each check. known_findings.json lists recorded/fixed defects.",
    }
    json.dump(m, open("MANIFEST.json", "w"), indent=1)

main()
