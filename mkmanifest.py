#!/usr/bin/env python3
"""Regenerates MANIFEST.json from the table below (kept in one place so it stays valid)."""
import json, subprocess

ALL = ["C%02d" % i for i in range(1, 21)]

CHECKS = {
 "C17": dict(
  category="model_checking", engine="E1-bfs", design_ref="3/C17",
  technique="explicit-state BFS over operation sequences on the real containers, canonical-state dedup, map reference model",
  text="Breadth-first exploration of every sequence (quick: depth 5 over 48 ops, thorough: depth 5-6 over 72 ops) of set/unset/flip/inject/extract at word-boundary positions and the eight binary ops, copy, swap, shrink on two registers held simultaneously as Long/Short/ConnectedBitmask; after every transition all observers of all three implementations are compared with a map[uint]bool model, operands must be unchanged and results unaliased. States are the internal representations, so two encodings of one set are explored separately.",
  note="Trusted: the map model (40 lines), reflection-based dump of representations. Bounded by depth and the position alphabet; bits above 210 are not observed."),
}

CHECKS["C18"] = dict(
  category="model_checking", engine="E4-enum", design_ref="3/C18",
  technique="exhaustive enumeration of regex ASTs x all spans of all short strings, matched by the real regex engine in anchored context",
  text="Every regex AST up to size 4 over the payload-filter grammar (literals, classes, ., anchors, \\b, case folding, greedy/lazy/counted repetition, groups, alternation incl. empty alternatives; de-duplicated by compiled program) is analysed by the real AcceptedLength/ConstantSuffix and compared with ground truth obtained by matching ^(?s:.{i})(?:re)(?s:.{n-j})$ on every span of every string up to length 5 (thorough 6) over {a,b,A,\\n}: every matching span lies in [Min,Max], ends with the suffix, and Min/finite Max are attained for assertion-free regexes.",
  note="Trusted: rsc.io/binaryregexp as matcher. Bounded by AST size, string length and alphabet; attainment is not demanded when the regex contains empty-width assertions.")
CHECKS["C03"] = dict(
  category="model_checking", engine="E4-enum+workers", design_ref="3/C03",
  technique="exhaustive enumeration of expression trees, real parser/normaliser vs reference evaluator on a product universe of abstract streams, in watchdog-supervised worker processes",
  text="All expression trees of the stated families (1-3 leaves quick, up to 4 thorough; AND/OR/THEN/NOT; 57-atom alphabet covering every filter kind, lists, ranges, own-variable arithmetic, masks, all tag kinds, data filters) are printed with explicit parentheses, parsed by query.Parse, and the resulting ConditionsSet is evaluated by a direct evaluator of the condition structs on EVERY record of the product of the field groups the atoms read (every combination of truth values that is realisable, every payload layout of 14 chunk orders) and compared with the evaluation of the AST as written; 'matches nothing' must imply the AST is unsatisfiable on the universe.",
  note="Reference semantics of THEN over groups from the in-app help (DESIGN 7a); trees with negation below THEN and trees whose negation is exponential by construction are excluded and counted; sub-queries excluded; the condition-struct evaluator is bound to the engine by C02.")
CHECKS["C19"] = dict(
  category="model_checking", engine="E4-enum+interleavings", design_ref="3/C19",
  technique="exhaustive enumeration of raw request targets against the real router plus all order-preserving interleavings of split concurrent uploads, file-tree snapshot oracle",
  text="Every sequence of <=3 (thorough <=4) path tokens over a 19-token alphabet (dot segments, encoded separators, backslashes, NUL, odd suffixes, existing and canary names; joined with / and with nothing) is sent as a raw request line to the real chi router (setupRouter compiled from /repo through an overlay test binary) for upload and download, twice; after every request the whole scratch tree is snapshotted and compared: only new regular files inside pcap/, never a modified file, downloads only serve files inside pcap/, duplicate uploads fail, a 2xx upload is queued exactly once (observed through the processed-pcap webhook after a goroutine-level quiescence barrier). All order-preserving merges of the steps of two same-name uploads (also aborted ones) and upload-vs-download are executed under harness-controlled body delivery.",
  note="Trusted: net/http, chi. Request bodies are split in 2 (thorough 3) pieces; the overlay only adds a _test.go file and a web/dist stub.")

CHECKS["C14"] = dict(
  category="model_checking", engine="E4-enum+workers", design_ref="3/C14",
  technique="exhaustive enumeration of byte strings and grammar-token sequences, each parsed twice by the real parser in watchdog-supervised, memory-limited worker processes",
  text="Every byte string of length <=3 (thorough <=4) over a 40-symbol alphabet, every sequence of <=2-3 (thorough <=3) tokens over 57 grammar tokens (space-joined and adjacent) and structured stress families (all small combinations of repeated variable summands with common factors, 1000-element lists, 200-way OR, nesting depth 30, negation of disjunctions up to the stated normal-form bound, pathological regexes) are parsed twice by query.Parse in worker subprocesses: a panic, a worker death or no answer within the 60 s liveness watchdog is attributed to the exact input; the two parses must be structurally equal modulo the parse instant.",
  note="Promptness is judged only by the 60 s watchdog and only for inputs whose constructed normal form stays below ~300 conjuncts; inputs beyond that are run in thorough and reported as observations. Memory limit 6 GiB per worker.")

CHECKS["C01"] = dict(
  category="model_checking", engine="E4-enum", design_ref="3/C01",
  technique="exhaustive enumeration of stream lists over a collision-forcing shape alphabet, written by the real Writer and read back through every Reader path against the generator's ground truth",
  text="Every list of <=3 streams over 28 shapes (v4/v6, shared/new hosts, TCP/UDP, server-first, no payload, same-direction bursts with and without 50 ms gaps, 65535/65536/70000/131073-byte chunks, 1/254/255/256/300 payload-less packets between or before chunks, equal timestamps, durations around one and two wraps of the 32-bit microsecond offset, a stream earlier than all others (re-basing), two captures, packet indexes across 2^32, reassembly order != packet order) x 4 id patterns (dense, sparse, descending, >2^63) is written into one file and read back: StreamIDs, Min/Max, AllStreams, StreamByID (also absent ids), metadata, payload per direction and order of direction runs, packet references and times, StreamByFirstPacketSource on a grid around every stored packet. A second family fills one file to 16382/16383/16384 IPv4 hosts and appends every sequence of <=2 (thorough <=3) streams over {old>old,new>old,old>new,new>new,v6}.",
  note="Chunking inside a direction run and per-packet times outside the representable regime (non-monotonic, gaps >= 2^32 us) are not compared. Regimes behind 2^32 streams/packets or 65536 host groups are not reachable.")

CHECKS["C07"] = dict(
  category="model_checking", engine="E4-enum", design_ref="3/C07",
  technique="exhaustive enumeration of ordered lists of index files, every suffix merged (and merged again) by the real index.Merge, differential oracle on the stack plus the generator's ground truth",
  text="Every ordered list without repetition of <=3 (thorough <=4) index files over 8 file sets built so that every pair collides (same id in older/newer/extended/shrunk versions, shared and disjoint hosts, v4 and v6, earlier and later reference seconds, a newer version whose first packet is earlier, other capture names, packet indexes across 2^32, a 70000-byte chunk behind 300 payload-less packets): for every suffix start the suffix is replaced by index.Merge's output, and for every second suffix start merged again. Before and after, every visible stream (newest version per id through the stack) is compared with the generator's newest version on all C01 observations, no id may be in two output files, and 35 searches (every filter kind, sorts, limits) must give the same result on the merged stack as on the unmerged one.",
  note="Search results are compared as sets unless the sort list ends in id. The second writer of a merge (more than 65536 host groups / 2^32 streams) is not reachable.")

CHECKS["C02"] = dict(
  category="model_checking", engine="E4-enum", design_ref="3/C02",
  technique="exhaustive enumeration of query trees x layouts x sort/limit/page/id-mask against index.SearchStreams, reference = the expression evaluated on the generator's stream records",
  text="Every expression tree of the stated families (1-2 leaves quick, 3 thorough; 65 atoms of every filter kind incl. tags with pending streams and garbage bits, marks, services, data filters on raw payload and on cached converter output with selectors) is parsed and searched over every layout of a 12-stream population on 1-3 (thorough up to 5 layouts) stacked index files in which some ids also exist as older, different, shadowed versions; x 13 (thorough 25) sort key lists x 12 (limit, page) pairs x id restriction. The result must contain no stream twice, only members of the denoted set in their newest version, have the key sequence of the sorted truth cut to the page, and the more flag must equal 'further matches exist'. The unpaged id-sorted search is judged first; pages of a query whose unpaged result is already wrong are not judged separately.",
  note="Quick uses a fixed 6-combination design per query over (layout, sort, page, mask), thorough the full product. Ties across a page edge may resolve either way. Sub-queries and grouping are not enumerated. The condition-struct evaluator of C03 is validated here against the engine on every distinct normal form met.")

CHECKS["C15"] = dict(
  category="model_checking", engine="E1-bfs", design_ref="3/C15",
  technique="explicit-state BFS over store/invalidate/reset/reopen sequences on the real cache file with a map reference model, plus every truncation length of every reached file",
  text="Breadth-first exploration (quick depth 3 over 42 ops, thorough depth 4-5 plus a second BFS with a 16 MiB list so that run-time compaction triggers) of store(id, list) for 11-13 chunk lists (server-first, same-direction runs, content types on any subset, equal/decreasing times, 2-byte varints, empty list, zero-length chunk), the 7 invalidate masks, reset and reopen on a real cache file over a real 3-stream index. After every transition Contains, StreamCount, Data and DataForSearch are compared with a Go map; the canonical state includes the file layout so different layouts of one content are separate states. For every distinct reached file every truncation length is opened with NewCacheFile and must serve exactly the newest complete, not invalidated record per id.",
  note="Timestamps are compared to the microsecond; file layout is not compared. Scratch files live in /dev/shm when available. A memory guard abandons the run (harness error) if the implementation allocates from garbage sizes.")
CHECKS["C05"] = dict(
  category="model_checking", engine="E4-enum", design_ref="3/C05",
  technique="deviation-bounded exhaustive enumeration of renderings of generated conversations (split, overlap, swap, retransmit, equal timestamps, interleave, cut into files, batching) imported by the real builder, compared with the generator's ground truth",
  text="20 conversation sets (TCP v4/v6 with handshake and FIN/RST, server-first, empty ACKs, UDP v4/v6, interleaved flows, colliding ports, 4-tuple reuse, idle gaps, snapshot-sized fillers) are rendered into pcap files with correct sequence numbers and checksums; every rendering with <=1 (thorough <=2) deviations x every cut into two files x batching is imported through builder.FromPcap exactly as the service does, and the visible streams (newest index wins) must be one per conversation with exact endpoints, protocol, per-direction bytes, order of direction runs (where the deviation does not reorder across a direction change) and packet references inside the conversation.",
  note="gopacket's reassembler, libpcap and the generator (validated: every default rendering passes) are the trusted base; IP fragmentation, SYN reordering and data after RST are not generated.")
CHECKS["C08"] = dict(
  category="model_checking", engine="E4-enum", design_ref="3/C05",
  technique="exhaustive enumeration of import histories (ordered set partitions x permutations x restarts x snapshot presence) over generated capture file sets, differential oracle against the one-shot chronological import",
  text="For 288 (thorough 1551) capture file sets of <=3 files obtained by cutting the C05 conversation sets, every ordered partition into import batches, every arrival order (also out of chronological order), with and without a builder restart between batches (thorough: with and without the snapshot file for captures large enough to create snapshots) is imported through the real builder, feeding FromPcap the accumulated readers like the service does. The canonical visible set (streams keyed by endpoints and first packet, ids ignored) must equal that of the one-shot chronological import; along every history an id keeps denoting the same conversation and no conversation has two visible ids.",
  note="Same trusted base as C05. Snapshot histories cost 1.4-2 s per import and are limited to 4 sets.")

CHECKS["C04"] = dict(
  category="model_checking", engine="E4-enum", design_ref="3/C04",
  technique="exhaustive enumeration of regex ASTs and filter combinations against every payload layout of an alphabet through the real search, naive regexp scan as reference",
  text="One index holds every payload layout (every sequence of <=3 chunks, each a direction and one of 6 (thorough 9) words; a third of the streams with a cached output of converter 1, a sixth with one of converter 2). Every regex AST up to size 3 (thorough 4) over the filter grammar as cdata / negated sdata / data.none / cdata.conv1 / negated sdata.conv2, every pair of a 99-regex set chained with THEN in all direction combinations, combined with AND sharing an expression, negated (raw representation), every triple of an 8-regex set in two direction patterns, and captures reused as @v@ variables in 6 positions are searched with index.SearchStreams; the selected set must equal, stream by stream, what a naive leftmost-first scan of the untrimmed bytes selects (a match hides for the other direction everything up to the chunk holding its last byte; positive filters need one representation, negated ones none).",
  note="Negated sequences over several representations are the recorded finding KF-C02-3 and are enumerated on the raw representation only. Payloads crossing the 4096-byte buffer and 64 KiB packets are covered by C01/C07, not here. rsc.io/binaryregexp is trusted.")

CHECKS["C11"] = dict(
  category="model_checking", engine="E2-service+workers", design_ref="3/C11",
  technique="explicit-state BFS over sequences of tag API calls on the real service, every transition in a supervised worker process, tag-table reference checks after every call",
  text="Breadth-first search (quick depth 4, thorough depth 5) over a 43-call menu (AddTag/UpdateTag/DelTag with valid and invalid names and definitions, references to existing, missing, self and cycle-closing tags, colour and name updates incl. taken names and type changes, marks with known, unknown and empty id lists, converter sets with known/unknown converters and on tags that cannot take one) on the real manager with 3 imported streams; background jobs are drained after every call. After every call: an error return must leave the complete tag table (definition, colour, converters, matches, pending, referenced-by) unchanged, a nil return must have had its effect, no definition may reference a missing tag, the reference graph must be acyclic, referenced-by and the Referenced flag of ListTags must mirror the definitions; a process death or no answer within 45 s is attributed to the exact call sequence.",
  note="States are merged by the complete tag table after the jobs have run. Each API call carries one operation, as the HTTP API does.")

CHECKS["C12"] = dict(
  category="fault_enumeration", engine="E3-crash-journal", design_ref="3/C12",
  technique="exhaustive crash-point enumeration: every prefix (and torn last write) of the strace-recorded file-system mutation journal of a history on the real service is materialised and recovered from with the real manager.New",
  text="Each history (tags, colours, settings, webhooks, marks, renames, deletes, imports with merges; a schedule in which a merge is overtaken by an import; thorough: converter caching, queued imports with tag edits) runs once on the real service under strace. The journal of file mutations below the data directory (create, write with payload and offset, truncate, unlink, rename; 170-230 mutations per history) is validated by a whole-journal replay against the directory on disk. Every prefix - and for every write the variants with its first 0, 1, half and all-but-one bytes - is materialised (about 600 crash states per history) and handed to a supervised worker that starts the real manager on it: New must return, every tag/setting acknowledged before the crash point is present (a call in flight may or may not be), every stream visible before the crash is visible under its id in the same or a newer version, never an older or a garbled one, tags converge to the truth and the service reaches quiescence, also after one more import and one more tag.",
  note="Crash model is process kill (what the kernel has survives, last write possibly cut); no reordering or loss of unsynced data. The final clean shutdown + start of every history is part of its journal, so clean restarts are crash points too. strace is trusted after the conformance replay.")

CHECKS["C20"] = dict(
  category="exploration", engine="E5-race-pass", design_ref="3/C20",
  technique="systematic free-running race-detector pass: exhaustive table of (background activity x concurrent API call) pairs, each positioned by the gates, released without waiting and run in a -race child process",
  text="Model checking proper cannot decide 'no unsynchronised access' (a controlled scheduler's hand-offs are happens-before edges). This check makes the race detector's verdict systematic instead of lucky: for every pair of 6 background activities (first import body, import with indexes present, tagging job body, merge body, conversion body with the harness converter, the 1 s tag-update ticker with pending signals) and 11 API calls (Status, ListTags, KnownPcaps, converter/config/webhook listings, views with all tags + search + release, converter data through a view, AddTag+DelTag, mark add/remove, ImportPcaps, event listener with a tag update, SetConfig+webhooks) the activity is parked at its entry, released WITHOUT waiting and the call is issued up to 200 times while the body, its completion and all follow-up jobs run. A report whose stacks lie in the repository is a violation, keyed by the two top-most repository functions.",
  note="Exhaustive over the pair table (quick: one execution per pair, thorough: four), not over schedules: the detector judges the accesses that executed. PCAP-over-IP endpoints are not exercised (they dial out).")

NOT_YET = {}

def main():
    hooks_commits = []
    try:
        out = subprocess.run(["git", "-C", "/repo", "log", "--format=%H %s"], capture_output=True, text=True).stdout
        hooks_commits = [l.split()[0] for l in out.splitlines() if " verif hook" in l or l.split(" ", 1)[1].startswith("verif:")]
    except Exception:
        pass
    checks = []
    for pid in ALL:
        if pid not in CHECKS:
            continue
        c = CHECKS[pid]
        checks.append({
            "property_id": pid,
            "quick_cmd": "./run.sh %s quick" % pid,
            "thorough_cmd": "./run.sh %s thorough" % pid,
            "evidence_file": "/verif/evidence/%s.json" % pid,
            "replay_cmd_template": "./run.sh %s quick -replay {path}" % pid,
            "engine": c["engine"],
            "level_claimed": {"category": c["category"], "text": c["text"], "design_ref": c["design_ref"]},
            "level_note": c["note"],
            "technique": c["technique"],
        })
    na = [{"property_id": p, "reason": NOT_YET.get(p, "check not built yet in this round; planned in DESIGN.md section 3")} for p in ALL if p not in CHECKS]
    m = {
        "version": 1,
        "setup_cmd": "./setup.sh",
        "hooks": {
            "guard": "verif",
            "enable": "go build -tags verif -overlay /verif/bin/overlay.json (see build.sh)",
            "baseline_off_cmd": "cd /repo && go test -mod=mod -json -vet=off -count=1 -timeout 25m ./...",
            "source_commits": hooks_commits,
            "add_only": True,
        },
        "engines": [
            {"name": "E4-enum", "path": "harness/mc/par.go, harness/mc/shard.go", "kind_free_text": "exhaustive enumeration of a bounded input space (all ASTs / token sequences / deviations up to a bound), every case run on the real code and on a reference model; optionally in supervised worker processes so hangs, crashes and memory blow-ups are attributed to a case"},
            {"name": "E3-crash-journal", "path": "harness/c12", "serves_properties": ["C12"], "kind_free_text": "strace journal of the file-system mutations of a history on the real service; every journal prefix and torn-write variant is materialised in memory, written out and recovered from by the real start-up code in a supervised worker"},
            {"name": "E5-race-pass", "path": "harness/c20", "serves_properties": ["C20"], "kind_free_text": "free-running -race build of the service worlds; gates only create the overlap, never order the two overlapping activities"},
            {"name": "E1-bfs", "path": "harness/mc/bfs.go", "kind_free_text": "explicit-state breadth-first search over operation sequences on the real object, successor = fresh object + replay + 1 op, canonical-state dedup, reference model compared after every transition"},
        ],
        "checks": checks,
        "not_applicable": na,
        "notes": "All commands run from /verif; run.sh rebuilds bin/vcheck from /repo's working tree (tag verif, overlay) before each check. known_findings.json lists recorded/fixed defects.",
    }
    json.dump(m, open("MANIFEST.json", "w"), indent=1)

main()
