#!/bin/bash
# usage: ./run.sh <property id> <quick|thorough> [extra vcheck flags]
set -u
cd "$(dirname "$0")"
. ./env.sh
prop="$1"; tier="${2:-${VERIF_TIER:-quick}}"; shift; shift || true
mkdir -p bin evidence replay
mode=""; [ "$prop" = C20 ] && mode=race
if ! ./build.sh $mode >bin/build.log 2>&1; then
  # a tree that does not build is not a property violation
  cat bin/build.log >&2
  echo "harness error: build failed" >&2
  exit 2
fi
exec bin/vcheck -prop "$prop" -tier "$tier" "$@"
